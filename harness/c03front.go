package main

// C03, stream `front` — the front end (lexer, parser, error rendering, compiler) on BYTE strings.
//
// The other source streams of C03 send texts; this one sends bytes: invalid UTF-8, NUL, escapes
// cut short, sources that stop in the middle of a rune, and nesting to depths the parser has no
// guard against.  Per case the child (mode "front", a batch of byte strings per request) runs
//   (i)   the REAL lexer to exhaustion (cap: runes+2 calls of Next),
//   (ii)  the REAL parser.Parse and the rendering of a returned error,
//   (iii) the REAL compiler.Compile on a returned AST,
// each under recover.  The parent converts the bytes the way lexer.New does ([]rune(string)),
// asks the Lean oracle `C03 front <hex of the runes as UTF-8>` (C20's lexer machine `lexAll`) and
// compares: how the token stream ends (eof / lexerr + error class), the number of tokens, the
// largest end offset; and it checks on the REAL data what FrontProps.lean proves of the model:
// tokens ≤ runes+1, end offsets ≤ runes+1.  A panic of any stage, a lexer that does not reach
// EOF within the cap and a dead child are Spec violations.

import (
	"context"
	"crypto/sha256"
	"encoding/hex"
	"fmt"
	"reflect"
	"strings"
	"sync"
	"time"

	"github.com/risor-io/risor"
	"github.com/risor-io/risor/ast"
	"github.com/risor-io/risor/compiler"
	"github.com/risor-io/risor/lexer"
	"github.com/risor-io/risor/parser"
	"github.com/risor-io/risor/token"
)

const c03FrontRule = " Byte strings through the front end (stream `front`): families random-bytes (0–64 bytes, uniform or biased to quotes, backslash, `/ * #`, digits, `0x`, `.`, letters, NUL, newline, CR, 0x80–0xFF), " +
	"mutated-program (a program of the structured generator with 1–3 byte edits: delete / insert / replace / truncate / duplicate a span / swap), truncated-utf8 (multi-byte runes cut short, lone continuation bytes, overlong forms, surrogates, F8–FF " +
	"inside identifiers, strings, backticks, comments and after numbers), escape-edge (every escape kind of a string literal cut short, with bad digits, out of range, unterminated at the end of the text, with NUL inside), " +
	"deep-nesting (n nested `(` `[` `!` `-` `{\"a\":` `f(` `x[`, closed or openers only, n in 1, 2, 10, 100, 1000, 5000, thorough also 20000 and 50000; brace and statement forms to 5000, function literals to 300 only: compiling them takes time cubic in the depth, and time is no verdict; the real parser has NO depth limit — the extractor finds no depth guard — so there is no limit to stand at or step past, " +
	"and depths near 1e6 belong to the `deep` stream and its known finding); per case the real lexer is run to its end (at most runes+2 calls of Next), then parser.Parse with Error()/FriendlyErrorMessage() of a returned error, then compiler.Compile, in a child process; " +
	"the way the token stream ends, its error class, the token count and the largest end offset are compared with C20's lexer machine on the runes Go's []rune conversion yields (oracle `C03 front`), and tokens ≤ runes+1, end offset ≤ runes+1 are checked on the real data; " +
	"a panic of any stage, a lexer that has not ended after runes+2 calls and a dead child are violations; a front case is distinct by its bytes and non-trivial when it is not empty."

// ---------------------------------------------------------------- child side

type c03FrontItem struct {
	Lex      string `json:"lex"` // eof | lexerr | nonterminating | panic:<msg>
	NTok     int    `json:"ntok"`
	MaxEnd   int    `json:"maxend"`
	ErrCls   string `json:"errcls,omitempty"`
	Parse    string `json:"parse"`             // ok | error | panic:<msg>
	ErrFmt   string `json:"errfmt,omitempty"`  // ok | panic:<msg>  (rendering of the returned error)
	Compile  string `json:"compile,omitempty"` // ok | error | panic:<msg>
	CErrFmt  string `json:"cerrfmt,omitempty"` // rendering of the compile error
	Ast      string `json:"ast,omitempty"`     // exported only when the compiler panicked
	ParseMsg string `json:"parsemsg,omitempty"`
}

func c03FrontPanic(r any) string { return "panic:" + c03_short(fmt.Sprint(r), 200) }

// c03FrontLex runs the real lexer to its end.
func c03FrontLex(src string, it *c03FrontItem) {
	defer func() {
		if r := recover(); r != nil {
			it.Lex = c03FrontPanic(r)
		}
	}()
	limit := len([]rune(src)) + 2
	l := lexer.New(src)
	it.Lex = "nonterminating"
	for i := 0; i < limit; i++ {
		t, err := l.Next()
		it.NTok++
		if t.EndPosition.Char > it.MaxEnd {
			it.MaxEnd = t.EndPosition.Char
		}
		if err != nil {
			it.Lex = "lexerr"
			it.ErrCls = c20_lexErrClass(err.Error())
			return
		}
		if t.Type == token.EOF {
			it.Lex = "eof"
			return
		}
	}
}

func c03FrontOne(src string) (it c03FrontItem) {
	c03FrontLex(src, &it)
	var prog *ast.Program
	var perr error
	func() {
		defer func() {
			if r := recover(); r != nil {
				it.Parse = c03FrontPanic(r)
				prog = nil
			}
		}()
		prog, perr = parser.Parse(context.Background(), src)
		if perr != nil {
			it.Parse = "error"
			prog = nil
		} else {
			it.Parse = "ok"
		}
	}()
	if perr != nil {
		it.ErrFmt = c03FormatErr(perr, nil)
		func() {
			defer func() { recover() }()
			it.ParseMsg = c03_short(perr.Error(), 120)
		}()
	}
	if it.Parse != "ok" || prog == nil {
		return
	}
	func() {
		defer func() {
			if r := recover(); r != nil {
				it.Compile = c03FrontPanic(r)
			}
		}()
		cfg := risor.NewConfig()
		_, err := compiler.Compile(prog, cfg.CompilerOpts()...)
		if err != nil {
			it.Compile = "error"
			it.CErrFmt = c03FormatErr(err, nil)
			return
		}
		it.Compile = "ok"
	}()
	if strings.HasPrefix(it.Compile, "panic:") {
		// the attribution to C03-parser-nil-node needs the AST (as in the `src` mode)
		func() {
			defer func() {
				if r := recover(); r != nil {
					it.Ast = "EXPORT-PANIC " + fmt.Sprint(r)
				}
			}()
			w := &c03_astWriter{}
			w.value(reflect.ValueOf(prog), "Program")
			it.Ast = strings.Join(w.toks, " ")
		}()
	}
	return
}

// c03RunFront: opt = the byte strings of the batch, hex, joined by `,` (`-` = empty).
func c03RunFront(opt string) (resp c03Resp) {
	for _, h := range strings.Split(opt, ",") {
		resp.Front = append(resp.Front, c03FrontOne(UnHex(h)))
	}
	return
}

// ---------------------------------------------------------------- generators (parent)

type c03FrontCase struct {
	family string
	desc   string // long inputs: what the text is (part of the key)
	b      []byte
}

var c03FrontHot = []string{"'", "\"", "`", "\\", "/", "*", "#", "0", "1", "7", "8", "9", "0x", ".", "a", "f", "x", "u", "U", "e", "_", "Z",
	"\x00", "\n", "\r", " ", "\t", "{", "}", "(", ")", "[", "]", "=", ":", "~", "@", "$", "/*", "*/", "//", "\r\n"}

func c03FrontHotByte(r *RNG) []byte {
	if r.Chance(22) {
		return []byte{byte(0x80 + r.Intn(0x80))}
	}
	return []byte(Pick(r, c03FrontHot))
}

func c03FrontRandomBytes(r *RNG) []byte {
	n := r.Intn(65)
	if r.Bool() {
		b := make([]byte, n)
		for i := range b {
			b[i] = byte(r.Intn(256))
		}
		return b
	}
	var b []byte
	for len(b) < n {
		b = append(b, c03FrontHotByte(r)...)
	}
	return b[:n]
}

func c03FrontAnyByte(r *RNG) byte {
	if r.Bool() {
		return byte(r.Intn(256))
	}
	return c03FrontHotByte(r)[0]
}

func c03FrontMutate(r *RNG, src []byte) ([]byte, string) {
	b := append([]byte{}, src...)
	var hows []string
	for k := 1 + r.Intn(3); k > 0; k-- {
		if len(b) == 0 {
			b = append(b, c03FrontAnyByte(r))
			hows = append(hows, "insert")
			continue
		}
		i := r.Intn(len(b))
		switch r.Intn(6) {
		case 0:
			b = append(b[:i:i], b[i+1:]...)
			hows = append(hows, "delete")
		case 1:
			b = append(b[:i:i], append([]byte{c03FrontAnyByte(r)}, b[i:]...)...)
			hows = append(hows, "insert")
		case 2:
			b[i] = c03FrontAnyByte(r)
			hows = append(hows, "replace")
		case 3:
			b = b[:i]
			hows = append(hows, "truncate")
		case 4:
			j := i + 1 + r.Intn(min(12, len(b)-i))
			span := append([]byte{}, b[i:j]...)
			b = append(b[:j:j], append(span, b[j:]...)...)
			hows = append(hows, "duplicate")
		default:
			j := r.Intn(len(b))
			b[i], b[j] = b[j], b[i]
			hows = append(hows, "swap")
		}
	}
	return b, strings.Join(hows, "+")
}

// payloads of the truncated-utf8 family: (name, bytes)
var c03FrontBadUTF8 = []struct{ name, b string }{
	{"e-acute-cut", "\xc3"}, {"cjk-cut1", "\xe6"}, {"cjk-cut2", "\xe6\x97"}, {"emoji-cut1", "\xf0"}, {"emoji-cut2", "\xf0\x9f"}, {"emoji-cut3", "\xf0\x9f\x98"},
	{"combining-cut", "e\xcc"}, {"ls-cut1", "\xe2"}, {"ls-cut2", "\xe2\x80"},
	{"lone-cont-80", "\x80"}, {"lone-cont-bf", "\xbf"}, {"lone-cont-x3", "\x80\x80\x80"}, {"cont-after-ascii", "a\x9f"},
	{"overlong-nul", "\xc0\x80"}, {"overlong-slash", "\xc0\xaf"}, {"overlong-c1", "\xc1\xbf"}, {"overlong-3", "\xe0\x80\x80"}, {"overlong-4", "\xf0\x80\x80\x80"},
	{"surrogate-hi", "\xed\xa0\x80"}, {"surrogate-lo", "\xed\xbf\xbf"}, {"surrogate-pair", "\xed\xa0\xbd\xed\xb8\x80"},
	{"f8", "\xf8"}, {"f8-run", "\xf8\x88\x80\x80\x80"}, {"fc", "\xfc"}, {"fe", "\xfe"}, {"ff", "\xff"}, {"fe-ff", "\xfe\xff"}, {"ff-fe", "\xff\xfe"},
	{"above-max", "\xf4\x90\x80\x80"}, {"f5", "\xf5\x80\x80\x80"},
	{"whole-e-acute", "é"}, {"whole-cjk", "日"}, {"whole-emoji", "😀"}, {"whole-combining", "e\u0301"}, {"whole-ls", "\u2028"}, {"whole-ps", "\u2029"},
	{"whole-bom", "\ufeff"}, {"whole-fffd", "\ufffd"}, {"whole-nbsp", "\u00a0"}, {"whole-digit-arabic", "\u0663"}, {"whole-roman", "\u2167"}, {"whole-nel", "\u0085"},
}

// contexts: %s is replaced by the payload
var c03FrontContexts = []struct{ name, pre, post string }{
	{"bare", "", ""}, {"ident", "x", "y := 1"}, {"ident-start", "", "y := 1"}, {"ident-end", "ab", ""}, {"ident-end-sp", "ab", " + 1"},
	{"string", "s := \"a", "b\""}, {"string-end", "\"a", "\""}, {"string-open", "\"a", ""}, {"string-esc", "\"a\\", "b\""},
	{"template", "'a", "b'"}, {"template-expr", "'a{x", "}b'"}, {"template-open", "'", ""},
	{"backtick", "`a", "b`"}, {"backtick-open", "`a", ""},
	{"line-comment", "1 // c ", "\n2"}, {"line-comment-eof", "# ", ""}, {"hash-comment", "x # ", "\ny"},
	{"block-comment", "/* ", " */ 1"}, {"block-comment-open", "1 /* ", ""}, {"block-comment-star", "/* *", "/ 1"},
	{"after-int", "12", ""}, {"after-int-sp", "12", " + 3"}, {"after-float", "1.5", ""}, {"after-dot", "1.", ""}, {"after-hex", "0x1F", ""}, {"after-0x", "0x", ""}, {"after-oct", "017", ""}, {"after-zero", "0", ""},
	{"after-op", "x = ", ""}, {"between-ops", "a <", "= b"}, {"after-dot-ident", "a.", "as"}, {"call-arg", "f(", ")"}, {"index", "x[", "]"}, {"map-key", "{", ": 1}"},
	{"after-newline", "x\n", "\ny"}, {"after-cr", "x\r", "\ny"},
}

func c03FrontTruncUTF8(r *RNG, valid []string) ([]byte, string) {
	if r.Chance(20) && len(valid) > 0 {
		// a valid program whose string literals hold multi-byte runes, cut at a random byte
		src := valid[r.Intn(len(valid))]
		rep := Pick(r, []string{"é", "日本", "😀", "e\u0301", "\u2028", "ß"})
		src = strings.Replace(src, "\"", "\""+rep, 1+r.Intn(3))
		src = "// " + rep + rep + "\nv" + Pick(r, []string{"é", "日", "a\u0301"}) + " := \"" + rep + "\"\n" + src
		b := []byte(src)
		// cut inside a rune when there is one near the chosen place
		i := r.Intn(len(b) + 1)
		for j := i; j < len(b) && j < i+40; j++ {
			if b[j] >= 0x80 && b[j] < 0xC0 {
				i = j
				break
			}
		}
		return b[:i], "program-cut"
	}
	p := c03FrontBadUTF8[r.Intn(len(c03FrontBadUTF8))]
	c := c03FrontContexts[r.Intn(len(c03FrontContexts))]
	pay := p.b
	name := p.name
	if r.Chance(20) {
		q := c03FrontBadUTF8[r.Intn(len(c03FrontBadUTF8))]
		pay += q.b
		name += "+" + q.name
	}
	return []byte(c.pre + pay + c.post), c.name + ":" + name
}

var c03FrontEscBodies = []string{
	"\\x", "\\x4", "\\x41", "\\x4g", "\\xZZ", "\\xg1", "\\x 1", "\\x-1", "\\x+1",
	"\\u", "\\u1", "\\u12", "\\u123", "\\u1234", "\\u12G4", "\\uD800", "\\uDFFF", "\\uFFFF", "\\u00e9", "\\u-123", "\\u 123",
	"\\U", "\\U0010FFFF", "\\U00110000", "\\U7FFFFFFF", "\\U80000000", "\\UFFFFFFFF", "\\U0010FFF", "\\U0001F600", "\\U0000D800", "\\U0000000", "\\U-0000001", "\\UFFFFFFFG",
	"\\400", "\\377", "\\378", "\\3", "\\37", "\\38", "\\08", "\\0", "\\00", "\\000", "\\1", "\\128", "\\4", "\\9", "\\3 7",
	"\\", "\\q", "\\e", "\\a\\b\\f\\n\\r\\t\\v\\\\", "\\'", "\\\"", "\\`", "\\{", "\\}", "\\\n", "\\\r\n", "\\ ", "\\é", "\\\xff", "\\\x80",
	"\x00", "a\x00b", "\\\x00", "\\x\x00", "\\x4\x00", "\\u00\x00", "\\U0010FFF\x00", "\\3\x00", "\\37\x00", "\\x00", "\\000", "\\u0000", "\\U00000000",
	"\n", "\r", "\r\n", "a\nb", "{", "}", "{x", "{x}", "{\"", "{'}'}", "{\\x}", "{1 +}", "{{", "}}", "{\x00}", "{\xff}",
	"\xff", "\xc3", "é", "😀",
}

func c03FrontEscape(r *RNG, i int) ([]byte, string) {
	quotes := []string{"\"", "'", "`"}
	tails := []struct{ name, close, after string }{{"closed", "Q", ""}, {"open", "", ""}, {"closed+more", "Q", " + 1\nx"}, {"open+newline", "", "\nx := 1"}}
	nb, nq, nt := len(c03FrontEscBodies), len(quotes), len(tails)
	if i < nb*nq*nt { // directed: every body × quote × tail
		body := c03FrontEscBodies[i%nb]
		q := quotes[i/nb%nq]
		t := tails[i/nb/nq%nt]
		return []byte(q + body + strings.ReplaceAll(t.close, "Q", q) + t.after), "directed:" + t.name
	}
	q := Pick(r, quotes)
	if r.Chance(70) {
		q = Pick(r, quotes[:2])
	}
	var sb strings.Builder
	sb.WriteString(Pick(r, []string{"", "", "x := ", "f(", "[", "x = 1; ", "{", "return "}))
	sb.WriteString(q)
	for k := 1 + r.Intn(3); k > 0; k-- {
		sb.WriteString(Pick(r, []string{"", "", "a", "ab ", "0", "\\n"}))
		sb.WriteString(Pick(r, c03FrontEscBodies))
	}
	t := tails[r.Intn(nt)]
	sb.WriteString(Pick(r, []string{"", "", "z", "9", "f"}))
	sb.WriteString(strings.ReplaceAll(t.close, "Q", q))
	sb.WriteString(t.after)
	return []byte(sb.String()), "random:" + t.name
}

var c03FrontNest = []struct {
	kind, head, open, mid, close string
	maxN                         int // 0 = every depth
}{
	{kind: "paren", open: "(", mid: "1", close: ")"},
	{kind: "list", open: "[", mid: "1", close: "]"},
	{kind: "bang", open: "!", mid: "true"},
	{kind: "minus", open: "- ", mid: "1"},
	{kind: "minus-raw", open: "-", mid: "1"},
	{kind: "map", open: "{\"a\":", mid: "1", close: "}", maxN: 5000},
	{kind: "call", head: "f", open: "(f", close: ")"},
	{kind: "index", head: "x", open: "[x", close: "]"},
	{kind: "index-const", head: "x", open: "[0", close: "]"},
	// statement-like and brace forms only to 5000 levels: at 50000 `if true {` (a 500 kB text) the
	// front end allocates past the child's 1.2 GB watchdog, which the property's data-size
	// exception covers (reported to the owner of C03, not judged here);
	// function literals only to 300 levels: compiling n nested ones takes time that grows like n³
	// (1000 levels: 6 s, 2000: 40 s) and time is no verdict
	{kind: "func", open: "func(){", mid: "1", close: "}", maxN: 300},
	{kind: "ternary-paren", open: "(true ? ", mid: "1", close: " : 2)", maxN: 5000},
	{kind: "block", open: "{\n", mid: "1", close: "\n}", maxN: 5000},
	{kind: "if", open: "if true {", mid: "1", close: "}", maxN: 5000},
	{kind: "template", open: "'{", mid: "1", close: "}'", maxN: 5000},
}

func c03FrontNestSrc(k int, n int, balanced bool) string {
	d := c03FrontNest[k]
	s := d.head + strings.Repeat(d.open, n)
	if balanced {
		return s + d.mid + strings.Repeat(d.close, n)
	}
	if d.close == "" { // prefix operators: no operand
		return s
	}
	return s + d.mid
}

// ---------------------------------------------------------------- parent: cases and verdicts

type c03FrontRun struct {
	c     *c03Run
	mu    sync.Mutex
	seen  map[string]bool
	t0    time.Time
	last  time.Time
	genS  float64
	cases int
	noted int
}

func c03FrontKey(fc c03FrontCase) string {
	if len(fc.b) <= 200 {
		k := fc.family + "|" + Hex(string(fc.b))
		return k
	}
	h := sha256.Sum256(fc.b)
	return fmt.Sprintf("%s|%s|len=%d|sha256=%s|head=%s", fc.family, fc.desc, len(fc.b), hex.EncodeToString(h[:8]), hex.EncodeToString(fc.b[:24]))
}

func c03FrontBucket(n int) string {
	switch {
	case n <= 1:
		return "0001"
	case n <= 5:
		return "0002-5"
	case n <= 20:
		return "0006-20"
	case n <= 100:
		return "0021-100"
	case n <= 1000:
		return "0101-1000"
	case n <= 10000:
		return "1001-10000"
	}
	return "10001+"
}

func c03FrontClass(s string) string {
	if strings.HasPrefix(s, "panic:") {
		return "panic"
	}
	if s == "" {
		return "-"
	}
	return s
}

// frontCases generates the stream and submits it in batches to the child pool.
func (c *c03Run) frontCases() *c03FrontRun {
	e := c.e
	fr := &c03FrontRun{c: c, seen: map[string]bool{}, t0: time.Now()}
	rng := e.Rng.Fork()
	nRand, nMut, nUtf, nEsc := 900, 900, 600, 0
	depths := []int{1, 2, 10, 100, 1000, 5000}
	if !e.Quick {
		nRand, nMut, nUtf = 9000, 9000, 6000
		depths = append(depths, 20000, 50000)
	}
	nDirectedEsc := len(c03FrontEscBodies) * 3 * 4
	nEsc = nDirectedEsc + 150
	if !e.Quick {
		nEsc = nDirectedEsc + 4500
	}
	// programs of the structured generator (the options of the `valid` stream)
	var valid []string
	nValid := 150
	if !e.Quick {
		nValid = 1500
	}
	for i := 0; i < nValid; i++ {
		r := rng.Fork()
		o := GenOpts{MaxStmts: 2 + r.Intn(4), MaxDepth: 2 + r.Intn(3), Budget: 30 + r.Intn(90), Funcs: true, Closures: r.Bool(),
			Containers: true, Strings: true, CtlHeavy: i%3 == 0, NoCtlInSwitch: true}
		valid = append(valid, Src(GenProgram(r, o)))
	}
	var cases []c03FrontCase
	cases = append(cases, c03FrontCase{family: "random-bytes", b: nil}) // the empty input
	for _, d := range []string{"/*\x001", "/*\x00*/1", "1/*\x00", "/* a */\x001", "\x00", "a\x00b", "\"\x00\"", "#\x001\n2", "//\x00\n2", "`\x00`", "\xff", "\xef\xbf\xbd"} {
		cases = append(cases, c03FrontCase{family: "random-bytes", desc: "directed", b: []byte(d)}) // NUL / U+FFFD in each lexer state
	}
	for i := 0; i < nRand; i++ {
		cases = append(cases, c03FrontCase{family: "random-bytes", b: c03FrontRandomBytes(rng.Fork())})
	}
	for i := 0; i < nMut; i++ {
		r := rng.Fork()
		b, how := c03FrontMutate(r, []byte(valid[r.Intn(len(valid))]))
		e.R.H("front-mutation", how)
		cases = append(cases, c03FrontCase{family: "mutated-program", desc: how, b: b})
	}
	for i := 0; i < nUtf; i++ {
		b, what := c03FrontTruncUTF8(rng.Fork(), valid)
		e.R.H("front-utf8", what[:strings.IndexAny(what+":", ":")])
		cases = append(cases, c03FrontCase{family: "truncated-utf8", desc: what, b: b})
	}
	for i := 0; i < nEsc; i++ {
		b, what := c03FrontEscape(rng.Fork(), i)
		e.R.H("front-escape", what)
		cases = append(cases, c03FrontCase{family: "escape-edge", desc: what, b: b})
	}
	fr.genS = time.Since(fr.t0).Seconds()
	// batches of the short cases
	const batch = 100
	for i := 0; i < len(cases); i += batch {
		fr.submit(cases[i:min(i+batch, len(cases))], 60*time.Second)
	}
	// deep nesting: small depths in one batch per depth, large ones alone
	for _, n := range depths {
		var group []c03FrontCase
		for k := range c03FrontNest {
			n := n
			if m := c03FrontNest[k].maxN; m > 0 && n > m {
				if n != 1000 {
					continue
				}
				n = m // once, at its own largest depth
			}
			for _, bal := range []bool{true, false} {
				if !bal && n > 5000 && k%2 == 1 { // thorough: half of the unbalanced forms at the largest depths
					continue
				}
				shape := "closed"
				if !bal {
					shape = "openers-only"
				}
				fc := c03FrontCase{family: "deep-nesting", desc: fmt.Sprintf("%s*%d:%s", c03FrontNest[k].kind, n, shape), b: []byte(c03FrontNestSrc(k, n, bal))}
				e.R.H("front-deep", fmt.Sprintf("%s n=%05d", shape, n))
				if n >= 5000 {
					fr.submit([]c03FrontCase{fc}, 300*time.Second)
				} else {
					group = append(group, fc)
				}
			}
		}
		if len(group) > 0 {
			fr.submit(group, 120*time.Second)
		}
	}
	return fr
}

// done: after the pool has drained
func (fr *c03FrontRun) done() {
	fr.mu.Lock()
	defer fr.mu.Unlock()
	fr.c.e.R.Note("front: %d cases answered; generation %.1f s, last answer %.1f s after the stream began", fr.cases, fr.genS, fr.last.Sub(fr.t0).Seconds())
}

func (fr *c03FrontRun) submit(batch []c03FrontCase, timeout time.Duration) {
	hexes := make([]string, len(batch))
	for i, fc := range batch {
		hexes[i] = Hex(string(fc.b))
	}
	batch = append([]c03FrontCase{}, batch...)
	req := c03Req{Mode: "front", Opt: strings.Join(hexes, ",")}
	fr.c.pool.submit(req, timeout, func(res c03Result) { fr.judgeBatch(batch, timeout, res) })
}

func (fr *c03FrontRun) judgeBatch(batch []c03FrontCase, timeout time.Duration, res c03Result) {
	c, e := fr.c, fr.c.e
	if res.Death != nil || res.Resp == nil || len(res.Resp.Front) != len(batch) {
		if len(batch) > 1 {
			// which input of the batch killed the child?  each one again, alone
			e.R.H("front-batch", "child died: batch re-run case by case")
			for _, fc := range batch {
				fc := fc
				req := c03Req{Mode: "front", Opt: Hex(string(fc.b))}
				c.pool.submitAsync(req, timeout, func(r2 c03Result) { fr.judgeBatch([]c03FrontCase{fc}, timeout, r2) })
			}
			return
		}
		fc := batch[0]
		key := c03FrontKey(fc)
		e.R.Case(key, fr.first(key) && len(fc.b) > 0)
		e.R.H("front-family", fc.family)
		e.R.H("front-lex", "child-died")
		e.R.H("front-parse", "child-died")
		d := res.Death
		if d == nil {
			e.R.Mismatch(key, "no answer for the case", "one answer per case", "front: harness protocol")
			return
		}
		switch {
		case d.Kind == "timeout":
			e.R.H("front-excluded", "no answer within the time limit (timing is never a verdict)")
			c.death(key, d, "")
		case d.Kind == "memlimit" && len(fc.b) < 1000000:
			e.R.H("child_deaths", d.Kind)
			e.R.Spec(key, fmt.Sprintf("lexer+parser+compiler alone exhaust memory (> 1.2 GB) on a %d-byte input: the process is killed", len(fc.b)), "")
		default:
			c.death(key, d, "")
		}
		return
	}
	e.R.H("front-batch", "answered")
	reqs := make([]string, len(batch))
	nrunes := make([]int, len(batch))
	for i, fc := range batch {
		runes := []rune(string(fc.b)) // what lexer.New does with its input
		nrunes[i] = len(runes)
		reqs[i] = "C03\tfront\t" + Hex(string(runes))
	}
	reps := e.O.AskBatch(reqs)
	for i, fc := range batch {
		fr.judge(fc, res.Resp.Front[i], nrunes[i], reps[i])
	}
	fr.mu.Lock()
	fr.cases += len(batch)
	fr.last = time.Now()
	fr.mu.Unlock()
}

// a NUL byte somewhere after a block-comment opener
func c03FrontNulAfterOpener(b []byte) bool {
	i := strings.Index(string(b), "/*")
	return i >= 0 && strings.IndexByte(string(b[i+2:]), 0) >= 0
}

func (fr *c03FrontRun) noteOnce() bool {
	fr.mu.Lock()
	defer fr.mu.Unlock()
	fr.noted++
	return fr.noted <= 2
}

func (fr *c03FrontRun) first(key string) bool {
	fr.mu.Lock()
	defer fr.mu.Unlock()
	if fr.seen[key] {
		return false
	}
	fr.seen[key] = true
	return true
}

func (fr *c03FrontRun) judge(fc c03FrontCase, it c03FrontItem, nrunes int, rep string) {
	c, e := fr.c, fr.c.e
	key := c03FrontKey(fc)
	e.R.Case(key, fr.first(key) && len(fc.b) > 0)
	e.R.H("front-family", fc.family)
	e.R.H("front-lex", c03FrontClass(it.Lex))
	e.R.H("front-parse", c03FrontClass(it.Parse))
	e.R.H("front-compile", c03FrontClass(it.Compile))
	e.R.H("front-tokens", c03FrontBucket(it.NTok))
	e.R.H("front-family-parse", fc.family+": "+c03FrontClass(it.Parse))
	if nrunes != len(fc.b) {
		e.R.H("front-input", "invalid UTF-8 (bytes became U+FFFD) or multi-byte runes")
	} else {
		e.R.H("front-input", "ASCII only")
	}
	if strings.IndexByte(string(fc.b), 0) >= 0 {
		e.R.H("front-input-nul", "NUL inside")
	}

	// ---- Spec: nothing may panic, the lexer must end
	switch {
	case strings.HasPrefix(it.Lex, "panic:"):
		e.R.Spec(key, "lexer.Next panicked: "+it.Lex[6:], "")
	case it.Lex == "nonterminating":
		e.R.Spec(key, fmt.Sprintf("the lexer returned %d tokens on %d runes without reaching EOF or an error (cap: runes+2 calls of Next)", it.NTok, nrunes), "")
	}
	if strings.HasPrefix(it.Parse, "panic:") {
		e.R.Spec(key, "parser.Parse panicked: "+it.Parse[6:], "")
	}
	if strings.HasPrefix(it.ErrFmt, "panic:") {
		e.R.Spec(key, "formatting the returned parse error panicked ("+it.ErrFmt+"); error: "+it.ParseMsg, "")
	}
	if strings.HasPrefix(it.CErrFmt, "panic:") {
		e.R.Spec(key, "formatting the returned compile error panicked ("+it.CErrFmt+")", "")
	}
	if strings.HasPrefix(it.Compile, "panic:") {
		// attribution as in the source streams: the nil-slot predicate of the model on the real AST
		finding := ""
		slot := c.astNilSlot(key, it.Ast)
		if slot != "" {
			finding = "C03-parser-nil-node"
		}
		e.R.Spec(key, fmt.Sprintf("compiler.Compile panicked (%s); parser.Parse had returned no error; nil slot per model: %q", it.Compile[6:], slot), finding)
	}

	// the theorems' content on the REAL data
	if it.NTok > nrunes+1 {
		e.R.Mismatch(key, fmt.Sprintf("%d tokens on %d runes", it.NTok, nrunes), "tokens ≤ runes + 1", "front: token count bound on the real lexer")
	}
	if it.MaxEnd > nrunes+1 {
		e.R.Mismatch(key, fmt.Sprintf("end offset %d on %d runes", it.MaxEnd, nrunes), "end offset ≤ runes + 1", "front: end position bound on the real lexer")
	}

	// ---- Code vs model: the lexer's outcome
	if it.Lex != "eof" && it.Lex != "lexerr" {
		e.R.H("front-excluded", "lexer comparison: the real lexer did not end (reported as a violation)")
		return
	}
	f := strings.Split(rep, "\t")
	if len(f) != 6 || f[0] != "ok" {
		e.R.Mismatch(key, "lexer: "+it.Lex, rep, "front: oracle refused the request")
		return
	}
	goCls := it.ErrCls
	if goCls == "" {
		goCls = "-"
	}
	goText := fmt.Sprintf("class=%s tokens=%d runes=%d maxEnd=%d errcls=%s", it.Lex, it.NTok, nrunes, it.MaxEnd, goCls)
	modelText := fmt.Sprintf("class=%s tokens=%s runes=%s maxEnd=%s errcls=%s", f[1], f[2], f[3], f[4], f[5])
	if it.Lex == "lexerr" {
		e.R.H("front-lexerr", goCls)
	}
	if c03FrontNulAfterOpener(fc.b) {
		// C20's machine ends the text at a NUL rune inside a block comment (`.block`, c = 0 ↦ EOF);
		// lexer.go's skipMultiLineComment takes that NUL for the end of the comment and Next goes on
		// with the rune after it (`/*<NUL>1` is INT, EOF).  C20's model is not this stream's to
		// change: the comparison is skipped for every input with a NUL somewhere after a `/*`
		// (decidable on the bytes, an over-approximation), counted here with its would-be result.
		e.R.H("front-excluded", "lexer comparison: a NUL byte after a `/*` (C20's machine ends the text at a NUL inside a block comment, the real lexer resumes after it)")
		if goText != modelText {
			e.R.H("front-excluded-corr", "differ")
			if fr.noteOnce() {
				e.R.Note("front: excluded from the lexer comparison (NUL after `/*`), first difference: %s | real: %s | model: %s", key, goText, modelText)
			}
		} else {
			e.R.H("front-excluded-corr", "agree")
		}
		if f[1] == "fuel" {
			e.R.Mismatch(key, goText, modelText, "front: the model's token loop ran out of fuel (FrontProps says it cannot)")
		}
		return
	}
	if goText != modelText {
		e.R.H("front-corr", "MISMATCH")
		e.R.Mismatch(key, goText, modelText, "front: lexer outcome/token count")
	} else {
		e.R.H("front-corr", "agree")
	}
	if f[1] == "fuel" {
		e.R.Mismatch(key, goText, modelText, "front: the model's token loop ran out of fuel (FrontProps says it cannot)")
	}
}
