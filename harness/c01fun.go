package main

// C01, proved FUNCTION fragment (lean/RisorModel/C01/Fun*.lean).  The theorems
// `fun_simulation` / `fun_compile_correct` relate three Lean definitions: evalFun (reference
// semantics with calls), compFun (functional compiler: main code and one code object per
// function) and runFun (VM with call frames).  This file re-establishes, on every run, the links
// between those definitions and the code:
//
//   (A) compFun p, assembled, EVERY code object == bytecode/constants/names of the real compiler (and == Compile.lean)
//   (B) evalFun p                               == Sem.lean's runProg p                          (and == the real result)
//   (C) runFun (compFun p)                      == VM.lean's runCodes (compileProg p)            (and == the real result)
//
// on every program of the shared generator that lies in the fragment and on programs of a
// fragment-only generator below (c01fragGen with two hooks: calls in every expression position,
// returns and call statements in every statement position).  The oracle computes all Lean sides
// in one request (`C01 fun run`), see FunOracle.lean.

import (
	"fmt"
	"strings"
	"time"
)

type c01funDecl struct {
	name    string
	named   bool     // func name(...) vs name := func(...)
	ptys    []string // parameter types
	ndef    int      // trailing parameters with defaults
	ret     string   // int bool str nil (nil: no value)
	rec     bool     // takes a depth counter first: calls must pass a small literal
	partial bool     // declared later in the program: callable only from function bodies (forward reference)
}

type c01funGen struct {
	g        *c01fragGen
	funs     []*c01funDecl // callable from where the generator stands
	cur      *c01funDecl   // function whose body is being generated (nil at top level)
	inCall   int           // nesting of generated call arguments
	callsOut int
}

// call builds f(args): arguments of the declared types (or, on error runs, of other types / the wrong count).
func (fg *c01funGen) call(f *c01funDecl, d int, noTern bool) *N {
	g := fg.g
	fg.inCall++
	defer func() { fg.inCall-- }()
	fg.callsOut++
	nargs := len(f.ptys)
	if f.ndef > 0 && g.r.Chance(60) {
		nargs -= 1 + g.r.Intn(f.ndef)
	}
	if g.errs && g.r.Chance(6) { // arity error
		if nargs > 0 && g.r.Bool() {
			nargs--
			if nargs < len(f.ptys)-f.ndef {
				// really missing
			}
		} else {
			nargs++
		}
	}
	var args []*N
	for i := 0; i < nargs; i++ {
		ty := "int"
		if i < len(f.ptys) {
			ty = f.ptys[i]
		}
		if f.rec && i == 0 {
			args = append(args, nInt(int64(g.r.Intn(6))))
			continue
		}
		dd := d - 1
		if dd > 1 {
			dd = 1
		}
		if dd < 0 {
			dd = 0
		}
		args = append(args, g.expr(ty, dd, noTern))
	}
	return nCall(nId(f.name), args...)
}

func (fg *c01funGen) candidates(ty string) []*c01funDecl {
	var out []*c01funDecl
	for _, f := range fg.funs {
		if f.ret != ty {
			continue
		}
		if f.partial && fg.cur == nil {
			continue
		}
		if f == fg.cur {
			continue // recursion only through the templates
		}
		out = append(out, f)
	}
	return out
}

func (fg *c01funGen) exprHook(ty string, d int, noTern bool) *N {
	g := fg.g
	if fg.inCall > 2 || g.budget <= 0 {
		return nil
	}
	cs := fg.candidates(ty)
	if len(cs) == 0 || !g.r.Chance(22) {
		if g.errs && len(fg.funs) > 0 && g.r.Chance(2) { // a function value / a call of the wrong type in an operand position
			f := Pick(g.r, fg.funs)
			if g.r.Bool() && !(f.partial && fg.cur == nil) && f != fg.cur {
				return fg.call(f, d, noTern)
			}
			return nId(f.name)
		}
		return nil
	}
	return fg.call(Pick(g.r, cs), d, noTern)
}

func (fg *c01funGen) stmtHook(d int) []*N {
	g := fg.g
	if fg.cur != nil && g.r.Chance(14) { // a return: guarded, or bare (the rest of the block is dead code)
		var ret *N
		switch {
		case fg.cur.ret == "nil" && g.r.Bool():
			ret = n("return")
		case fg.cur.ret == "nil":
			ret = n("return", n("nil"))
		default:
			ret = n("return", g.expr(fg.cur.ret, 1, false))
		}
		switch g.r.Intn(5) {
		case 0:
			return []*N{ret}
		case 1:
			c := g.expr("bool", 1, false)
			g.push()
			els := nBlock(g.stmt(5)...)
			g.pop()
			return []*N{n("expr", n("if", c, nBlock(ret), els))}
		}
		return []*N{n("expr", n("if", g.expr("bool", 1, false), nBlock(ret)))}
	}
	if len(fg.funs) > 0 && g.r.Chance(10) { // a call as a statement (any return type)
		var cs []*c01funDecl
		for _, f := range fg.funs {
			if !(f.partial && fg.cur == nil) && f != fg.cur {
				cs = append(cs, f)
			}
		}
		if len(cs) > 0 {
			return []*N{n("expr", fg.call(Pick(g.r, cs), 2, false))}
		}
	}
	return nil
}

func c01funParams(f *c01funDecl, names []string, r *RNG) *N {
	ps := n("params")
	for i, nm := range names {
		p := ns("param", nm)
		if i >= len(names)-f.ndef {
			switch f.ptys[i] {
			case "int":
				p.C = append(p.C, nInt(int64(r.Intn(7))))
			case "bool":
				p.C = append(p.C, nBool(r.Bool()))
			default:
				p.C = append(p.C, nStr(Pick(r, c01fragWords)))
			}
		}
		ps.C = append(ps.C, p)
	}
	return ps
}

// function generates one function declaration statement and registers the function.
func (fg *c01funGen) function() *N {
	g := fg.g
	f := &c01funDecl{named: g.r.Chance(65), ret: Pick(g.r, []string{"int", "int", "int", "bool", "str", "nil"})}
	f.name = g.fresh("f")
	np := g.r.Intn(4)
	for i := 0; i < np; i++ {
		f.ptys = append(f.ptys, Pick(g.r, []string{"int", "int", "bool", "str"}))
	}
	if np > 0 && g.r.Chance(35) {
		f.ndef = 1 + g.r.Intn(np)
	}
	// the body sees the top-level variables declared so far (not those of nested blocks) and its parameters
	savedScopes, savedLoop, savedTern := g.scopes, g.loop, g.inTern
	globals := append([]c01fragVar{}, g.scopes[0]...)
	var pnames []string
	for i := 0; i < np; i++ {
		nm := g.fresh("p")
		if len(globals) > 0 && g.r.Chance(8) { // a parameter that shadows a global
			k := g.r.Intn(len(globals))
			nm = globals[k].name
			globals = append(globals[:k:k], globals[k+1:]...)
			dup := false
			for _, q := range pnames {
				dup = dup || q == nm
			}
			if dup {
				nm = g.fresh("p")
			}
		}
		pnames = append(pnames, nm)
	}
	g.scopes = [][]c01fragVar{globals, nil}
	for i, nm := range pnames {
		g.declare(nm, f.ptys[i], false)
	}
	g.loop, g.inTern = 0, 0
	g.inLoop++ // a function may be called from a loop: strings grow by literals only
	fg.cur = f
	var body []*N
	tmpl := g.r.Intn(10)
	switch {
	case tmpl < 2 && f.named && f.ret == "int":
		// recursion with a decreasing first argument through the self slot
		f.rec = true
		f.ptys = append([]string{"int"}, f.ptys...)
		k := g.fresh("k")
		pnames = append([]string{k}, pnames...)
		g.scopes[1] = append([]c01fragVar{{k, "int", true}}, g.scopes[1]...)
		base := g.expr("int", 1, false)
		self := func(dec int64) *N { // fresh argument expressions per call: a declaration inside one must not occur twice
			args := []*N{nInfix("-", nId(k), nInt(dec))}
			for i := 1; i < len(pnames); i++ {
				args = append(args, g.expr(f.ptys[i], 1, false))
			}
			return nCall(nId(f.name), args...)
		}
		var step *N
		switch g.r.Intn(4) {
		case 0:
			step = nInfix("+", self(1), self(2)) // two recursive calls
		case 1:
			step = nInfix("*", nId(k), self(1))
		case 2:
			step = nInfix("+", g.expr("int", 1, false), self(1))
		default:
			step = self(1) // a tail call
		}
		body = append(body, n("expr", n("if", nInfix("<=", nId(k), nInt(int64(g.r.Intn(2)))), nBlock(n("return", base)))))
		for i := g.r.Intn(2); i > 0 && g.budget > 0; i-- {
			body = append(body, g.stmt(1)...)
		}
		if g.r.Bool() {
			body = append(body, n("return", step))
		} else {
			body = append(body, n("expr", step))
		}
	default:
		k := g.r.Intn(4)
		for i := 0; i < k && g.budget > 0; i++ {
			body = append(body, g.stmt(1)...)
		}
		switch {
		case f.ret == "nil":
			// no value: the last statement is no expression (or the body is empty)
			if len(body) > 0 && body[len(body)-1].K == "expr" && body[len(body)-1].C[0].K != "if" && body[len(body)-1].C[0].K != "switch" {
				body = append(body, nAssign0(g))
			}
			if len(body) > 0 {
				if last := body[len(body)-1]; last.K == "expr" {
					body = append(body, n("return"))
				}
			}
		case g.r.Chance(45):
			body = append(body, n("return", g.expr(f.ret, 2, false)))
			if g.r.Chance(15) && g.budget > 0 { // statements after the first top-level return are not compiled
				body = append(body, g.stmt(2)...)
			}
		default:
			body = append(body, n("expr", g.expr(f.ret, 2, false)))
		}
	}
	fg.cur = nil
	g.inLoop--
	g.scopes, g.loop, g.inTern = savedScopes, savedLoop, savedTern
	fg.funs = append(fg.funs, f)
	lit := ns("func", "", c01funParams(f, pnames, g.r), nBlock(body...))
	if f.named {
		lit.S = f.name
		return n("expr", lit)
	}
	g.declare(f.name, "fn", true)
	return nVar(f.name, lit)
}

// nAssign0: a harmless non-expression statement (declares a fresh local)
func nAssign0(g *c01fragGen) *N {
	nm := g.fresh("u")
	g.declare(nm, "int", false)
	return nVar(nm, nInt(0))
}

// mutual: a pair of mutually recursive named functions (the first refers to the second before
// its declaration: the real compiler pre-declares named functions)
func (fg *c01funGen) mutual() []*N {
	g := fg.g
	a, b := g.fresh("ev"), g.fresh("od")
	k1, k2 := g.fresh("k"), g.fresh("k")
	mk := func(name, k, other string, base bool) *N {
		return n("expr", ns("func", name, n("params", ns("param", k)), nBlock(
			n("expr", n("if", nInfix("==", nId(k), nInt(0)), nBlock(n("return", nBool(base))))),
			n("return", nCall(nId(other), nInfix("-", nId(k), nInt(1)))))))
	}
	fa := &c01funDecl{name: a, named: true, ptys: []string{"int"}, ret: "bool", rec: true}
	fb := &c01funDecl{name: b, named: true, ptys: []string{"int"}, ret: "bool", rec: true}
	fg.funs = append(fg.funs, fa, fb)
	return []*N{mk(a, k1, b, true), mk(b, k2, a, false)}
}

// c01funProgram generates one program inside the function fragment.
func c01funProgram(r *RNG) *N {
	g := &c01fragGen{r: r, budget: 40 + r.Intn(140), errs: r.Chance(35)}
	fg := &c01funGen{g: g}
	g.exprHook = fg.exprHook
	g.stmtHook = fg.stmtHook
	g.push()
	var ss []*N
	nf := 1 + r.Intn(3)
	k := nf + 1 + r.Intn(5)
	declared := 0
	for i := 0; i < k; i++ {
		switch {
		case declared < nf && (r.Chance(50) || k-i <= nf-declared):
			if r.Chance(8) {
				ss = append(ss, fg.mutual()...)
			} else {
				ss = append(ss, fg.function())
			}
			declared++
		case g.budget > 0:
			ss = append(ss, g.stmt(0)...)
		}
	}
	// the program's value observes the store or a call
	switch vs := g.vars("", false); {
	case len(fg.funs) > 0 && r.Chance(55):
		f := Pick(r, fg.funs)
		ss = append(ss, n("expr", fg.call(f, 2, false)))
	case len(vs) > 0 && r.Chance(70):
		v := Pick(r, vs)
		ss = append(ss, n("expr", nId(v.name)))
	default:
		ss = append(ss, n("expr", g.expr(Pick(r, []string{"int", "bool", "str"}), 2, false)))
	}
	return n("prog", ss...)
}

// ---- rendering: c01frag's, plus calls, function literals and return

func c01funSub(x *N, p int, right bool) string {
	q := exprPrec(x)
	if x.K == "tern" {
		q = 1
	}
	s := c01funExpr(x)
	if q < p || (right && q == p) {
		return "(" + s + ")"
	}
	return s
}

func c01funExpr(x *N) string {
	switch x.K {
	case "infix":
		p := precTable[x.S]
		return c01funSub(x.C[0], p, false) + " " + x.S + " " + c01funSub(x.C[1], p, true)
	case "prefix":
		in := c01funSub(x.C[0], 14, false)
		if x.S == "-" && strings.HasPrefix(in, "-") {
			in = "(" + in + ")"
		}
		return x.S + in
	case "tern":
		return c01funSub(x.C[0], 7, false) + " ? " + c01funSub(x.C[1], 7, false) + " : " + c01funSub(x.C[2], 7, false)
	case "call":
		args := make([]string, len(x.C)-1)
		for i, a := range x.C[1:] {
			args[i] = c01funExpr(a)
		}
		return c01funSub(x.C[0], 14, false) + "(" + strings.Join(args, ", ") + ")"
	case "func":
		var ps []string
		for _, p := range x.C[0].C {
			if len(p.C) > 0 {
				ps = append(ps, p.S+"="+Expr(p.C[0]))
			} else {
				ps = append(ps, p.S)
			}
		}
		name := ""
		if x.S != "" {
			name = " " + x.S
		}
		return "func" + name + "(" + strings.Join(ps, ", ") + ") " + c01funBlock(x.C[1])
	case "if":
		s := "if " + c01funExpr(x.C[0]) + " " + c01funBlock(x.C[1])
		if len(x.C) > 2 {
			if x.C[2].K == "if" {
				s += " else " + c01funExpr(x.C[2])
			} else {
				s += " else " + c01funBlock(x.C[2])
			}
		}
		return s
	case "switch":
		var sb strings.Builder
		sb.WriteString("switch " + c01funExpr(x.C[0]) + " {\n")
		for _, c := range x.C[1:] {
			if c.K == "case" {
				vs := make([]string, len(c.C)-1)
				for i, v := range c.C[:len(c.C)-1] {
					vs[i] = c01funExpr(v)
				}
				sb.WriteString("case " + strings.Join(vs, ", ") + ":\n" + c01funStmts(c.C[len(c.C)-1].C, 1))
			} else {
				sb.WriteString("default:\n" + c01funStmts(c.C[0].C, 1))
			}
		}
		sb.WriteString("}")
		return sb.String()
	}
	return Expr(x) // literals and identifiers
}

func c01funBlock(b *N) string {
	if len(b.C) == 0 {
		return "{ }"
	}
	return "{\n" + c01funStmts(b.C, 1) + "}"
}

func c01funStmts(ss []*N, depth int) string {
	var sb strings.Builder
	for _, s := range ss {
		sb.WriteString(ind(depth) + strings.ReplaceAll(c01funStmt(s), "\n", "\n"+ind(depth)) + "\n")
	}
	return sb.String()
}

func c01funStmt(s *N) string {
	switch s.K {
	case "var":
		return s.S + " := " + c01funExpr(s.C[0])
	case "assign":
		f := strings.SplitN(s.S, " ", 2)
		return f[0] + " " + f[1] + " " + c01funExpr(s.C[0])
	case "postfix":
		f := strings.SplitN(s.S, " ", 2)
		return f[0] + f[1]
	case "for3":
		return "for " + c01funStmt(s.C[0]) + "; " + c01funExpr(s.C[1]) + "; " + c01funStmt(s.C[2]) + " " + c01funBlock(s.C[3])
	case "forcond":
		return "for " + c01funExpr(s.C[0]) + " " + c01funBlock(s.C[1])
	case "forever":
		return "for " + c01funBlock(s.C[0])
	case "return":
		if len(s.C) == 0 {
			return "return"
		}
		return "return " + c01funExpr(s.C[0])
	case "expr":
		return c01funExpr(s.C[0])
	}
	return Stmt(s)
}

func c01funSrc(p *N) string { return c01funStmts(p.C, 0) }

// c01funOne checks every link on one program; origin names the generator for the histograms.
// It returns false when the program is outside the fragment.
func c01funOne(e *Env, p *N, src, origin string) bool {
	rep := e.O.Ask("C01", "fun", "run", Sexp(p), c01Globals)
	f := strings.Split(rep, "\t")
	if f[0] != "in" || len(f) != 13 {
		if f[0] != "out" {
			e.R.Mismatch(src, "-", rep, "C01 fun run: malformed oracle reply")
		}
		return false
	}
	e.R.H("fun_programs", origin)
	kinds := Kinds(p)
	for k := range kinds {
		e.R.H("fun_constructs", k)
	}
	evalF, runF, stF, stR, asm, linkA, sem, vmm, topF, topSem, stVM, lex := f[1], f[2], f[3], f[4], f[5], f[6], f[7], f[8], f[9], f[10], f[11], f[12]
	oc := evalF
	if strings.HasPrefix(oc, "ok:(") {
		oc = strings.SplitN(strings.TrimPrefix(oc, "ok:("), " ", 2)[0]
		oc = "ok:" + strings.TrimSuffix(oc, ")")
	}
	e.R.H("fun_outcome", oc)
	e.R.H("fun_code_objects", fmt.Sprintf("%d", 1+strings.Count(asm, "|")))
	e.R.H("fun_calls_in_program", fmt.Sprintf("%d", min(kinds["call"], 12)))
	e.R.H("fun_visibility", lex)
	if evalF == "oof" || runF == "oof" {
		e.R.Note("function-fragment program exhausted the model's fuel (skipped): %s", src)
		return true
	}
	mis := func(goSide, model, what string) { e.R.Mismatch(src, goSide, model, "function fragment: "+what) }
	// the theorem's two sides, evaluated (a proved equality: a difference here means the build is inconsistent)
	if evalF != runF || stF != stR {
		mis(evalF+" "+stF, runF+" "+stR, "evalFun vs runFun∘compFun (proved equal by fun_compile_correct)")
	}
	// the real pipeline
	out := EvalSrc(src, 5*time.Second)
	real := c01fragReal(out)
	if real == "err:context" {
		e.R.Note("real run timed out on a function-fragment program (skipped): %s", src)
		return true
	}
	if real != evalF {
		mis(real, evalF, "risor.Eval vs evalFun (reference semantics of the fragment)")
	}
	if real != runF {
		mis(real, runF, "risor.Eval vs runFun (compFun p)")
	}
	// (A) bytecode, every code object
	code, err := CompileSrc(src)
	goCode := "fail"
	if err == nil {
		goCode = CodeExport(code)
	} else {
		goCode = "fail: " + err.Error()
	}
	if goCode != asm {
		mis(goCode, asm, "link A: compiler.Compile vs compFun (assembled), every code object, instruction for instruction")
	}
	if linkA != "same" {
		mis(asm, linkA, "link A: compFun (assembled) vs Compile.lean's compileProg")
	}
	// (B) reference semantics (Sem.lean binds a function's name at its declaration: not comparable on forward references)
	if lex == "lex" {
		if sem != evalF || topSem != topF {
			mis(sem+" "+topSem, evalF+" "+topF, "link B: Sem.lean's runProg vs evalFun (outcome, top-level variables)")
		}
	}
	// (C) VM model
	if vmm != runF || stVM != stR {
		mis(vmm+" "+stVM, runF+" "+stR, "link C: VM.lean's runCodes on compileProg vs runFun on compFun (outcome, globals)")
	}
	return true
}

var c01funRuleDone = false
var c01funRng *RNG

// c01funDirected: programs that pin one detail each (the same checks as generated programs).
func c01funDirected() []*N {
	P := func(names ...string) *N {
		ps := n("params")
		for _, nm := range names {
			ps.C = append(ps.C, ns("param", nm))
		}
		return ps
	}
	pd := func(ps *N, name string, d *N) *N { ps.C = append(ps.C, ns("param", name, d)); return ps }
	fdecl := func(name string, ps *N, body ...*N) *N { return n("expr", ns("func", name, ps, nBlock(body...))) }
	flit := func(v string, ps *N, body ...*N) *N { return nVar(v, ns("func", "", ps, nBlock(body...))) }
	ret := func(e *N) *N { return n("return", e) }
	X := func(e *N) *N { return n("expr", e) }
	iff := func(c *N, then ...*N) *N { return n("if", c, nBlock(then...)) }
	id, I := nId, nInt
	prog := func(ss ...*N) *N { return n("prog", ss...) }
	return []*N{
		// recursion through the self slot, explicit returns
		prog(fdecl("fact", P("k"), X(iff(nInfix("<=", id("k"), I(1)), ret(I(1)))), ret(nInfix("*", id("k"), nCall(id("fact"), nInfix("-", id("k"), I(1)))))),
			X(nCall(id("fact"), I(10)))),
		// implicit return of an if/else expression, two recursive calls
		prog(fdecl("fib", P("k"), X(n("if", nInfix("<", id("k"), I(2)), nBlock(X(id("k"))),
			nBlock(X(nInfix("+", nCall(id("fib"), nInfix("-", id("k"), I(1))), nCall(id("fib"), nInfix("-", id("k"), I(2))))))))),
			X(nCall(id("fib"), I(9)))),
		// loop with early return, local, default argument, global side effect
		prog(nVar("calls", I(0)),
			flit("first", pd(P("lim"), "step", I(3)), nAssign("calls", "+=", I(1)),
				n("for3", nVar("i", I(0)), nInfix("<", id("i"), I(100)), nAssign("i", "+=", id("step")),
					nBlock(X(iff(nInfix(">", nInfix("*", id("i"), id("i")), id("lim")), ret(id("i")))))),
				X(ns("prefix", "-", I(1)))),
			X(nInfix("+", nInfix("+", nInfix("*", nCall(id("first"), I(50)), I(100)), nInfix("*", nCall(id("first"), I(50), I(5)), I(10))), id("calls")))),
		// arity errors: too few, too many; not callable
		prog(fdecl("two", P("a", "b"), X(nInfix("+", id("a"), id("b")))), nVar("x", I(1)), nAssign("x", "=", nCall(id("two"), I(1)))),
		prog(fdecl("two", P("a", "b"), X(nInfix("+", id("a"), id("b")))), X(nCall(id("two"), I(1), I(2), I(3)))),
		prog(nVar("x", I(5)), X(nCall(id("x"), I(1)))),
		prog(X(nCall(n("nil")))),
		// empty body; body ending in a non-expression; dead code after a bare / valued return
		prog(fdecl("f", P()), X(nCall(id("f")))),
		prog(fdecl("f", P("a"), ns("postfix", "a ++")), X(nCall(id("f"), I(1)))),
		prog(fdecl("f", P("a"), n("return"), X(id("a"))), X(nCall(id("f"), I(1)))),
		prog(fdecl("f", P("a"), ret(id("a")), X(nInfix("+", id("a"), I(1)))), X(nCall(id("f"), I(1)))),
		// return under pending operands (inside a switch that is an operand)
		prog(fdecl("f", P("a"), X(nInfix("+", I(1), n("switch", id("a"), n("case", I(1), nBlock(ret(I(10)))), n("default", nBlock(X(I(2)))))))),
			X(nInfix("+", nInfix("*", nCall(id("f"), I(1)), I(100)), nCall(id("f"), I(2))))),
		// calls nested in arguments, left to right
		prog(fdecl("f", P("a", "b"), X(id("b"))), X(nInfix("+", nCall(id("f"), I(1), nCall(id("f"), I(2), I(3))), nCall(id("f"), nCall(id("f"), I(4), I(5)), I(6))))),
		// mutual recursion, forward reference
		prog(fdecl("ev", P("k"), X(iff(nInfix("==", id("k"), I(0)), ret(nBool(true)))), ret(nCall(id("od"), nInfix("-", id("k"), I(1))))),
			fdecl("od", P("k"), X(iff(nInfix("==", id("k"), I(0)), ret(nBool(false)))), ret(nCall(id("ev"), nInfix("-", id("k"), I(1))))),
			X(nCall(id("ev"), I(7)))),
		// a parameter shadows a global; assignment to it stays local
		prog(nVar("g", I(3)), fdecl("f", P("g"), nAssign("g", "=", nInfix("+", id("g"), I(1))), X(id("g"))),
			X(nInfix("+", nInfix("*", nCall(id("f"), I(10)), I(10)), id("g")))),
		// calls as statements in a loop, defaults
		prog(nVar("t", I(0)), fdecl("bump", pd(P(), "d", I(2)), nAssign("t", "+=", id("d"))),
			n("for3", nVar("i", I(0)), nInfix("<", id("i"), I(4)), ns("postfix", "i ++"), nBlock(X(nCall(id("bump"))), X(nCall(id("bump"), id("i"))))),
			X(id("t"))),
		// function values: identity, truthiness, operators
		prog(fdecl("f", P("a"), X(id("a"))), X(nInfix("&&", nInfix("&&", nInfix("==", id("f"), id("f")), ns("prefix", "!", nInfix("==", id("f"), I(1)))), nInfix("!=", id("f"), n("nil"))))),
		prog(fdecl("f", P("a"), X(id("a"))), X(nInfix("+", id("f"), I(1)))),
		prog(fdecl("f", P("a"), X(id("a"))), X(ns("prefix", "-", id("f")))),
		prog(fdecl("f", P("a"), X(id("a"))), X(nInfix("<", id("f"), id("f")))),
		prog(fdecl("f", P("a"), X(id("a"))), fdecl("g", P("a"), X(id("a"))), X(nInfix("==", id("f"), id("g")))),
		// all default kinds
		prog(fdecl("f", pd(pd(pd(P(), "s", nStr("x")), "b", nBool(true)), "k", I(7)),
			X(n("if", id("b"), nBlock(X(nInfix("+", id("s"), nStr("y")))), nBlock(X(id("s")))))),
			X(nInfix("+", nInfix("+", nInfix("+", nCall(id("f")), nCall(id("f"), nStr("a"))), nCall(id("f"), nStr("b"), nBool(false))), nCall(id("f"), nStr("c"), nBool(true), I(1))))),
		// break / continue / return inside a loop of a function
		prog(fdecl("h", P("k"), nVar("x", I(0)),
			n("forever", nBlock(ns("postfix", "x ++"),
				X(iff(nInfix(">", id("x"), id("k")), n("break"))),
				X(iff(nInfix("==", nInfix("%", id("x"), I(2)), I(0)), n("continue"))),
				X(iff(nInfix("==", id("x"), I(7)), ret(ns("prefix", "-", I(1))))))),
			X(id("x"))),
			X(nInfix("+", nInfix("*", nCall(id("h"), I(3)), I(100)), nCall(id("h"), I(9))))),
		// a declaration as the last statement of the program: PopTop; Nil
		prog(fdecl("a1", P(), X(I(1))), fdecl("a2", P(), X(I(2)))),
		// function values travel: aliases, arguments, results
		prog(flit("f", P("a"), X(nInfix("*", id("a"), I(2)))), nVar("g", id("f")), X(nInfix("+", nCall(id("g"), I(4)), nCall(id("f"), I(1))))),
		prog(fdecl("apply", P("fn", "x"), X(nCall(id("fn"), id("x")))), fdecl("inc", P("x"), X(nInfix("+", id("x"), I(1)))), X(nCall(id("apply"), id("inc"), I(4)))),
		prog(fdecl("mk", P(), ret(id("mk"))), X(nInfix("==", nCall(nCall(id("mk"))), id("mk")))),
	}
}

// c01funOutside: programs that must be OUTSIDE the fragment (the boundary of inFun): a named function
// reached before its declaration has run (its global holds a Go nil: the real VM ends with a recovered
// panic), a function literal inside a function (closure candidate), nil as a default value (ignored
// by the VM: the parameter stays required), return at the top level, assignment to a named function.
func c01funOutside() []*N {
	P := func(names ...string) *N {
		ps := n("params")
		for _, nm := range names {
			ps.C = append(ps.C, ns("param", nm))
		}
		return ps
	}
	fdecl := func(name string, ps *N, body ...*N) *N { return n("expr", ns("func", name, ps, nBlock(body...))) }
	X := func(e *N) *N { return n("expr", e) }
	id, I := nId, nInt
	prog := func(ss ...*N) *N { return n("prog", ss...) }
	return []*N{
		prog(fdecl("f", P("k"), X(nCall(id("g"), id("k")))), X(nCall(id("f"), I(1))), fdecl("g", P("k"), X(id("k")))),
		prog(fdecl("outer", P(), nVar("g", ns("func", "", P(), nBlock(X(I(1))))), X(nCall(id("g"))))),
		prog(fdecl("f", n("params", ns("param", "a", n("nil"))), X(id("a"))), X(nCall(id("f")))),
		prog(n("return", I(1))),
		prog(fdecl("f", P(), X(I(1))), nAssign("f", "=", I(2))),
		prog(fdecl("f", P("a"), X(id("b"))), X(nCall(id("f"), I(1)))),
	}
}

// c01FunCheck is called once per program of the shared generator (from c01.go's flush).
func c01FunCheck(e *Env, p *N, src string) {
	if !c01funRuleDone {
		c01funRuleDone = true
		c01funRng = e.Rng.Fork().Fork().Fork()
		e.R.Rule += "; proved function fragment: every shared-generator program that lies in the fragment, directed programs, " +
			"plus fragment-only programs from a generator with >= 1 function (named declarations and literals bound by :=, 0-4 typed " +
			"parameters, trailing defaults, parameters shadowing globals, recursion with a decreasing first argument through the self slot, " +
			"mutual recursion through pre-declared names, early / bare / guarded returns, dead code after a return, bodies with loops and switch, " +
			"calls in every expression position and as statements, injected arity and type errors), each checked on links A (every code object), B, C and against the real pipeline"
		for _, q := range c01funDirected() {
			src := c01funSrc(q)
			if c01funOne(e, q, src, "directed") {
				e.R.Case("fun:"+Sexp(q), true)
			} else {
				e.R.Mismatch(src, "-", "out", "function fragment: a directed program is outside the fragment")
			}
		}
		for _, q := range c01funOutside() {
			if rep := e.O.Ask("C01", "fun", "run", Sexp(q), c01Globals); rep != "out" {
				e.R.Mismatch(c01funSrc(q), "-", rep, "function fragment: a program that must be outside the fragment is reported inside")
			}
		}
	}
	// 1. the shared generator's program
	if kinds := Kinds(p); kinds["func"] > 0 {
		if c01funOne(e, p, src, "shared:whole") {
			// counted by c01.go
		} else {
			e.R.H("fun_programs", "shared:outside")
		}
	}
	// 2. fragment-only programs
	q := c01funProgram(c01funRng.Fork())
	qsrc := c01funSrc(q)
	if c01funOne(e, q, qsrc, "own") {
		e.R.Case("fun:"+Sexp(q), len(Kinds(q)) >= 7)
	} else {
		e.R.H("fun_programs", "own:outside")
		e.R.Note("the function-fragment generator produced a program outside the fragment: %s", qsrc)
	}
}
