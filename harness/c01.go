package main

// C01 — execution matches source-level meaning.  Generated programs (harness/gen.go) are
// rendered to text and pushed through the REAL lexer, parser, compiler and VM; the result
// value, error class and printed output are compared with the Lean reference semantics
// (RisorModel/C01/Sem.lean) evaluated on the generator's tree — not on the parser's output,
// so that a parser defect cannot cancel out.

import (
	"fmt"
	"sort"
	"strings"
	"time"

	"github.com/risor-io/risor"
	"github.com/risor-io/risor/compiler"
	"github.com/risor-io/risor/object"
)

func init() { commands["C01"] = runC01 }

// ValText is the canonical text of a risor value (same format as Lean's showVal).
func ValText(o object.Object, depth int) string {
	if depth > 20 {
		return "(deep)"
	}
	switch v := o.(type) {
	case *object.NilType:
		return "(nil)"
	case *object.Bool:
		if v.Value() {
			return "(bool 1)"
		}
		return "(bool 0)"
	case *object.Int:
		return fmt.Sprintf("(int %d)", v.Value())
	case *object.String:
		return "(str " + Hex(v.Value()) + ")"
	case *object.List:
		var sb strings.Builder
		sb.WriteString("(list")
		for _, it := range v.Value() {
			sb.WriteString(" " + ValText(it, depth+1))
		}
		sb.WriteString(")")
		return sb.String()
	case *object.Set:
		var sb strings.Builder
		sb.WriteString("(set")
		for _, it := range v.SortedItems() {
			sb.WriteString(" " + ValText(it, depth+1))
		}
		sb.WriteString(")")
		return sb.String()
	case *object.Map:
		var sb strings.Builder
		sb.WriteString("(map")
		for _, k := range v.SortedKeys() {
			sb.WriteString(" (str " + Hex(k) + ") " + ValText(v.Get(k), depth+1))
		}
		sb.WriteString(")")
		return sb.String()
	case *object.Function:
		return "(fn)"
	case *object.Error: // an error VALUE: its class (the models do not know the messages the runtime makes)
		if v.Value().Error() == "" {
			return "(error error)"
		}
		return "(error " + ErrClass(v.Value().Error()) + ")"
	}
	if o == nil {
		return "(go-nil)"
	}
	return "(other " + string(o.Type()) + ")"
}

func goOutcome(out EvalOut) string {
	if out.Err != "" {
		return "err\t" + ErrClass(out.Err) + "\t" + Hex(out.Stdout)
	}
	return "ok\t" + ValText(out.Obj, 0) + "\t" + Hex(out.Stdout)
}

// CodeExport renders all code objects of a compiled program in the format of the oracle's
// `compile` reply: id, instructions, constants, names; sorted by id.
func CodeExport(code *compiler.Code) string {
	var parts []string
	for _, cc := range code.Flatten() {
		var consts []string
		for i := 0; i < cc.ConstantsCount(); i++ {
			switch k := cc.Constant(i).(type) {
			case int64:
				consts = append(consts, fmt.Sprintf("i%d", k))
			case string:
				consts = append(consts, "s"+Hex(k))
			case *compiler.Function:
				consts = append(consts, "f"+k.Code().ID())
			case float64:
				consts = append(consts, fmt.Sprintf("d%v", k))
			default:
				consts = append(consts, fmt.Sprintf("?%T", k))
			}
		}
		var names []string
		for i := 0; i < cc.NameCount(); i++ {
			names = append(names, cc.Name(i))
		}
		parts = append(parts, "id="+cc.ID()+";ins="+CodeText(cc)+";consts="+strings.Join(consts, ",")+";names="+strings.Join(names, ","))
	}
	sort.Strings(parts)
	return strings.Join(parts, "|")
}

var c01Globals = func() string {
	return strings.Join(risor.NewConfig().GlobalNames(), ",")
}()

func c01Nontrivial(p *N) bool {
	k := Kinds(p)
	forms := 0
	for _, s := range []string{"var", "assign", "if", "switch", "for3", "forcond", "forever", "forrange", "forin", "func", "setitem", "multi", "postfix", "const", "return", "break", "continue"} {
		if k[s] > 0 {
			forms++
		}
	}
	return forms >= 3
}

// c01Opts draws the generator options of one program (the order of the draws is part of the seed's meaning).
func c01Opts(r *RNG, quick bool) GenOpts {
	return GenOpts{MaxStmts: 3 + r.Intn(3), MaxDepth: 2 + r.Intn(3), Budget: 40 + r.Intn(260), Funcs: r.Chance(70), Closures: true,
		Containers: r.Chance(70), Strings: r.Chance(60), CtlHeavy: r.Chance(30), NoCtlInSwitch: false, Shadow: true,
		TryDefer: r.Chance(45), Pipes: r.Chance(40), Sets: r.Chance(40)}
}

var c01TraceShrunk, c01CompareShrunk, c01CodeShrunk int

func runC01(e *Env) {
	e.R.Rule = "programs from the structured generator over the core grammar (statement forms x expression forms, size budget 40-300 nodes " +
		"quick / up to 600 thorough; per program, with probability 40-45 % each: error()/try() with handler chains and defer inside functions, " +
		"pipes, set / one-entry map literals with index, assignment and in, string index and slice), rendered to text and evaluated by the real " +
		"pipeline, plus directed programs (evaluation order, LIFO order of deferred calls, errors in and around deferred calls, what try catches); " +
		"oracle = Lean reference semantics on the " +
		"generator's tree; distinct by canonical S-expression; non-trivial when >= 3 statement forms occur"
	nProg := 3000
	if !e.Quick {
		nProg = 120000
	}
	rng := e.Rng.Fork()
	type item struct {
		p   *N
		src string
		go_ string
		tr  goTrace
	}
	batch := make([]item, 0, 256)
	flush := func() {
		reqs := make([]string, len(batch))
		creqs := make([]string, len(batch))
		for i, it := range batch {
			reqs[i] = "C01\teval\t" + Sexp(it.p)
			creqs[i] = "C01\tcompile\t" + Sexp(it.p) + "\t" + c01Globals
		}
		vreqs := make([]string, len(batch))
		for i, it := range batch {
			vreqs[i] = "C01\tvmtrace\t" + Sexp(it.p) + "\t" + c01Globals
		}
		reps := e.O.AskBatch(reqs)
		creps := e.O.AskBatch(creqs)
		vreps := e.O.AskBatch(vreqs)
		for i, it := range batch {
			c01Compare(e, it.p, it.src, it.go_, reps[i])
			c01CompareCode(e, it.p, it.src, creps[i])
			c01ParseCheck(e, it.p, it.src)
			c01FragCheck(e, it.p, it.src)
			c01FunCheck(e, it.p, it.src)
			c01CloCheck(e, it.p, it.src)
			c01SeqCheck(e, it.p, it.src)
			c01StrCheck(e, it.p, it.src)
			// the Lean VM model on the Lean-compiled bytecode against the real run: outcome, and the
			// dispatch trace instruction for instruction (c01trace.go)
			if _, d := c01TraceCompare(it.go_, it.tr, vreps[i]); d != "" && d != "skip" && d != "outcome" && c01TraceShrunk < 3 {
				c01TraceShrunk++ // shrinking re-runs both machines per candidate: only the first three differences of a run
				// shrink to a small program that still takes different steps (replay quality)
				small := Shrink(it.p, func(q *N) bool { return c01TraceDiffers(e, q) })
				ssrc := Src(small)
				sout, str := EvalSrcTraced(ssrc, 5*time.Second)
				c01TraceCheck(e, ssrc, goOutcome(sout), str, e.O.Ask("C01", "vmtrace", Sexp(small), c01Globals))
			}
			vreps[i] = c01TraceCheck(e, it.src, it.go_, it.tr, vreps[i])
			vf := strings.Split(vreps[i], "\t")
			switch {
			case vf[0] == "unsupported" || vf[0] == "oof":
				e.R.H("vm_model", vf[0])
			case vreps[i] == it.go_:
				e.R.H("vm_model", "agrees")
			default:
				e.R.H("vm_model", "differs")
				e.R.Mismatch(it.src, strings.ReplaceAll(it.go_, "\t", " "), strings.ReplaceAll(vreps[i], "\t", " "), "vm.Run vs C01.runCodes (Lean VM model on the modelled bytecode)")
			}
		}
		batch = batch[:0]
	}
	for i := 0; i < nProg; i++ {
		r := rng.Fork()
		budget := 40 + r.Intn(260)
		if !e.Quick && r.Chance(20) {
			budget = 300 + r.Intn(300)
		}
		o := c01Opts(r, e.Quick)
		o.Budget = budget
		p := GenProgram(r, o)
		src := Src(p)
		out, tr := EvalSrcTraced(src, 5*time.Second)
		batch = append(batch, item{p, src, goOutcome(out), tr})
		if len(batch) == cap(batch) {
			flush()
		}
	}
	flush()
	c01Directed(e)
	c01Edge(e)
}

// evalOrderGuard names the known evaluation-order deviations: both operands of `in`/`not in`
// have side effects (calls); both slice bounds do; the index of a compound item assignment does.
func evalOrderGuard(p *N) string {
	hasCall := func(x *N) bool {
		found := false
		Walk(x, func(y *N, _ []*N) {
			if y.K == "call" || y.K == "mcall" {
				found = true
			}
		}, nil)
		return found
	}
	g := ""
	Walk(p, func(x *N, _ []*N) {
		switch {
		case (x.K == "in" || x.K == "notin") && hasCall(x.C[0]) && hasCall(x.C[1]):
			g = "C01-in-evaluates-right-first"
		case x.K == "slice" && hasCall(x.C[1]) && hasCall(x.C[2]):
			g = "C01-slice-evaluates-stop-first"
		case x.K == "setitem" && x.S != "=" && hasCall(x.C[1]):
			g = "C01-compound-index-evaluated-twice"
		case x.K == "param" && len(x.C) == 1 && x.C[0].K == "nil":
			g = "C01-nil-default-ignored"
		case x.K == "for3" || x.K == "forcond" || x.K == "forever" || x.K == "forrange" || x.K == "forin":
			// a function literal in the loop body that uses a variable declared in that body (and may outlive the iteration)
			body := x.C[len(x.C)-1]
			declared := map[string]bool{}
			for _, st := range body.C {
				if st.K == "var" {
					declared[st.S] = true
				}
			}
			Walk(body, func(y *N, path []*N) {
				if y.K != "id" || !declared[y.S] {
					return
				}
				for _, anc := range path {
					if anc.K == "func" {
						g = "C01-loop-body-variable-shared"
					}
				}
			}, nil)
		case x.K == "pipe":
			// a call nested inside the arguments of a piped call (not inside a function literal: that is another code object)
			for _, st := range x.C[1:] {
				if st.K != "call" {
					continue
				}
				for _, a := range st.C[1:] {
					nested := false
					var rec func(y *N)
					rec = func(y *N) {
						if y.K == "func" {
							return
						}
						if y.K == "call" || y.K == "mcall" {
							nested = true
						}
						for _, c := range y.C {
							rec(c)
						}
					}
					rec(a)
					if nested {
						g = "C01-pipe-nested-call-not-called"
					}
				}
			}
		}
	}, nil)
	return g
}

// c01Directed: operands with observable side effects (a logging function) in every operand
// position: the printed order is the evaluation order.
func c01DirectedPrograms() []*N {
	lg := n("expr", ns("func", "lg", n("params", ns("param", "v")), nBlock(n("expr", nCall(nId("print"), nId("v"))), n("return", nId("v")))))
	call := func(k int64) *N { return nCall(nId("lg"), nInt(k)) }
	lst := nVar("l", n("list", nInt(1), nInt(2), nInt(3), nInt(4)))
	mk := func(stmts ...*N) *N { return n("prog", append([]*N{lg, lst}, stmts...)...) }
	progs := []*N{
		mk(n("expr", nInfix("+", call(1), nInfix("*", call(2), call(3))))),
		mk(n("expr", nInfix("-", nInfix("-", call(1), call(2)), call(3)))),
		mk(n("expr", nInfix("&&", call(0), call(2)))),
		mk(n("expr", nInfix("||", call(1), call(2)))),
		mk(n("expr", n("tern", nInfix("<", call(1), call(2)), call(3), call(4)))),
		mk(n("expr", n("list", call(3), call(1), call(2)))),
		mk(n("expr", nCall(nId("lg"), nInfix("+", call(1), call(2))))),
		mk(n("expr", n("index", n("list", call(5), call(6)), nInfix("-", call(1), call(1))))),
		mk(n("expr", nInfix("==", call(1), call(2)))),
		mk(ns("setitem", "=", nId("l"), call(0), call(9)), n("expr", nId("l"))),
		mk(nVar("a", call(1)), nAssign("a", "+=", call(2)), n("expr", nId("a"))),
		mk(n("expr", n("if", nInfix(">", call(2), call(1)), nBlock(n("expr", call(3))), nBlock(n("expr", call(4)))))),
		mk(n("expr", n("switch", call(2), n("case", call(1), nBlock(n("expr", call(7)))), n("case", call(2), call(3), nBlock(n("expr", call(8)))), n("default", nBlock(n("expr", call(9))))))),
		// the three known deviations
		mk(n("expr", n("in", call(1), n("list", call(2), call(1))))),
		mk(n("expr", n("notin", call(1), n("list", call(2))))),
		mk(n("expr", n("slice", nId("l"), call(1), call(3)))),
		mk(ns("setitem", "+=", nId("l"), call(1), call(5)), n("expr", nId("l"))),
	}
	progs = append(progs, c01DirectedStatements(lg, call)...)
	return append(progs, c01DirectedErrors()...)
}

// c01DirectedStatements: statement forms whose meaning hangs on one compiler or VM detail that a
// generated program only rarely isolates — the value count of a multi-assignment, the post
// clause of a three-part loop as an expression (popped every time round, many iterations),
// storage of a slice being separate from the list it was taken from, and a variable of a closed
// block keeping its own storage when later locals of the same function are declared.
func c01DirectedStatements(lg *N, call func(int64) *N) []*N {
	mk := func(stmts ...*N) *N { return n("prog", append([]*N{lg}, stmts...)...) }
	forPost := func(k int64, post *N) *N {
		return n("for3", nVar("i", nInt(0)), nInfix("<", nId("i"), nInt(k)), n("expr", post),
			nBlock(nAssign("i", "+=", nInt(1)), nAssign("t", "+=", nId("i"))))
	}
	inFunc := func(body ...*N) []*N {
		return []*N{n("expr", ns("func", "h", n("params"), nBlock(body...))), n("expr", nCall(nId("h")))}
	}
	thunk := func(body ...*N) *N { return ns("func", "", n("params"), nBlock(body...)) }
	progs := []*N{
		// multi-assignment: exactly as many values as names
		mk(ns("multi", "a,b", n("list", call(1), call(2))), n("expr", n("list", nId("a"), nId("b")))),
		mk(ns("multi", "a,b", n("list", call(1), call(2), call(3))), n("expr", nCall(nId("print"), nStr("unreachable")))),
		mk(ns("multi", "a,b", n("list", call(1))), n("expr", nCall(nId("print"), nStr("unreachable")))),
		mk(ns("multi", "a,b,c", n("list", nInt(1), nInt(2), nInt(3), nInt(4), nInt(5))), n("expr", nCall(nId("print"), nStr("unreachable")))),
		mk(nVar("l", n("list", nInt(1), nInt(2), nInt(3))), n("for3", nVar("i", nInt(0)), nInfix("<", nId("i"), nInt(3)), ns("postfix", "i ++"),
			nBlock(ns("multi", "p,q", n("slice", nId("l"), nInt(0), nInfix("+", nId("i"), nInt(1)))), n("expr", nCall(nId("print"), nId("p"), nId("q")))))),
		// slices are copies
		mk(nVar("l", n("list", nInt(1), nInt(2), nInt(3), nInt(4))), nVar("s", n("slice", nId("l"), nInt(0), nInt(2))),
			ns("setitem", "=", nId("s"), nInt(0), nInt(99)), n("expr", n("list", nId("l"), nId("s")))),
		mk(nVar("l", n("list", nInt(1), nInt(2), nInt(3), nInt(4))), nVar("s", n("slice", nId("l"), n("none"), n("none"))),
			ns("setitem", "=", nId("l"), nInt(1), nInt(77)), n("expr", n("list", nId("l"), nId("s")))),
		mk(nVar("l", n("list", nInt(1), nInt(2), nInt(3), nInt(4))), nVar("s", n("slice", nId("l"), nInt(1), nInt(2))),
			n("expr", ns("mcall", "append", nId("s"), nInt(55))), n("expr", n("list", nId("l"), nId("s")))),
	}
	// an expression as post clause, at top level and inside a function, for more iterations
	// than the operand stack has slots
	for _, k := range []int64{3, 1500} {
		for _, post := range []*N{nId("i"), nInfix("*", nId("i"), nInt(2)), n("index", n("list", nInt(7), nInt(8)), nInt(0)), n("tern", nInfix(">", nId("i"), nInt(1)), nInt(1), nInt(2))} {
			progs = append(progs, mk(nVar("t", nInt(0)), forPost(k, post), n("expr", nId("t"))))
			progs = append(progs, mk(inFunc(nVar("t", nInt(0)), forPost(k, post), n("return", nId("t")))...))
		}
	}
	// … and nested in a range loop, whose iterator sits under whatever the post clause leaves
	progs = append(progs, mk(nVar("t", nInt(0)), ns("forrange", "k,v", n("list", nInt(10), nInt(20)), nBlock(forPost(3, nId("i")), nAssign("t", "+=", nId("v")))), n("expr", nId("t"))))
	// a variable declared in a block of a function and captured there keeps its own storage
	// after the block is closed and further locals are declared
	progs = append(progs,
		mk(inFunc(nVar("get", nInt(0)), n("expr", n("if", nBool(true), nBlock(nVar("y", nInt(42)), nAssign("get", "=", thunk(n("return", nId("y"))))))),
			nVar("z", nStr("later")), nVar("w", nStr("later2")), n("return", n("list", nCall(nId("get")), nId("z"), nId("w"))))...),
		mk(inFunc(nVar("fs", n("list")), n("for3", nVar("i", nInt(0)), nInfix("<", nId("i"), nInt(2)), ns("postfix", "i ++"),
			nBlock(n("expr", ns("mcall", "append", nId("fs"), thunk(n("return", nInfix("*", nId("i"), nInt(1)))))))),
			nVar("after", nInt(1000)), nVar("after2", nInt(2000)),
			n("return", n("list", nCall(n("index", nId("fs"), nInt(0))), nId("after"), nId("after2"))))...),
	)
	return progs
}

func c01Directed(e *Env) {
	for _, p := range c01DirectedPrograms() {
		src := Src(p)
		out, tr := EvalSrcTraced(src, 5*time.Second)
		goOut := goOutcome(out)
		model := e.O.Ask("C01", "eval", Sexp(p))
		vm := c01TraceCheck(e, src, goOut, tr, e.O.Ask("C01", "vmtrace", Sexp(p), c01Globals))
		e.R.Case(Sexp(p), true)
		e.R.H("directed_eval_order", "cases")
		if vm != goOut {
			e.R.Mismatch(src, strings.ReplaceAll(goOut, "\t", " "), strings.ReplaceAll(vm, "\t", " "), "vm.Run vs C01.runCodes on a directed evaluation-order program")
		}
		if strings.HasPrefix(goOut, "err\tcompile\t") && strings.HasPrefix(model, "err\tcompile\t") {
			continue // rejected statically by the real compiler, at first use by the reference semantics: same class
		}
		if strings.HasPrefix(model, "unsupported") {
			e.R.H("directed_eval_order", "outside the reference semantics ("+strings.SplitN(model, "\t", 3)[1]+"): VM model and dispatch trace only")
			continue
		}
		if model != goOut {
			finding := ""
			if vm == goOut {
				finding = evalOrderGuard(p)
			}
			e.R.Spec(src, fmt.Sprintf("real pipeline: %s | source-level meaning (left-to-right, Lean Sem): %s", strings.ReplaceAll(goOut, "\t", " "), strings.ReplaceAll(model, "\t", " ")), finding)
		}
	}
}

func c01Compare(e *Env, p *N, src, goOut, model string) {
	e.R.Case(Sexp(p), c01Nontrivial(p))
	for k := range Kinds(p) {
		e.R.H("constructs", k)
	}
	calls := map[string]bool{}
	Walk(p, func(y *N, _ []*N) {
		if y.K == "call" && y.C[0].K == "id" && (y.C[0].S == "try" || y.C[0].S == "error") {
			calls["call:"+y.C[0].S] = true
		}
	}, nil)
	for k := range calls {
		e.R.H("constructs", k)
	}
	gf := strings.Split(goOut, "\t")
	if len(gf) > 2 && gf[2] != "-" {
		so := UnHex(gf[2])
		for _, w := range []string{"caught ", "handler ", "deferred "} {
			if strings.Contains(so, w) {
				e.R.H("printed_by", strings.TrimSpace(w))
			}
		}
	}
	mf := strings.Split(model, "\t")
	e.R.H("go_outcome", gf[0]+":"+map[bool]string{true: gf[1], false: "value"}[gf[0] == "err"])
	if len(mf) < 3 {
		e.R.Mismatch(src, goOut, model, "oracle reply malformed")
		return
	}
	switch mf[0] {
	case "unsupported", "oof":
		e.R.H("model_outcome", mf[0]+":"+mf[1])
		if mf[0] == "oof" || gf[1] == "context" {
			e.R.Note("model %s / real %s on: %s", mf[0], gf[0]+" "+gf[1], src)
		}
		return
	}
	e.R.H("model_outcome", mf[0])
	if goOut == model {
		return
	}
	if gf[0] == "err" && gf[1] == "compile" && mf[0] == "err" && mf[1] == "compile" {
		return // rejected statically by the real compiler, at first use by the reference semantics: same class
	}
	// the Lean semantics is the Spec: a difference is a violation of the property unless the
	// program falls under a known finding's guard
	if gf[0] == "err" && gf[1] == "context" {
		e.R.Note("real run timed out (skipped): %s", src)
		return
	}
	cls := func(o string) string {
		f := strings.Split(o, "\t")
		if f[0] == "err" && len(f) > 1 {
			return "err:" + f[1]
		}
		return f[0]
	}
	wantG, wantM := cls(goOut), cls(model)
	// Shrinking re-evaluates every candidate on both sides.  Against a change that breaks a common
	// construct hundreds of programs disagree: the first four are shrunk (each within 25 s), the rest
	// are reported as generated, so that the check stays within minutes.
	c01CompareShrunk++
	deadline := time.Now().Add(25 * time.Second)
	small := Shrink(p, func(q *N) bool {
		if c01CompareShrunk > 4 || time.Now().After(deadline) {
			return false
		}
		g := goOutcome(EvalSrc(Src(q), 2*time.Second))
		if cls(g) != wantG {
			return false
		}
		m := e.O.Ask("C01", "eval", Sexp(q))
		return g != m && cls(m) == wantM
	})
	g := goOutcome(EvalSrc(Src(small), 20*time.Second))
	m := e.O.Ask("C01", "eval", Sexp(small))
	finding := ""
	if CtlUnderOperands(small) {
		finding = "C04-ctl-under-operands"
	}
	e.R.Spec(Src(small), fmt.Sprintf("real pipeline: %s | source-level meaning (Lean Sem): %s", strings.ReplaceAll(g, "\t", " "), strings.ReplaceAll(m, "\t", " ")), finding)
}

// c01CompareCode: bytecode of the real compiler vs the Lean compiler model, instruction for
// instruction, constants and names included.
func c01CompareCode(e *Env, p *N, src, model string) {
	code, err := CompileSrc(src)
	goText := ""
	if err != nil {
		goText = "fail"
	} else {
		goText = "ok\t" + CodeExport(code)
	}
	if strings.HasPrefix(model, "fail") {
		model = "fail"
	}
	if goText == model {
		e.R.H("bytecode", "identical")
		return
	}
	e.R.H("bytecode", "differs")
	c01CodeShrunk++
	small := Shrink(p, func(q *N) bool {
		if c01CodeShrunk > 4 {
			return false // the first four differences of a run are shrunk, the rest reported as generated
		}
		c, err := CompileSrc(Src(q))
		g := "fail"
		if err == nil {
			g = "ok\t" + CodeExport(c)
		}
		m := e.O.Ask("C01", "compile", Sexp(q), c01Globals)
		if strings.HasPrefix(m, "fail") {
			m = "fail"
		}
		return g != m
	})
	c, err := CompileSrc(Src(small))
	g := "fail"
	if err == nil {
		g = CodeExport(c)
	} else {
		g = "fail: " + err.Error()
	}
	m := e.O.Ask("C01", "compile", Sexp(small), c01Globals)
	e.R.Mismatch(Src(small), g, strings.TrimPrefix(m, "ok\t"), "compiler.Compile vs C01.compileProg (bytecode, constants, names)")
}

// ---- directed programs for error(), try(), defer and pipes

func nFunc(name string, params []string, body ...*N) *N {
	ps := n("params")
	for _, p := range params {
		ps.C = append(ps.C, ns("param", p))
	}
	return ns("func", name, ps, nBlock(body...))
}
func nDefer(call *N) *N    { return n("defer", call) }
func nPipe(xs ...*N) *N    { return n("pipe", xs...) }
func nExpr(x *N) *N        { return n("expr", x) }
func nRet(x *N) *N         { return n("return", x) }
func nPrint(xs ...*N) *N   { return nExpr(nCall(nId("print"), xs...)) }
func nRaise(msg string) *N { return nExpr(nCall(nId("error"), nStr(msg))) }
func nTry(xs ...*N) *N     { return nCall(nId("try"), xs...) }
func nThunk(body ...*N) *N { return nFunc("", nil, body...) }

// c01DirectedErrors: evaluation order of defer, LIFO order, errors in and around deferred calls,
// what try catches and what it does not, what the handler receives, pipes.
func c01DirectedErrors() []*N {
	lg := nExpr(nFunc("lg", []string{"v"}, nPrint(nId("v")), nRet(nId("v"))))
	call := func(k int64) *N { return nCall(nId("lg"), nInt(k)) }
	zero := nVar("z", nInt(0))
	divz := nExpr(nInfix("/", nInt(1), nId("z"))) // a Go panic (integer divide by zero), recovered by vm.Run only
	mk := func(stmts ...*N) *N { return n("prog", append([]*N{lg, zero}, stmts...)...) }
	return []*N{
		// defer: LIFO, after the return value is computed
		mk(nExpr(nFunc("h", nil, nDefer(nCall(nId("print"), nStr("d1"))), nDefer(nCall(nId("print"), nStr("d2"))), nPrint(nStr("body")), nRet(call(7)))), nExpr(nCall(nId("h")))),
		// callee and arguments are evaluated at the defer statement
		mk(nExpr(nFunc("h", nil, nVar("x", nInt(1)), nDefer(nCall(nId("print"), nStr("x"), nId("x"), call(2))), nAssign("x", "=", nInt(5)), nDefer(nCall(nId("lg"), nInfix("+", nId("x"), call(3)))), nPrint(nStr("body"), nId("x")), nRet(nId("x")))),
			nExpr(nCall(nId("h")))),
		// a deferred closure runs after the return value is computed: it cannot change it
		mk(nExpr(nFunc("h", nil, nVar("x", nInt(1)), nDefer(nCall(nThunk(nAssign("x", "=", nInt(5)), nPrint(nStr("d"), nId("x"))))), nRet(nId("x")))), nExpr(nCall(nId("h")))),
		// defer inside a loop inside a function
		mk(nExpr(nFunc("h", nil, n("for3", nVar("i", nInt(0)), nInfix("<", nId("i"), nInt(3)), ns("postfix", "i ++"), nBlock(nDefer(nCall(nId("print"), nId("i"))))), nRet(nInt(1)))), nExpr(nCall(nId("h")))),
		// recursion: each activation has its own deferred calls
		mk(nExpr(nFunc("r", []string{"k"}, nDefer(nCall(nId("print"), nStr("out"), nId("k"))), nExpr(n("if", nInfix(">", nId("k"), nInt(0)), nBlock(nExpr(nCall(nId("r"), nInfix("-", nId("k"), nInt(1))))))), nRet(nId("k")))), nExpr(nCall(nId("r"), nInt(2)))),
		// deferred calls run when the function exits with an error; try catches it
		mk(nExpr(nFunc("h", nil, nDefer(nCall(nId("print"), nStr("deferred"))), nRaise("boom"), nPrint(nStr("unreachable")))),
			nVar("r", nTry(nId("h"), nFunc("", []string{"e"}, nPrint(nStr("handler"), nId("e")), nRet(nInt(7))))), nExpr(nId("r"))),
		// … and when nothing catches it
		mk(nExpr(nFunc("h", nil, nDefer(nCall(nId("print"), nStr("deferred"))), nRaise("boom"))), nExpr(nCall(nId("h"))), nPrint(nStr("unreachable"))),
		// an error in a deferred call replaces the function's outcome; the other deferred calls still run
		mk(nExpr(nFunc("h", nil, nDefer(nCall(nThunk(nPrint(nStr("d1"))))), nDefer(nCall(nThunk(nRaise("in defer")))), nDefer(nCall(nThunk(nPrint(nStr("d3"))))), nRet(nInt(1)))),
			nVar("r", nTry(nId("h"), nFunc("", []string{"e"}, nPrint(nStr("handler"), nId("e")), nRet(nInt(7))))), nExpr(nId("r"))),
		// error in the body, then an error in a deferred call: the later one wins
		mk(nExpr(nTry(nThunk(nDefer(nCall(nThunk(nRaise("from defer")))), nRaise("from body")), nFunc("", []string{"e"}, nPrint(nId("e")), nRet(nInt(3)))))),
		// two failing deferred calls: the one that runs last wins
		mk(nExpr(nTry(nThunk(nDefer(nCall(nId("error"), nStr("first registered"))), nDefer(nCall(nId("error"), nStr("second registered"))), nRet(nInt(1))), nFunc("", []string{"e"}, nPrint(nId("e")), nRet(nInt(3)))))),
		// try does not catch a Go panic; deferred calls on the way out still run
		mk(nExpr(nFunc("h", nil, nDefer(nCall(nId("print"), nStr("deferred in h"))), divz, nRet(nInt(1)))),
			nVar("r", nTry(nThunk(nExpr(nCall(nId("h")))), nFunc("", []string{"e"}, nPrint(nStr("handler")), nRet(nInt(5))))), nPrint(nStr("after"), nId("r"))),
		// a panic inside a deferred call abandons the remaining deferred calls of that function
		mk(nExpr(nFunc("h", nil, nDefer(nCall(nId("print"), nStr("a"))), nDefer(nCall(nThunk(divz))), nDefer(nCall(nId("print"), nStr("c"))), nRet(nInt(1)))), nExpr(nCall(nId("h")))),
		// an error raised in a deferred call while a panic is under way does not replace the panic
		mk(nExpr(nFunc("h", nil, nDefer(nCall(nId("print"), nStr("a"))), nDefer(nCall(nId("error"), nStr("late"))), divz)), nExpr(nTry(nId("h"), nInt(4)))),
		// try lets fatal errors through: args errors of builtins and of function calls
		mk(nExpr(nTry(nThunk(nExpr(nCall(nId("len"), nInt(1), nInt(2)))), nInt(5)))),
		mk(nExpr(nTry(nFunc("", []string{"a", "b"}, nRet(nInt(1))), nInt(5)))),
		mk(nExpr(nTry())),
		mk(nExpr(nCall(nId("error")))),
		// … and catches type errors, index errors, script errors
		mk(nExpr(n("list", nTry(nThunk(nExpr(nInfix("+", nInt(1), nStr("a")))), nInt(3)), nTry(nThunk(nExpr(n("index", n("list", nInt(1)), nInt(4)))), nInt(4)), nTry(nThunk(nRaise("x")), nInt(5))))),
		// the handler receives the error only if it declares a parameter
		mk(nExpr(n("list", nTry(nThunk(nRaise("a")), nThunk(nRet(nInt(99)))), nTry(nThunk(nRaise("a")), nFunc("", []string{"e"}, nPrint(nStr("got"), nId("e")), nRet(nInt(1))))))),
		// arguments that are not functions are returned as values; nil when nothing is left
		mk(nExpr(n("list", nTry(nInt(1), nInt(2)), nTry(nThunk(nRaise("a")), nInt(2)), nTry(nThunk(nRaise("a"))), nTry(nThunk(nRet(call(6))), call(7))))),
		// a chain of handlers: the error of a failing handler goes to the next one
		mk(nVar("r", nTry(nThunk(nRaise("a")), nFunc("", []string{"e"}, nPrint(nStr("h1"), nId("e")), nRaise("b")), nFunc("", []string{"e"}, nPrint(nStr("h2"), nId("e")), nRet(nId("e"))))),
			nExpr(n("list", nInfix("==", nId("r"), nId("r")), nId("r")))),
		// builtins as handlers are called with the error
		mk(nExpr(n("list", nTry(nThunk(nRaise("a")), nId("print"), nInt(4)), nTry(nThunk(nRaise("a")), nId("len")), nTry(nThunk(nRaise("a")), nId("len"), nInt(9))))),
		// raising a caught error again keeps its class: a type error stays catchable, the value is an error value
		mk(nVar("r", nTry(nThunk(nExpr(nTry(nThunk(nExpr(nInfix("+", nInt(1), nStr("a")))), nFunc("", []string{"e"}, nExpr(nCall(nId("error"), nId("e"))))))), nFunc("", []string{"e"}, nRet(nId("e"))))),
			nExpr(n("list", nId("r")))),
		mk(nVar("r", nTry(nThunk(nRaise("a")), nFunc("", []string{"e"}, nRet(nId("e"))))), nExpr(nCall(nId("error"), nId("r"))), nPrint(nStr("unreachable"))),
		// a nil default is a default (the compiler accepts it)
		mk(nExpr(ns("func", "h", n("params", ns("param", "a"), ns("param", "b", n("nil"))), nBlock(nRet(n("list", nId("a"), nId("b")))))),
			nExpr(n("list", nCall(nId("h"), nInt(1), nInt(2)), nTry(nThunk(nRet(nCall(nId("h"), nInt(1)))), nStr("ERR"))))),
		// runaway recursion: with an operand kept per level the 1024-slot operand stack overflows before the
		// 1024-frame array does; without one the frame array overflows.  Both are Go panics recovered by
		// vm.Run: try does not catch them, deferred calls on the way out run (the dispatch traces must agree
		// to the last instruction)
		mk(nExpr(nFunc("r", []string{"k"}, nRet(nInfix("+", nId("k"), nCall(nId("r"), nInfix("-", nId("k"), nInt(1))))))), nExpr(nCall(nId("r"), nInt(1)))),
		mk(nExpr(nFunc("r", []string{"k"}, nRet(nCall(nId("r"), nInfix("-", nId("k"), nInt(1)))))), nExpr(nCall(nId("r"), nInt(1)))),
		mk(nExpr(nFunc("r", []string{"k"}, nRet(nInfix("+", nId("k"), nCall(nId("r"), nInfix("-", nId("k"), nInt(1))))))),
			nExpr(nFunc("h", nil, nDefer(nCall(nThunk(nPrint(nStr("deferred in h"))))), nVar("t", nTry(nThunk(nExpr(nCall(nId("r"), nInt(1)))), nFunc("", []string{"e"}, nPrint(nStr("handler"))))), nRet(nInt(1)))),
			nExpr(nCall(nId("h")))),
		mk(nExpr(nFunc("r", []string{"k"}, nDefer(nCall(nId("len"), nStr("x"))), nRet(nCall(nId("r"), nInfix("-", nId("k"), nInt(1)))))),
			nExpr(nTry(nThunk(nExpr(nCall(nId("r"), nInt(1)))), nInt(4)))),
		mk(nExpr(nFunc("r", []string{"k"}, nRet(nInfix("+", nId("k"), nInfix("+", nInt(1), nCall(nId("r"), nInfix("-", nId("k"), nInt(1)))))))),
			nExpr(nFunc("h", nil, nDefer(nCall(nThunk())), nRet(nInfix("+", nInt(2), nCall(nId("r"), nInt(1)))))), nExpr(nCall(nId("h")))),
		// try inside a deferred call; a failing builtin and a non-callable as deferred calls
		mk(nExpr(nFunc("h", nil, nDefer(nTry(nThunk(nRaise("x")), nFunc("", []string{"e"}, nPrint(nStr("h"), nId("e"))))), nRet(nInt(2)))), nExpr(nCall(nId("h")))),
		mk(nExpr(nFunc("h", nil, nDefer(nCall(nId("len"), nInt(1), nInt(2))), nPrint(nStr("body")), nRet(nInt(2)))), nExpr(nCall(nId("h")))),
		mk(nExpr(nFunc("h", nil, nVar("x", nInt(5)), nDefer(nCall(nId("x"), nInt(1))), nPrint(nStr("body")), nRet(nInt(2)))), nExpr(nTry(nId("h"), nInt(8)))),
		// defer at top level is rejected by the compiler
		mk(nPrint(nStr("before")), nDefer(nCall(nId("print"), nStr("never")))),
		// pipes: the piped value is the first argument; stages run left to right
		mk(nExpr(nFunc("add", []string{"a", "b"}, nPrint(nStr("add"), nId("a"), nId("b")), nRet(nInfix("+", nInfix("*", nId("a"), nInt(10)), nId("b"))))),
			nExpr(n("list", nPipe(call(2), nCall(nId("add"), nInt(3)), nCall(nId("add"), nInt(4))), nPipe(call(1), nId("lg"), nId("lg")), nPipe(n("list", nInt(1), nInt(2), nInt(3)), nId("len"))))),
		mk(nExpr(nFunc("add", []string{"a", "b"}, nRet(nInfix("+", nInfix("*", nId("a"), nInt(10)), nId("b"))))),
			nVar("fs", n("list", nId("lg"), nId("add"))), nExpr(nPipe(nPipe(call(1), n("index", nId("fs"), nInt(0))), nCall(n("index", nId("fs"), nInt(1)), nInt(7))))),
		// an error inside a stage, caught
		mk(nExpr(nTry(nThunk(nExpr(nPipe(nInt(1), nFunc("", []string{"a"}, nRaise("stage")), nId("lg")))), nFunc("", []string{"e"}, nPrint(nId("e")), nRet(nInt(0)))))),
		// sets: distinct items in hash-key order (type name, int value, string value); in, len, ==, print
		mk(nVar("u", n("set", call(3), call(1), nInt(2), nInt(1))), nPrint(nId("u")),
			nExpr(n("list", nId("u"), nCall(nId("len"), nId("u")), n("in", nInt(2), nId("u")), n("in", nInt(5), nId("u")), n("notin", nStr("a"), nId("u")), nInfix("==", nId("u"), n("set", nInt(1), nInt(2), nInt(3))), nInfix("==", nId("u"), n("set", nInt(1), nInt(2)))))),
		mk(nVar("u", n("set", nInt(1), nStr("a"), nBool(true), n("nil"), nStr("A"), nInt(-4))), nPrint(nId("u")), nExpr(n("list", nId("u"), n("in", n("list", nInt(1)), nId("u")), n("in", n("nil"), nId("u"))))),
		// maps: one-entry literal, assignment of old and new keys, compound assignment, in, len, index, key error
		mk(nVar("m", n("map", nStr("k"), call(1))), ns("setitem", "=", nId("m"), nStr("b"), call(2)), ns("setitem", "+=", nId("m"), nStr("k"), nInt(5)), ns("setitem", "=", nId("m"), nStr("a"), nInt(0)),
			nPrint(nId("m")),
			nExpr(n("list", nId("m"), nCall(nId("len"), nId("m")), n("in", nStr("k"), nId("m")), n("in", nStr("z"), nId("m")), n("in", nInt(1), nId("m")), n("index", nId("m"), nStr("b")),
				nTry(nThunk(nExpr(n("index", nId("m"), nStr("zz")))), nInt(-1)), nTry(nThunk(nExpr(n("index", nId("m"), nInt(0)))), nInt(-2)), nInfix("==", nId("m"), n("map", nStr("k"), nInt(6)))))),
		mk(nVar("m", n("map", nStr("k"), nInt(1))), ns("setitem", "+=", nId("m"), nStr("nope"), nInt(5))),
		// strings: index and slice by rune
		mk(nVar("s", nStr("héllo")), nExpr(n("list", n("index", nId("s"), nInt(1)), n("index", nId("s"), nInt(-1)), n("slice", nId("s"), nInt(1), nInt(3)), n("slice", nId("s"), n("none"), nInt(2)), n("slice", nId("s"), nInt(3), n("none")),
			nCall(nId("len"), nId("s")), nTry(nThunk(nExpr(n("index", nId("s"), nInt(9)))), nInt(-1)), nTry(nThunk(nExpr(n("index", nId("s"), nStr("a")))), nInt(-2)), nTry(nThunk(nExpr(n("slice", nId("s"), nInt(4), nInt(2)))), nInt(-3))))),
		// a set literal with an unhashable item raises a type error (repaired in /repo: it used to evaluate to an error VALUE)
		mk(nVar("u", n("set", n("list", nInt(1)), nInt(2))), nPrint(nStr("still running")), nExpr(n("list", nId("u")))),
		// known deviation: a variable declared in a loop body is one slot for all iterations
		mk(nVar("fs", n("list")), n("for3", nVar("i", nInt(0)), nInfix("<", nId("i"), nInt(3)), ns("postfix", "i ++"),
			nBlock(nVar("x", nInfix("*", nId("i"), nInt(10))), nExpr(ns("mcall", "append", nId("fs"), nThunk(nRet(nId("x"))))))),
			nExpr(n("list", nCall(n("index", nId("fs"), nInt(0))), nCall(n("index", nId("fs"), nInt(1))), nCall(n("index", nId("fs"), nInt(2)))))),
		// known deviation: a call nested in the arguments of a piped call is not called
		mk(nExpr(nFunc("pair", []string{"a", "b"}, nRet(nInfix("+", nId("a"), nId("b"))))), nExpr(nPipe(nInt(5), nCall(nId("pair"), call(1))))),
	}
}

func init() {
	// dev-c01 <oracle> [seed n]: the directed programs (and n generated ones) through all four evaluations, verbosely
	childCommands["dev-c01"] = func(args []string) {
		o, err := StartOracle(args[0])
		if err != nil {
			fmt.Println(err)
			return
		}
		defer o.Close()
		progs := c01DirectedErrors()
		if len(args) > 2 {
			var seed uint64
			var k int
			fmt.Sscanf(args[1], "%d", &seed)
			fmt.Sscanf(args[2], "%d", &k)
			r := NewRNG(seed)
			progs = nil
			for i := 0; i < k; i++ {
				progs = append(progs, GenProgram(r.Fork(), c01Opts(r.Fork(), true)))
			}
		}
		bad := 0
		for i, p := range progs {
			src := Src(p)
			goOut := goOutcome(EvalSrc(src, 5*time.Second))
			sem := o.Ask("C01", "eval", Sexp(p))
			vm := o.Ask("C01", "vmrun", Sexp(p), c01Globals)
			cm := o.Ask("C01", "compile", Sexp(p), c01Globals)
			code, cerr := CompileSrc(src)
			goCode := "fail"
			if cerr == nil {
				goCode = "ok\t" + CodeExport(code)
			}
			if strings.HasPrefix(cm, "fail") {
				cm = "fail"
			}
			skip := func(m string) bool { return strings.HasPrefix(m, "unsupported") || strings.HasPrefix(m, "oof") }
			same := (goOut == sem || skip(sem)) && (goOut == vm || skip(vm)) && goCode == cm
			if strings.HasPrefix(goOut, "err\tcompile") && strings.HasPrefix(sem, "err\tcompile") && goOut == vm && goCode == cm {
				same = true
			}
			if !same {
				bad++
			}
			if !same || len(args) <= 2 {
				fmt.Printf("===== #%d %v\n%s  go : %q\n  sem: %q\n  vm : %q\n", i, same, src, goOut, sem, vm)
				if goCode != cm {
					fmt.Printf("  go code : %s\n  lean    : %s\n", goCode, cm)
				}
			}
		}
		fmt.Println("differing:", bad, "of", len(progs))
	}
}
