package main

// C01 — execution matches source-level meaning.  Generated programs (harness/gen.go) are
// rendered to text and pushed through the REAL lexer, parser, compiler and VM; the result
// value, error class and printed output are compared with the Lean reference semantics
// (RisorModel/C01/Sem.lean) evaluated on the generator's tree — not on the parser's output,
// so that a parser defect cannot cancel out.

import (
	"fmt"
	"sort"
	"strings"
	"time"

	"github.com/risor-io/risor"
	"github.com/risor-io/risor/compiler"
	"github.com/risor-io/risor/object"
)

func init() { commands["C01"] = runC01 }

// ValText is the canonical text of a risor value (same format as Lean's showVal).
func ValText(o object.Object, depth int) string {
	if depth > 20 {
		return "(deep)"
	}
	switch v := o.(type) {
	case *object.NilType:
		return "(nil)"
	case *object.Bool:
		if v.Value() {
			return "(bool 1)"
		}
		return "(bool 0)"
	case *object.Int:
		return fmt.Sprintf("(int %d)", v.Value())
	case *object.String:
		return "(str " + Hex(v.Value()) + ")"
	case *object.List:
		var sb strings.Builder
		sb.WriteString("(list")
		for _, it := range v.Value() {
			sb.WriteString(" " + ValText(it, depth+1))
		}
		sb.WriteString(")")
		return sb.String()
	case *object.Function:
		return "(fn)"
	}
	if o == nil {
		return "(go-nil)"
	}
	return "(other " + string(o.Type()) + ")"
}

func goOutcome(out EvalOut) string {
	if out.Err != "" {
		return "err\t" + ErrClass(out.Err) + "\t" + Hex(out.Stdout)
	}
	return "ok\t" + ValText(out.Obj, 0) + "\t" + Hex(out.Stdout)
}

// CodeExport renders all code objects of a compiled program in the format of the oracle's
// `compile` reply: id, instructions, constants, names; sorted by id.
func CodeExport(code *compiler.Code) string {
	var parts []string
	for _, cc := range code.Flatten() {
		var consts []string
		for i := 0; i < cc.ConstantsCount(); i++ {
			switch k := cc.Constant(i).(type) {
			case int64:
				consts = append(consts, fmt.Sprintf("i%d", k))
			case string:
				consts = append(consts, "s"+Hex(k))
			case *compiler.Function:
				consts = append(consts, "f"+k.Code().ID())
			case float64:
				consts = append(consts, fmt.Sprintf("d%v", k))
			default:
				consts = append(consts, fmt.Sprintf("?%T", k))
			}
		}
		var names []string
		for i := 0; i < cc.NameCount(); i++ {
			names = append(names, cc.Name(i))
		}
		parts = append(parts, "id="+cc.ID()+";ins="+CodeText(cc)+";consts="+strings.Join(consts, ",")+";names="+strings.Join(names, ","))
	}
	sort.Strings(parts)
	return strings.Join(parts, "|")
}

var c01Globals = func() string {
	return strings.Join(risor.NewConfig().GlobalNames(), ",")
}()

func c01Nontrivial(p *N) bool {
	k := Kinds(p)
	forms := 0
	for _, s := range []string{"var", "assign", "if", "switch", "for3", "forcond", "forever", "forrange", "forin", "func", "setitem", "multi", "postfix", "const", "return", "break", "continue"} {
		if k[s] > 0 {
			forms++
		}
	}
	return forms >= 3
}

func runC01(e *Env) {
	e.R.Rule = "programs from the structured generator over the core grammar (statement forms x expression forms, size budget 40-300 nodes " +
		"quick / up to 600 thorough), rendered to text and evaluated by the real pipeline; oracle = Lean reference semantics on the " +
		"generator's tree; distinct by canonical S-expression; non-trivial when >= 3 statement forms occur"
	nProg := 3000
	if !e.Quick {
		nProg = 120000
	}
	rng := e.Rng.Fork()
	type item struct {
		p   *N
		src string
		go_ string
	}
	batch := make([]item, 0, 256)
	flush := func() {
		reqs := make([]string, len(batch))
		creqs := make([]string, len(batch))
		for i, it := range batch {
			reqs[i] = "C01\teval\t" + Sexp(it.p)
			creqs[i] = "C01\tcompile\t" + Sexp(it.p) + "\t" + c01Globals
		}
		vreqs := make([]string, len(batch))
		for i, it := range batch {
			vreqs[i] = "C01\tvmrun\t" + Sexp(it.p) + "\t" + c01Globals
		}
		reps := e.O.AskBatch(reqs)
		creps := e.O.AskBatch(creqs)
		vreps := e.O.AskBatch(vreqs)
		for i, it := range batch {
			c01Compare(e, it.p, it.src, it.go_, reps[i])
			c01CompareCode(e, it.p, it.src, creps[i])
			c01ParseCheck(e, it.p, it.src)
			c01FragCheck(e, it.p, it.src)
			// the Lean VM model on the Lean-compiled bytecode against the real run
			vf := strings.Split(vreps[i], "\t")
			switch {
			case vf[0] == "unsupported" || vf[0] == "oof":
				e.R.H("vm_model", vf[0])
			case vreps[i] == it.go_:
				e.R.H("vm_model", "agrees")
			default:
				e.R.H("vm_model", "differs")
				e.R.Mismatch(it.src, strings.ReplaceAll(it.go_, "\t", " "), strings.ReplaceAll(vreps[i], "\t", " "), "vm.Run vs C01.runCodes (Lean VM model on the modelled bytecode)")
			}
		}
		batch = batch[:0]
	}
	for i := 0; i < nProg; i++ {
		r := rng.Fork()
		budget := 40 + r.Intn(260)
		if !e.Quick && r.Chance(20) {
			budget = 300 + r.Intn(300)
		}
		o := GenOpts{MaxStmts: 3 + r.Intn(3), MaxDepth: 2 + r.Intn(3), Budget: budget, Funcs: r.Chance(70), Closures: true,
			Containers: r.Chance(70), Strings: r.Chance(60), CtlHeavy: r.Chance(30), NoCtlInSwitch: false, Shadow: true}
		p := GenProgram(r, o)
		src := Src(p)
		out := EvalSrc(src, 5*time.Second)
		batch = append(batch, item{p, src, goOutcome(out)})
		if len(batch) == cap(batch) {
			flush()
		}
	}
	flush()
	c01Directed(e)
}

// evalOrderGuard names the known evaluation-order deviations: both operands of `in`/`not in`
// have side effects (calls); both slice bounds do; the index of a compound item assignment does.
func evalOrderGuard(p *N) string {
	hasCall := func(x *N) bool {
		found := false
		Walk(x, func(y *N, _ []*N) {
			if y.K == "call" || y.K == "mcall" {
				found = true
			}
		}, nil)
		return found
	}
	g := ""
	Walk(p, func(x *N, _ []*N) {
		switch {
		case (x.K == "in" || x.K == "notin") && hasCall(x.C[0]) && hasCall(x.C[1]):
			g = "C01-in-evaluates-right-first"
		case x.K == "slice" && hasCall(x.C[1]) && hasCall(x.C[2]):
			g = "C01-slice-evaluates-stop-first"
		case x.K == "setitem" && x.S != "=" && hasCall(x.C[1]):
			g = "C01-compound-index-evaluated-twice"
		}
	}, nil)
	return g
}

// c01Directed: operands with observable side effects (a logging function) in every operand
// position: the printed order is the evaluation order.
func c01Directed(e *Env) {
	lg := n("expr", ns("func", "lg", n("params", ns("param", "v")), nBlock(n("expr", nCall(nId("print"), nId("v"))), n("return", nId("v")))))
	call := func(k int64) *N { return nCall(nId("lg"), nInt(k)) }
	lst := nVar("l", n("list", nInt(1), nInt(2), nInt(3), nInt(4)))
	mk := func(stmts ...*N) *N { return n("prog", append([]*N{lg, lst}, stmts...)...) }
	progs := []*N{
		mk(n("expr", nInfix("+", call(1), nInfix("*", call(2), call(3))))),
		mk(n("expr", nInfix("-", nInfix("-", call(1), call(2)), call(3)))),
		mk(n("expr", nInfix("&&", call(0), call(2)))),
		mk(n("expr", nInfix("||", call(1), call(2)))),
		mk(n("expr", n("tern", nInfix("<", call(1), call(2)), call(3), call(4)))),
		mk(n("expr", n("list", call(3), call(1), call(2)))),
		mk(n("expr", nCall(nId("lg"), nInfix("+", call(1), call(2))))),
		mk(n("expr", n("index", n("list", call(5), call(6)), nInfix("-", call(1), call(1))))),
		mk(n("expr", nInfix("==", call(1), call(2)))),
		mk(ns("setitem", "=", nId("l"), call(0), call(9)), n("expr", nId("l"))),
		mk(nVar("a", call(1)), nAssign("a", "+=", call(2)), n("expr", nId("a"))),
		mk(n("expr", n("if", nInfix(">", call(2), call(1)), nBlock(n("expr", call(3))), nBlock(n("expr", call(4)))))),
		mk(n("expr", n("switch", call(2), n("case", call(1), nBlock(n("expr", call(7)))), n("case", call(2), call(3), nBlock(n("expr", call(8)))), n("default", nBlock(n("expr", call(9))))))),
		// the three known deviations
		mk(n("expr", n("in", call(1), n("list", call(2), call(1))))),
		mk(n("expr", n("notin", call(1), n("list", call(2))))),
		mk(n("expr", n("slice", nId("l"), call(1), call(3)))),
		mk(ns("setitem", "+=", nId("l"), call(1), call(5)), n("expr", nId("l"))),
	}
	for _, p := range progs {
		src := Src(p)
		goOut := goOutcome(EvalSrc(src, 5*time.Second))
		model := e.O.Ask("C01", "eval", Sexp(p))
		vm := e.O.Ask("C01", "vmrun", Sexp(p), c01Globals)
		e.R.Case(Sexp(p), true)
		e.R.H("directed_eval_order", "cases")
		if vm != goOut {
			e.R.Mismatch(src, strings.ReplaceAll(goOut, "\t", " "), strings.ReplaceAll(vm, "\t", " "), "vm.Run vs C01.runCodes on a directed evaluation-order program")
		}
		if model != goOut {
			finding := ""
			if vm == goOut {
				finding = evalOrderGuard(p)
			}
			e.R.Spec(src, fmt.Sprintf("real pipeline: %s | source-level meaning (left-to-right, Lean Sem): %s", strings.ReplaceAll(goOut, "\t", " "), strings.ReplaceAll(model, "\t", " ")), finding)
		}
	}
}

func c01Compare(e *Env, p *N, src, goOut, model string) {
	e.R.Case(Sexp(p), c01Nontrivial(p))
	for k := range Kinds(p) {
		e.R.H("constructs", k)
	}
	gf := strings.Split(goOut, "\t")
	mf := strings.Split(model, "\t")
	e.R.H("go_outcome", gf[0]+":"+map[bool]string{true: gf[1], false: "value"}[gf[0] == "err"])
	if len(mf) < 3 {
		e.R.Mismatch(src, goOut, model, "oracle reply malformed")
		return
	}
	switch mf[0] {
	case "unsupported", "oof":
		e.R.H("model_outcome", mf[0]+":"+mf[1])
		if mf[0] == "oof" || gf[1] == "context" {
			e.R.Note("model %s / real %s on: %s", mf[0], gf[0]+" "+gf[1], src)
		}
		return
	}
	e.R.H("model_outcome", mf[0])
	if goOut == model {
		return
	}
	if gf[0] == "err" && gf[1] == "compile" && mf[0] == "err" && mf[1] == "compile" {
		return // rejected statically by the real compiler, at first use by the reference semantics: same class
	}
	// the Lean semantics is the Spec: a difference is a violation of the property unless the
	// program falls under a known finding's guard
	if gf[0] == "err" && gf[1] == "context" {
		e.R.Note("real run timed out (skipped): %s", src)
		return
	}
	cls := func(o string) string {
		f := strings.Split(o, "\t")
		if f[0] == "err" && len(f) > 1 {
			return "err:" + f[1]
		}
		return f[0]
	}
	wantG, wantM := cls(goOut), cls(model)
	small := Shrink(p, func(q *N) bool {
		g := goOutcome(EvalSrc(Src(q), 2*time.Second))
		if cls(g) != wantG {
			return false
		}
		m := e.O.Ask("C01", "eval", Sexp(q))
		return g != m && cls(m) == wantM
	})
	g := goOutcome(EvalSrc(Src(small), 20*time.Second))
	m := e.O.Ask("C01", "eval", Sexp(small))
	finding := ""
	if CtlUnderOperands(small) {
		finding = "C04-ctl-under-operands"
	}
	e.R.Spec(Src(small), fmt.Sprintf("real pipeline: %s | source-level meaning (Lean Sem): %s", strings.ReplaceAll(g, "\t", " "), strings.ReplaceAll(m, "\t", " ")), finding)
}

// c01CompareCode: bytecode of the real compiler vs the Lean compiler model, instruction for
// instruction, constants and names included.
func c01CompareCode(e *Env, p *N, src, model string) {
	code, err := CompileSrc(src)
	goText := ""
	if err != nil {
		goText = "fail"
	} else {
		goText = "ok\t" + CodeExport(code)
	}
	if strings.HasPrefix(model, "fail") {
		model = "fail"
	}
	if goText == model {
		e.R.H("bytecode", "identical")
		return
	}
	e.R.H("bytecode", "differs")
	small := Shrink(p, func(q *N) bool {
		c, err := CompileSrc(Src(q))
		g := "fail"
		if err == nil {
			g = "ok\t" + CodeExport(c)
		}
		m := e.O.Ask("C01", "compile", Sexp(q), c01Globals)
		if strings.HasPrefix(m, "fail") {
			m = "fail"
		}
		return g != m
	})
	c, err := CompileSrc(Src(small))
	g := "fail"
	if err == nil {
		g = CodeExport(c)
	} else {
		g = "fail: " + err.Error()
	}
	m := e.O.Ask("C01", "compile", Sexp(small), c01Globals)
	e.R.Mismatch(Src(small), g, strings.TrimPrefix(m, "ok\t"), "compiler.Compile vs C01.compileProg (bytecode, constants, names)")
}
