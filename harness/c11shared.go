package main

// C11 — HOST-OWNED INPUTS SHARED BETWEEN CONFIGURATIONS.
//
// The host's Go maps (and the objects inside them: modules, lists, maps, builtins) are values
// with identity.  A host that builds its globals map once hands the SAME map value to
// risor.WithGlobals in several option sequences: several Configs / evaluations, one after the
// other or at the same time, permissive before restrictive or the reverse, sometimes through the
// very same []risor.Option slice.
//
//   Impl  (Risor.C11.runBuilds false): WithGlobals copies the entries into the map NewConfig
//          allocated; no option constructor and no step of Config.init writes a host map.
//   Spec  (Risor.C11.ownGlobals): a configuration's globals are a function of ITS option sequence
//          and of the host maps' contents as the host wrote them; every host map has the same
//          keys and the same values (by identity) after any number of builds as before.
//
// For every generated scenario the harness builds the configurations for real (risor.NewConfig /
// risor.Eval), reads cfg.Globals() right after each build and again after all builds, reads every
// host map, every host module's attribute table and every host container after each build, and
// compares with the model (Mismatch) and with the Spec evaluated on the real result (Spec).  The
// same scenarios are then built CONCURRENTLY in a child process (a change that makes builds write
// a shared Go map dies there with "concurrent map writes").

import (
	"bytes"
	"context"
	"encoding/json"
	"fmt"
	"os"
	"os/exec"
	"reflect"
	"sort"
	"strconv"
	"strings"
	"sync"
	"time"

	"github.com/risor-io/risor"
	"github.com/risor-io/risor/object"
)

func init() { childCommands["C11-conc-child"] = c11ConcChild }

// ---------------------------------------------------------------- scenarios

type c11SOpt struct {
	kind byte   // 'G' WithGlobals(host map m), 'g' WithGlobal, 'd' WithoutGlobal, 'o' WithGlobalOverride, 'n' WithoutDefaultGlobals
	m    int    // 'G': index of the host map
	name string // 'g' 'd' 'o'
	val  int    // 'g' 'o': index into the pool of host objects
}

type c11SBuild struct {
	opts  []c11SOpt
	how   string // "NewConfig" | "Eval" (risor.Eval builds its Config internally)
	reuse int    // >= 0: the []risor.Option slice of that earlier build is passed again, verbatim
}

type c11SScen struct {
	kind     string
	pool     []object.Object
	poolDesc []string
	maps     []map[string]any // nil entry = the nil map
	mapSpec  []map[string]int // name -> pool index (what the host wrote)
	builds   []c11SBuild
}

const (
	c11SMapBase  = 5000
	c11SPoolBase = 10
	c11SNestBase = 40
	c11SSingle   = 90000
	c11SDflt     = 100000
)

var c11SHostNames = []string{"hx", "hy", "hm", "hl", "hmap", "hs", "zz", "len", "os", "exec"}
var c11SEditNames = []string{"hx", "hy", "hm", "hm.f", "hm.sub.f", "hm.sub", "hl", "zz", "len", "os", "exec", "http", "getenv", "open", "os.exit", "os.getenv", "nosuch"}

func c11SNewPool() ([]object.Object, []string) {
	sub := object.NewBuiltinsModule("sub", map[string]object.Object{"f": c11Noop("sub_f")})
	hm := object.NewBuiltinsModule("hm", map[string]object.Object{"f": c11Noop("hm_f"), "g": c11Noop("hm_g"), "sub": sub})
	hm2 := object.NewBuiltinsModule("hm2", map[string]object.Object{"f": c11Noop("hm2_f")})
	inner := object.NewMap(map[string]object.Object{"k0": c11Noop("in_map")})
	pool := []object.Object{
		c11Noop("hx"), c11Noop("hy"), hm,
		object.NewList([]object.Object{c11Noop("in_list"), inner}),
		object.NewMap(map[string]object.Object{"k0": c11Noop("k0"), "k1": hm2}),
		object.NewString("a host string"), c11Noop("host_len"), hm2,
	}
	desc := []string{"builtin hx", "builtin hy", "module hm{f,g,sub{f}}", "list[builtin,map]", "map{k0,k1:hm2}", "string", "builtin host_len", "module hm2{f}"}
	return pool, desc
}

// c11SGen: a scenario as a pure function of (seed, directed).  directed >= 0 selects one of the
// fixed templates (the host maps and objects are still drawn from the seed).
func c11SGen(seed uint64, directed int) *c11SScen {
	rng := NewRNG(seed)
	sc := &c11SScen{kind: "random"}
	sc.pool, sc.poolDesc = c11SNewPool()
	nm := 1 + rng.Intn(3)
	for i := 0; i < nm; i++ {
		spec := map[string]int{}
		switch x := rng.Intn(100); {
		case x < 6 && i > 0:
			sc.maps = append(sc.maps, nil)
			sc.mapSpec = append(sc.mapSpec, nil)
			continue
		case x < 16:
			// empty, not nil
		default:
			for j := 0; j < 1+rng.Intn(4); j++ {
				spec[Pick(rng, c11SHostNames)] = rng.Intn(len(sc.pool))
			}
			if i == 0 {
				spec["hm"] = 2 // the shared module is always present in the first map
			}
		}
		m := map[string]any{}
		for n, p := range spec {
			m[n] = sc.pool[p]
		}
		sc.maps = append(sc.maps, m)
		sc.mapSpec = append(sc.mapSpec, spec)
	}
	G := func(m int) c11SOpt { return c11SOpt{kind: 'G', m: m % len(sc.maps)} }
	N := c11SOpt{kind: 'n'}
	D := func(n string) c11SOpt { return c11SOpt{kind: 'd', name: n} }
	O := func(n string, v int) c11SOpt { return c11SOpt{kind: 'o', name: n, val: v} }
	W := func(n string, v int) c11SOpt { return c11SOpt{kind: 'g', name: n, val: v} }
	B := func(how string, opts ...c11SOpt) c11SBuild { return c11SBuild{opts: opts, how: how, reuse: -1} }
	R := func(how string, j int) c11SBuild { return c11SBuild{how: how, reuse: j} }
	templates := [][]c11SBuild{
		{B("NewConfig", G(0)), B("NewConfig", N, G(0))},                                 // permissive, then restrictive
		{B("NewConfig", N, G(0)), B("NewConfig", G(0))},                                 // restrictive, then permissive
		{B("Eval", G(0)), B("NewConfig", N, G(0)), B("NewConfig", G(0), N)},             // a trusted evaluation first; both option orders
		{B("NewConfig", G(0)), R("NewConfig", 0), R("Eval", 0), B("NewConfig", N, G(0))}, // the same option slice three times
		{B("NewConfig", D("os"), G(0)), B("NewConfig", G(0), O("os", 0)), B("NewConfig", N, G(0))},
		{B("NewConfig", W("hx", 1), G(0)), B("NewConfig", N, G(0)), B("NewConfig", G(0), W("hx", 0))},
		{B("NewConfig", G(0), G(1)), B("NewConfig", N, G(1), G(0)), B("NewConfig", N, G(1))},
		{B("NewConfig", G(0), D("hm.f")), B("NewConfig", N, G(0)), B("NewConfig", G(0))}, // an edit of a module that lives in a shared map
		{B("NewConfig", G(0), D("exec"), D("os.exit"), O("getenv", 1)), B("NewConfig", N, G(0), D("hx")), R("NewConfig", 0)},
		{B("NewConfig", N, G(0), G(0)), B("NewConfig", G(0), G(0)), R("NewConfig", 0)},
	}
	if directed >= 0 {
		sc.kind = "directed"
		sc.builds = templates[directed%len(templates)]
	} else {
		K := 2 + rng.Intn(3)
		for k := 0; k < K; k++ {
			if k > 0 && rng.Chance(15) {
				how := "NewConfig"
				if rng.Chance(30) {
					how = "Eval"
				}
				sc.builds = append(sc.builds, R(how, rng.Intn(k)))
				continue
			}
			var opts []c11SOpt
			n := 1 + rng.Intn(4)
			for i := 0; i < n; i++ {
				switch x := rng.Intn(100); {
				case x < 45 || (i == n-1 && len(opts) == 0):
					opts = append(opts, G(rng.Intn(len(sc.maps))))
				case x < 60:
					opts = append(opts, D(Pick(rng, c11SEditNames)))
				case x < 72:
					opts = append(opts, O(Pick(rng, c11SEditNames), rng.Intn(len(sc.pool))))
				case x < 84:
					opts = append(opts, W(Pick(rng, c11SHostNames), rng.Intn(len(sc.pool))))
				default:
					opts = append(opts, N)
				}
			}
			how := "NewConfig"
			if rng.Chance(20) {
				how = "Eval"
			}
			sc.builds = append(sc.builds, B(how, opts...))
		}
	}
	for k := range sc.builds {
		if j := sc.builds[k].reuse; j >= 0 {
			for sc.builds[j].reuse >= 0 {
				j = sc.builds[j].reuse
			}
			sc.builds[k].reuse = j
			sc.builds[k].opts = sc.builds[j].opts
		}
	}
	return sc
}

func (sc *c11SScen) optText(o c11SOpt) string {
	switch o.kind {
	case 'G':
		return fmt.Sprintf("WithGlobals(M%d)", o.m)
	case 'g':
		return fmt.Sprintf("WithGlobal(%s:=h%d)", o.name, o.val)
	case 'd':
		return fmt.Sprintf("WithoutGlobal(%s)", o.name)
	case 'o':
		return fmt.Sprintf("WithGlobalOverride(%s:=h%d)", o.name, o.val)
	}
	return "WithoutDefaultGlobals"
}

func (sc *c11SScen) buildText(k int) string {
	b := sc.builds[k]
	parts := make([]string, len(b.opts))
	for i, o := range b.opts {
		parts[i] = sc.optText(o)
	}
	re := ""
	if b.reuse >= 0 {
		re = fmt.Sprintf("(the option slice of #%d again)", b.reuse)
	}
	return fmt.Sprintf("#%d %s%s[%s]", k, b.how, re, strings.Join(parts, " "))
}

func (sc *c11SScen) key() string {
	var ms []string
	for i, spec := range sc.mapSpec {
		if sc.maps[i] == nil {
			ms = append(ms, fmt.Sprintf("M%d=nil", i))
			continue
		}
		var es []string
		for _, n := range sortedKeys(spec) {
			es = append(es, fmt.Sprintf("%s:h%d", n, spec[n]))
		}
		ms = append(ms, fmt.Sprintf("M%d={%s}", i, strings.Join(es, " ")))
	}
	var bs []string
	for k := range sc.builds {
		bs = append(bs, sc.buildText(k))
	}
	return "shared host inputs: " + strings.Join(ms, " ") + " | " + strings.Join(bs, " ")
}

// spell: the real options of every build; a build that re-uses an earlier one gets the SAME slice
func (sc *c11SScen) spell() [][]risor.Option {
	out := make([][]risor.Option, len(sc.builds))
	for k, b := range sc.builds {
		if b.reuse >= 0 {
			out[k] = out[b.reuse]
			continue
		}
		var opts []risor.Option
		for _, o := range b.opts {
			switch o.kind {
			case 'G':
				opts = append(opts, risor.WithGlobals(sc.maps[o.m]))
			case 'g':
				opts = append(opts, risor.WithGlobal(o.name, sc.pool[o.val]))
			case 'd':
				opts = append(opts, risor.WithoutGlobal(o.name))
			case 'o':
				opts = append(opts, risor.WithGlobalOverride(o.name, sc.pool[o.val]))
			default:
				opts = append(opts, risor.WithoutDefaultGlobals())
			}
		}
		out[k] = opts
	}
	return out
}

func (sc *c11SScen) hasDotted() bool {
	for _, b := range sc.builds {
		for _, o := range b.opts {
			if (o.kind == 'd' || o.kind == 'o') && strings.Contains(o.name, ".") {
				return true
			}
		}
	}
	return false
}

// shares: some non-nil host map is named by at least two builds
func (sc *c11SScen) shares() bool {
	used := map[int]map[int]bool{}
	for k, b := range sc.builds {
		for _, o := range b.opts {
			if o.kind == 'G' && sc.maps[o.m] != nil {
				if used[o.m] == nil {
					used[o.m] = map[int]bool{}
				}
				used[o.m][k] = true
			}
		}
	}
	for _, ks := range used {
		if len(ks) >= 2 {
			return true
		}
	}
	return false
}

// ---------------------------------------------------------------- identities of the host's objects

type c11SReg struct {
	ids  map[c11Key]int
	objs map[int]object.Object
	desc map[int]string
	next int
}

func c11SModKeys(m *object.Module) (out []string) {
	defer func() { recover() }()
	v := reflect.ValueOf(m).Elem().FieldByName("builtins")
	if !v.IsValid() || v.Kind() != reflect.Map {
		return nil
	}
	for _, k := range v.MapKeys() {
		if k.String() != "__name__" {
			out = append(out, k.String())
		}
	}
	sort.Strings(out)
	return out
}

func (rg *c11SReg) put(o object.Object, id int, desc string) {
	if k, ok := c11KeyOf(o); ok {
		if _, seen := rg.ids[k]; !seen {
			rg.ids[k] = id
			rg.objs[id] = o
			rg.desc[id] = desc
		}
	}
}

func (rg *c11SReg) idOf(o any) (int, bool) {
	ob, ok := o.(object.Object)
	if !ok || ob == nil {
		return 0, false
	}
	k, ok := c11KeyOf(ob)
	if !ok {
		return 0, false
	}
	id, ok := rg.ids[k]
	return id, ok
}

// nest registers what is inside modules, lists and maps (so that their contents can be compared
// by identity before and after)
func (rg *c11SReg) nest(o object.Object, path string, depth int) {
	if depth > 3 {
		return
	}
	reg := func(x object.Object, p string) {
		if _, ok := rg.idOf(x); !ok {
			rg.put(x, rg.next, p)
			rg.next++
		}
		rg.nest(x, p, depth+1)
	}
	switch x := o.(type) {
	case *object.Module:
		for _, k := range c11SModKeys(x) {
			if v, ok := c11GetAttr(x, k); ok {
				reg(v, path+"."+k)
			}
		}
	case *object.List:
		for i, it := range x.Value() {
			reg(it, fmt.Sprintf("%s[%d]", path, i))
		}
	case *object.Map:
		for _, k := range sortedKeys(x.Value()) {
			reg(x.Value()[k], fmt.Sprintf("%s[%q]", path, k))
		}
	}
}

func (rg *c11SReg) describe(id int) string {
	if d, ok := rg.desc[id]; ok {
		return fmt.Sprintf("#%d (%s)", id, d)
	}
	return fmt.Sprintf("#%d", id)
}

// contents of every registered module / list / map, by identity
func (rg *c11SReg) contents() (mods map[int]map[string]int, cont map[int]string) {
	mods, cont = map[int]map[string]int{}, map[int]string{}
	id := func(o object.Object) int {
		if i, ok := rg.idOf(o); ok {
			return i
		}
		return -1
	}
	for i, o := range rg.objs {
		if i >= c11SSingle {
			continue // default objects seen in some Config's globals: not the host's
		}
		switch x := o.(type) {
		case *object.Module:
			t := map[string]int{}
			for _, k := range c11SModKeys(x) {
				if v, ok := c11GetAttr(x, k); ok {
					t[k] = id(v)
				}
			}
			mods[i] = t
		case *object.List:
			var p []string
			for _, it := range x.Value() {
				p = append(p, strconv.Itoa(id(it)))
			}
			cont[i] = "[" + strings.Join(p, " ") + "]"
		case *object.Map:
			var p []string
			for _, k := range sortedKeys(x.Value()) {
				p = append(p, k+":"+strconv.Itoa(id(x.Value()[k])))
			}
			cont[i] = "{" + strings.Join(p, " ") + "}"
		}
	}
	return
}

func c11SEncodeMods(m map[int]map[string]int) string {
	if len(m) == 0 {
		return "-"
	}
	ids := make([]int, 0, len(m))
	for id := range m {
		ids = append(ids, id)
	}
	sort.Ints(ids)
	parts := make([]string, len(ids))
	for i, id := range ids {
		t := c11Table(m[id])
		if t == "-" {
			t = ""
		}
		parts[i] = strconv.Itoa(id) + ":" + t
	}
	return strings.Join(parts, "|")
}

// ---------------------------------------------------------------- the run

type c11SDefaults struct {
	names  []string          // default global names, sorted
	index  map[string]int    // name -> position
	fp     map[string]string // fingerprint of the reference default object
	sfp    map[string]string // … without addresses
	single map[string]bool   // names whose default object is the same in every DefaultGlobals() call
}

func c11SharedDefaults() *c11SDefaults {
	g1, g2 := risor.DefaultGlobals(), risor.DefaultGlobals()
	d := &c11SDefaults{index: map[string]int{}, fp: map[string]string{}, sfp: map[string]string{}, single: map[string]bool{}}
	d.names = sortedKeys(g1)
	for i, n := range d.names {
		d.index[n] = i
		o1, _ := g1[n].(object.Object)
		o2, _ := g2[n].(object.Object)
		d.fp[n] = c11Fingerprint(o1)
		d.sfp[n] = c11SFp(o1)
		if o1 == nil || o2 == nil || c11Same(o1, o2) {
			d.single[n] = true
		} else if _, ok := c11KeyOf(o1); !ok {
			d.single[n] = true
		}
	}
	return d
}

func (d *c11SDefaults) id(k int, n string) int {
	if d.single[n] {
		return c11SSingle + d.index[n]
	}
	return c11SDflt + k*1000 + d.index[n]
}

func (d *c11SDefaults) table(k int) map[string]int {
	t := make(map[string]int, len(d.names))
	for _, n := range d.names {
		t[n] = d.id(k, n)
	}
	return t
}

func (d *c11SDefaults) describe(id int) string {
	switch {
	case id >= c11SDflt:
		k, i := (id-c11SDflt)/1000, (id-c11SDflt)%1000
		if i < len(d.names) {
			return fmt.Sprintf("the DEFAULT object of %q created for configuration #%d", d.names[i], k)
		}
	case id >= c11SSingle:
		if i := id - c11SSingle; i < len(d.names) {
			return fmt.Sprintf("the default object of %q", d.names[i])
		}
	}
	return ""
}

func c11SDiff(real, want map[string]int, desc func(int) string) string {
	var out []string
	var extra, missing []string
	for _, n := range sortedKeys(real) {
		w, ok := want[n]
		switch {
		case !ok:
			extra = append(extra, n)
		case w != real[n]:
			out = append(out, fmt.Sprintf("%q is %s, should be %s", n, desc(real[n]), desc(w)))
		}
	}
	for _, n := range sortedKeys(want) {
		if _, ok := real[n]; !ok {
			missing = append(missing, n)
		}
	}
	short := func(xs []string) string {
		if len(xs) > 8 {
			return fmt.Sprintf("%s … (%d names)", strings.Join(xs[:8], ","), len(xs))
		}
		return strings.Join(xs, ",")
	}
	if len(extra) > 0 {
		out = append(out, "names that should not be there: "+short(extra)+" (e.g. "+fmt.Sprintf("%q = %s", extra[0], desc(real[extra[0]]))+")")
	}
	if len(missing) > 0 {
		out = append(out, "names missing: "+short(missing))
	}
	if len(out) > 4 {
		out = append(out[:4], fmt.Sprintf("… %d differences", len(out)))
	}
	return strings.Join(out, "; ")
}

func (r *c11Run) runShared(seed uint64, directed int, dflt *c11SDefaults) {
	e := r.e
	r.nCases++
	ctx := context.Background()
	sc := c11SGen(seed, directed)
	key := sc.key()
	e.R.H("kind", "shared host inputs: "+sc.kind)
	e.R.H("shared_builds", strconv.Itoa(len(sc.builds)))
	rg := &c11SReg{ids: map[c11Key]int{}, objs: map[int]object.Object{}, desc: map[int]string{}, next: c11SNestBase}
	for i, o := range sc.pool {
		rg.put(o, c11SPoolBase+i, fmt.Sprintf("h%d, %s", i, sc.poolDesc[i]))
	}
	for i, o := range sc.pool {
		rg.nest(o, fmt.Sprintf("h%d", i), 0)
	}
	describe := func(id int) string {
		if id < 0 {
			return "an object nobody supplied to this configuration"
		}
		if s := dflt.describe(id); s != "" {
			return s
		}
		return rg.describe(id)
	}
	// what the host wrote
	orig := make([]map[string]int, len(sc.maps))
	for i, spec := range sc.mapSpec {
		if sc.maps[i] == nil {
			continue
		}
		orig[i] = map[string]int{}
		for n, p := range spec {
			orig[i][n] = c11SPoolBase + p
		}
	}
	mods0, cont0 := rg.contents()
	// identity of an object found under name n in the globals of build k
	idOfReal := func(k int, n string, v any) int {
		if id, ok := rg.idOf(v); ok {
			return id
		}
		o, isObj := v.(object.Object)
		if !isObj || o == nil {
			return -1
		}
		if _, isDefault := dflt.index[n]; isDefault && c11Fingerprint(o) == dflt.fp[n] {
			id := dflt.id(k, n)
			if _, ptr := c11KeyOf(o); ptr && !dflt.single[n] {
				rg.put(o, id, "")
			}
			return id
		}
		return -1
	}
	tableOf := func(k int, g map[string]any) map[string]int {
		t := make(map[string]int, len(g))
		for n, v := range g {
			t[n] = idOfReal(k, n, v)
		}
		return t
	}
	curBuild := 0
	hostMapNow := func(i int) map[string]int {
		t := map[string]int{}
		for n, v := range sc.maps[i] {
			t[n] = idOfReal(curBuild, n, v)
		}
		return t
	}
	nSpec := 0
	spec := func(at, detail string) {
		nSpec++
		if nSpec <= 3 {
			e.R.Spec(key+" AT "+at, detail, "")
		}
	}
	// Spec (host_inputs_never_written): every host map has the keys and values the host wrote
	mapReported := map[int]bool{}
	checkHostMaps := func(at string) bool {
		ok := true
		for i := range sc.maps {
			if sc.maps[i] == nil {
				continue
			}
			if d := c11SDiff(hostMapNow(i), orig[i], describe); d != "" {
				ok = false
				if mapReported[i] {
					continue // reported when it was first seen
				}
				mapReported[i] = true
				e.R.H("shared_spec", "host map WRITTEN")
				spec(at, fmt.Sprintf("the HOST's own map M%d was written by building a configuration: %s — the host passed this map to risor.WithGlobals; no option and no step of Config.init may write to it", i, d))
			}
		}
		return ok
	}
	// ---- build for real, one after the other
	opts := sc.spell()
	K := len(sc.builds)
	cfgs := make([]*risor.Config, K)
	atBuild := make([]map[string]int, K)
	heapAfter := make([]string, K)
	panicked := false
	for k, b := range sc.builds {
		curBuild = k
		func() {
			defer func() {
				if p := recover(); p != nil {
					panicked = true
					spec(fmt.Sprintf("build #%d", k), fmt.Sprintf("building the configuration panicked: %v", p))
				}
			}()
			if b.how == "Eval" {
				risor.Eval(ctx, "1", opts[k]...)
				return
			}
			cfgs[k] = risor.NewConfig(opts[k]...)
			atBuild[k] = tableOf(k, cfgs[k].Globals())
		}()
		var hp []string
		for i := range sc.maps {
			if sc.maps[i] != nil {
				t := c11Table(hostMapNow(i))
				if t == "-" {
					t = ""
				}
				hp = append(hp, strconv.Itoa(c11SMapBase+i)+":"+t)
			}
		}
		heapAfter[k] = strings.Join(hp, "|")
		if heapAfter[k] == "" {
			heapAfter[k] = "-"
		}
		checkHostMaps(fmt.Sprintf("build #%d", k))
	}
	if panicked {
		e.R.Case(key, sc.shares())
		return
	}
	// ---- the model: the same builds in one world, for both iteration orders of the denylist / overrides maps
	var heap []string
	for i := range sc.maps {
		if sc.maps[i] != nil {
			t := c11Table(orig[i])
			if t == "-" {
				t = ""
			}
			heap = append(heap, strconv.Itoa(c11SMapBase+i)+":"+t)
		}
	}
	heapS := strings.Join(heap, "|")
	if heapS == "" {
		heapS = "-"
	}
	encBuilds := func(rev string) string {
		bs := make([]string, K)
		for k, b := range sc.builds {
			items := make([]string, len(b.opts))
			for i, o := range b.opts {
				switch o.kind {
				case 'G':
					id := c11SMapBase - 1 // the nil map: an identity that is not in the heap
					if sc.maps[o.m] != nil {
						id = c11SMapBase + o.m
					}
					items[i] = "G;" + strconv.Itoa(id)
				case 'g', 'o':
					items[i] = string(o.kind) + ";" + c11Name(o.name) + ";" + strconv.Itoa(c11SPoolBase+o.val)
				case 'd':
					items[i] = "d;" + c11Name(o.name)
				default:
					items[i] = "n"
				}
			}
			is := strings.Join(items, ",")
			if is == "" {
				is = "-"
			}
			bs[k] = is + "~" + c11Table(dflt.table(k)) + "~" + rev
		}
		return strings.Join(bs, "/")
	}
	ask := func(rev string) (per [][]string, finalHeap, finalMods string, ok bool) {
		rep := e.O.Ask("C11", "hostseq", "0", heapS, c11SEncodeMods(mods0), "-", encBuilds(rev))
		f := strings.Split(rep, "\t")
		if len(f) != 4 || f[0] != "ok" {
			e.R.Mismatch(key, "-", rep[:min(len(rep), 200)], "oracle rejected the hostseq request")
			return nil, "", "", false
		}
		for _, it := range strings.Split(f[1], "/") {
			g := strings.Split(it, "~")
			if len(g) != 4 {
				e.R.Mismatch(key, "-", it[:min(len(it), 200)], "malformed hostseq reply")
				return nil, "", "", false
			}
			per = append(per, g)
		}
		if len(per) != K {
			e.R.Mismatch(key, strconv.Itoa(K), strconv.Itoa(len(per)), "hostseq reply: number of builds")
			return nil, "", "", false
		}
		return per, f[2], f[3], true
	}
	per, _, finalMods, ok := ask("0")
	if !ok {
		e.R.Case(key, false)
		return
	}
	_, _, finalModsRev, ok2 := ask("1")
	orderDependent := ok2 && finalModsRev != finalMods
	// ---- per build: the real Config against Impl and against the Spec
	own := make([]map[string]int, K)
	for k, b := range sc.builds {
		own[k] = c11ParseTable(per[k][1])
		at := fmt.Sprintf("build #%d", k)
		if hm := c11ParseMods(per[k][3]); true {
			for i := range sc.maps {
				if sc.maps[i] == nil {
					continue
				}
				now := c11ParseMods(heapAfter[k])[c11SMapBase+i]
				if d := c11SDiff(now, hm[c11SMapBase+i], describe); d != "" {
					e.R.Mismatch(key+" AT "+at, d, "unchanged", fmt.Sprintf("host map M%d after the build (real against Risor.C11.build)", i))
				}
			}
		}
		if b.how == "Eval" {
			e.R.H("shared_build", "risor.Eval (Config not observable; host maps and later builds are)")
			continue
		}
		e.R.H("shared_build", "risor.NewConfig")
		if d := c11SDiff(atBuild[k], c11ParseTable(per[k][0]), describe); d != "" {
			e.R.Mismatch(key+" AT "+at, d, "the globals Risor.C11.build predicts", "cfg.Globals() right after the build")
		}
		if d := c11SDiff(atBuild[k], own[k], describe); d != "" {
			e.R.H("shared_spec", "globals NOT a function of the configuration's own options")
			spec(at, fmt.Sprintf("configuration %s does not hold what ITS options determine: %s", sc.buildText(k), d))
		} else {
			e.R.H("shared_spec", "globals = function of own options")
		}
	}
	// ---- after all builds: every Config again (an earlier Config must not change when a later one is built)
	for k := range sc.builds {
		if cfgs[k] == nil {
			continue
		}
		now := tableOf(k, cfgs[k].Globals())
		at := fmt.Sprintf("build #%d, read again after all %d builds", k, K)
		if d := c11SDiff(now, c11ParseTable(per[k][2]), describe); d != "" {
			e.R.Mismatch(key+" AT "+at, d, "the globals Risor.C11.Built.visible predicts at the end", "cfg.Globals() after all builds")
		}
		if d := c11SDiff(now, own[k], describe); d != "" {
			e.R.H("shared_spec", "an earlier Config CHANGED when a later one was built")
			spec(at, fmt.Sprintf("configuration %s changed after later configurations were built: %s", sc.buildText(k), d))
		}
	}
	// ---- the objects inside the host maps
	mods1, cont1 := rg.contents()
	if !orderDependent {
		want := c11ParseMods(finalMods)
		for _, id := range sortedIntKeys(mods1) {
			if d := c11SDiff(mods1[id], want[id], describe); d != "" {
				e.R.Mismatch(key, d, "the table Risor.C11.runBuilds predicts", "attribute table of host module "+rg.describe(id)+" after all builds")
			}
		}
	} else {
		e.R.H("shared_order", "module tables depend on the iteration order of denylist/overrides: model comparison skipped")
	}
	if !sc.hasDotted() {
		for _, id := range sortedIntKeys(mods1) {
			if d := c11SDiff(mods1[id], mods0[id], describe); d != "" {
				spec("the end", fmt.Sprintf("host module %s was edited although no option names a module member: %s", rg.describe(id), d))
			}
		}
	} else {
		edited := false
		for id := range mods1 {
			if c11SDiff(mods1[id], mods0[id], describe) != "" {
				edited = true
			}
		}
		if edited {
			e.R.H("shared_modules", "a host module was edited in place through a dotted name the host gave (as the model predicts; seen by every configuration holding the module)")
		} else {
			e.R.H("shared_modules", "dotted names, no host module edited")
		}
	}
	for _, id := range sortedIntKeys2(cont1) {
		if cont1[id] != cont0[id] {
			spec("the end", fmt.Sprintf("host container %s was written: %s before, %s after", rg.describe(id), cont0[id], cont1[id]))
		}
	}
	// ---- scripts under every configuration's options (each evaluation builds the configuration once more, with the same host maps)
	probeNames := []string{"os", "exec", "http", "getenv", "open", "len", "hx", "hy", "hm", "hl", "zz"}
	nProbe := 0
	for k := range sc.builds {
		for _, n := range probeNames {
			if !c11IsIdent(n) || (nProbe >= 12 && e.Quick) {
				continue
			}
			if r.e.Quick && !(n == "os" || n == "hm" || n == "exec" || n == "hx" || n == "len") {
				continue
			}
			nProbe++
			wantID, bound := own[k][n]
			isMod := false
			if o, ok := rg.objs[wantID]; bound && ok {
				isMod = isModuleObj(o)
			} else if bound && wantID >= c11SSingle {
				isMod = strings.HasPrefix(dflt.fp[n], "module|")
			}
			src := n
			if isMod && nProbe%2 == 0 {
				src = "import " + n + "\n" + n
			}
			var res object.Object
			var err error
			func() {
				defer func() {
					if p := recover(); p != nil {
						err = fmt.Errorf("PANIC: %v", p)
					}
				}()
				res, err = risor.Eval(ctx, src, opts[k]...)
			}()
			at := fmt.Sprintf("script %q under the options of #%d", src, k)
			switch {
			case err != nil && strings.HasPrefix(err.Error(), "PANIC"):
				spec(at, "the evaluation panicked: "+err.Error())
			case err == nil && !bound:
				e.R.H("shared_probe", "resolves although the configuration does not bind it")
				what := "an object"
				if res != nil {
					what = res.Inspect()
				}
				spec(at, fmt.Sprintf("the script obtained %s; the configuration %s does not bind %q (its options determine exactly %d globals)", what, sc.buildText(k), n, len(own[k])))
			case err != nil && bound:
				e.R.H("shared_probe", "fails although the configuration binds it")
				spec(at, fmt.Sprintf("the script failed (%v); the configuration %s binds %q to %s", err, sc.buildText(k), n, describe(wantID)))
			case err == nil:
				e.R.H("shared_probe", "resolves, as the configuration's own options determine")
				if id, known := rg.idOf(res); known && wantID < c11SSingle && id != wantID {
					spec(at, fmt.Sprintf("the script obtained %s; the configuration %s binds %q to %s", describe(id), sc.buildText(k), n, describe(wantID)))
				} else if known && wantID >= c11SSingle && id >= c11SDflt {
					spec(at, fmt.Sprintf("the script obtained %s — an object of ANOTHER configuration; every evaluation gets fresh defaults", describe(id)))
				}
			default:
				e.R.H("shared_probe", "fails, as the configuration's own options determine")
			}
		}
	}
	checkHostMaps("the end (after the scripts)")
	e.R.Case(key, sc.shares())
	if nSpec > 0 {
		return
	}
	// ---- the same builds CONCURRENTLY, in a child process
	if directed >= 0 || r.concBudget > 0 {
		if directed < 0 {
			r.concBudget--
		}
		r.runSharedConcurrent(sc, key, seed, directed, own, dflt)
	}
}

// c11SFp: a fingerprint without addresses (comparable between the parent and the child process)
func c11SFp(o object.Object) string {
	switch x := o.(type) {
	case nil:
		return "<nil>"
	case *object.Builtin:
		return "builtin|" + x.Key()
	case *object.Module:
		return "module|" + x.Name().Value()
	case *object.List:
		return "list|" + strconv.Itoa(len(x.Value()))
	case *object.Map:
		return "map|" + strconv.Itoa(len(x.Value()))
	default:
		return string(o.Type()) + "|" + o.Inspect()
	}
}

func isModuleObj(o object.Object) bool { _, ok := o.(*object.Module); return ok }

func sortedIntKeys(m map[int]map[string]int) []int {
	out := make([]int, 0, len(m))
	for k := range m {
		out = append(out, k)
	}
	sort.Ints(out)
	return out
}

func sortedIntKeys2(m map[int]string) []int {
	out := make([]int, 0, len(m))
	for k := range m {
		out = append(out, k)
	}
	sort.Ints(out)
	return out
}

// ---------------------------------------------------------------- concurrent builds (child process)

type c11ConcOut struct {
	Tables [][]map[string]string `json:"tables"` // [round][build] name -> label ("h<i>", "d", "?"); nil for Eval builds
	Maps   []map[string]string   `json:"maps"`   // host maps afterwards
	Mods   map[string]string     `json:"mods"`   // host module / container contents afterwards
	Dup    string                `json:"dup"`    // a default object that two builds share
}

func c11ConcLabels(sc *c11SScen) (func(name string, v any) string, func() map[string]string) {
	keyIdx := map[c11Key]int{}
	for i, o := range sc.pool {
		if k, ok := c11KeyOf(o); ok {
			keyIdx[k] = i
		}
	}
	label := func(name string, v any) string {
		o, isObj := v.(object.Object)
		if !isObj || o == nil {
			return "?"
		}
		if k, ok := c11KeyOf(o); ok {
			if i, ok := keyIdx[k]; ok {
				return "h" + strconv.Itoa(i)
			}
		}
		return "d:" + c11SFp(o)
	}
	contents := func() map[string]string {
		out := map[string]string{}
		var walk func(o object.Object, path string, depth int)
		walk = func(o object.Object, path string, depth int) {
			if depth > 3 {
				return
			}
			switch x := o.(type) {
			case *object.Module:
				var p []string
				for _, k := range c11SModKeys(x) {
					if v, ok := c11GetAttr(x, k); ok {
						p = append(p, k+"="+c11SFp(v))
						walk(v, path+"."+k, depth+1)
					}
				}
				out[path] = strings.Join(p, ",")
			case *object.List:
				var p []string
				for i, it := range x.Value() {
					p = append(p, c11SFp(it))
					walk(it, fmt.Sprintf("%s[%d]", path, i), depth+1)
				}
				out[path] = strings.Join(p, ",")
			case *object.Map:
				var p []string
				for _, k := range sortedKeys(x.Value()) {
					p = append(p, k+"="+c11SFp(x.Value()[k]))
					walk(x.Value()[k], path+"."+k, depth+1)
				}
				out[path] = strings.Join(p, ",")
			}
		}
		for i, o := range sc.pool {
			walk(o, "h"+strconv.Itoa(i), 0)
		}
		return out
	}
	return label, contents
}

// c11ConcChild <seed> <directed> <rounds>: regenerates the scenario, starts one goroutine per
// (round, build) behind a barrier, prints what every Config holds and what the host maps hold.
func c11ConcChild(args []string) {
	if len(args) < 3 {
		os.Exit(2)
	}
	seed, _ := strconv.ParseUint(args[0], 10, 64)
	directed, _ := strconv.Atoi(args[1])
	rounds, _ := strconv.Atoi(args[2])
	sc := c11SGen(seed, directed)
	label, contents := c11ConcLabels(sc)
	ctx := context.Background()
	K := len(sc.builds)
	out := c11ConcOut{Tables: make([][]map[string]string, rounds)}
	raw := make([][]map[string]any, rounds)
	var wg sync.WaitGroup
	start := make(chan struct{})
	for r := 0; r < rounds; r++ {
		out.Tables[r] = make([]map[string]string, K)
		raw[r] = make([]map[string]any, K)
		opts := sc.spell() // fresh option values per round; the host maps are the same
		for k := range sc.builds {
			wg.Add(1)
			go func(r, k int) {
				defer wg.Done()
				<-start
				if sc.builds[k].how == "Eval" {
					risor.Eval(ctx, "1", opts[k]...)
					return
				}
				cfg := risor.NewConfig(opts[k]...)
				raw[r][k] = cfg.Globals()
				risor.Eval(ctx, "1", opts[k]...)
			}(r, k)
		}
	}
	close(start)
	wg.Wait()
	dflt := c11SharedDefaults()
	seen := map[c11Key]string{}
	for r := range raw {
		for k, g := range raw[r] {
			if g == nil {
				continue
			}
			t := map[string]string{}
			for n, v := range g {
				t[n] = label(n, v)
				if o, ok := v.(object.Object); ok && strings.HasPrefix(t[n], "d:") {
					if key, ok := c11KeyOf(o); ok && c11IdentityKind(o) && !dflt.single[n] {
						who := fmt.Sprintf("round %d build #%d name %s", r, k, n)
						if prev, dup := seen[key]; dup && out.Dup == "" {
							out.Dup = prev + " and " + who
						}
						seen[key] = who
					}
				}
			}
			out.Tables[r][k] = t
		}
	}
	for i := range sc.maps {
		if sc.maps[i] == nil {
			out.Maps = append(out.Maps, nil)
			continue
		}
		t := map[string]string{}
		for n, v := range sc.maps[i] {
			t[n] = label(n, v)
		}
		out.Maps = append(out.Maps, t)
	}
	out.Mods = contents()
	b, _ := json.Marshal(out)
	os.Stdout.Write(b)
}

func (r *c11Run) runSharedConcurrent(sc *c11SScen, key string, seed uint64, directed int, own []map[string]int, dflt *c11SDefaults) {
	e := r.e
	rounds := 3
	ckey := key + " — built CONCURRENTLY (" + strconv.Itoa(rounds) + " rounds, one goroutine per build)"
	ctx, cancel := context.WithTimeout(context.Background(), 60*time.Second)
	defer cancel()
	cmd := exec.CommandContext(ctx, os.Args[0], "C11-conc-child", strconv.FormatUint(seed, 10), strconv.Itoa(directed), strconv.Itoa(rounds))
	var ob, eb bytes.Buffer
	cmd.Stdout, cmd.Stderr = &ob, &eb
	cmd.Env = append(os.Environ(), "GOMEMLIMIT=1GiB")
	err := cmd.Run()
	var out c11ConcOut
	if err != nil || json.Unmarshal(ob.Bytes(), &out) != nil {
		if ctx.Err() != nil {
			// timing is never a verdict
			e.R.H("shared_concurrent", "child timed out (no verdict)")
			return
		}
		first := ""
		for _, l := range strings.Split(eb.String(), "\n") {
			if strings.Contains(l, "fatal error") || strings.Contains(l, "panic:") {
				first = strings.TrimSpace(l)
				break
			}
		}
		if first == "" {
			first = strings.TrimSpace(eb.String())
			if len(first) > 200 {
				first = first[:200]
			}
		}
		e.R.H("shared_concurrent", "child DIED")
		e.R.Case(ckey, sc.shares())
		e.R.Spec(ckey, fmt.Sprintf("the process that built these configurations concurrently died (%v): %s — building configurations only reads what the host passed in, so concurrent builds sharing a host map are safe", err, first), "")
		return
	}
	e.R.H("shared_concurrent", "child completed")
	bad := 0
	fail := func(detail string) {
		bad++
		if bad <= 2 {
			e.R.Spec(ckey, detail, "")
		}
	}
	// expected labels from the Spec (ownGlobals of each build)
	for rd := range out.Tables {
		for k := range sc.builds {
			got := out.Tables[rd][k]
			if got == nil {
				continue
			}
			var diffs []string
			for _, n := range sortedKeys(own[k]) {
				id := own[k][n]
				want := "d:" + dflt.sfp[n]
				if id < c11SSingle {
					want = "h" + strconv.Itoa(id-c11SPoolBase)
				}
				if g, ok := got[n]; !ok {
					diffs = append(diffs, fmt.Sprintf("%q missing", n))
				} else if g != want {
					diffs = append(diffs, fmt.Sprintf("%q is %s, should be %s", n, g, want))
				}
			}
			var extra []string
			for _, n := range sortedKeys(got) {
				if _, ok := own[k][n]; !ok {
					extra = append(extra, n)
				}
			}
			if len(extra) > 0 {
				diffs = append(diffs, fmt.Sprintf("names that should not be there: %s (%d)", strings.Join(extra[:min(len(extra), 8)], ","), len(extra)))
			}
			if len(diffs) > 0 {
				fail(fmt.Sprintf("round %d: configuration %s does not hold what ITS options determine: %s", rd, sc.buildText(k), strings.Join(diffs[:min(len(diffs), 4)], "; ")))
			}
		}
	}
	for i := range sc.maps {
		if sc.maps[i] == nil {
			continue
		}
		want := map[string]string{}
		for n, p := range sc.mapSpec[i] {
			want[n] = "h" + strconv.Itoa(p)
		}
		if i < len(out.Maps) && !reflect.DeepEqual(out.Maps[i], want) && !(len(out.Maps[i]) == 0 && len(want) == 0) {
			fail(fmt.Sprintf("the HOST's own map M%d was written by the concurrent builds: it now has %d entries, the host wrote %d", i, len(out.Maps[i]), len(want)))
		}
	}
	if out.Dup != "" {
		fail("two configurations hold the SAME default object: " + out.Dup)
	}
	if !sc.hasDotted() {
		// a freshly regenerated scenario is structurally what the child started from
		_, freshContents := c11ConcLabels(c11SGen(seed, directed))
		if want := freshContents(); !reflect.DeepEqual(out.Mods, want) {
			fail("an object inside a host map (module / list / map) was written by the concurrent builds")
		}
	}
	e.R.Case(ckey, sc.shares() && bad == 0)
}

// runShareds: the directed templates (each with several seeds for the maps) and random scenarios.
func (r *c11Run) runShareds(rng *RNG) {
	e := r.e
	dflt := c11SharedDefaults()
	nSingle := 0
	for _, s := range dflt.single {
		if s {
			nSingle++
		}
	}
	e.R.Note("shared host inputs: %d default names, %d of them bound to one object in every DefaultGlobals() call", len(dflt.names), nSingle)
	reps := 2
	n := 110
	r.concBudget = 10
	if !e.Quick {
		reps, n = 12, 2500
		r.concBudget = 120
	}
	for d := 0; d < 10; d++ {
		for q := 0; q < reps; q++ {
			r.runShared(rng.Next(), d, dflt)
		}
	}
	for i := 0; i < n; i++ {
		r.runShared(rng.Next(), -1, dflt)
	}
}
