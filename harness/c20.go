package main

// C20 — layout and comments never change meaning; diagnostics point into the source.
//
// Three streams, all against the REAL lexer/parser/compiler of /repo:
//   layout  : generated programs x layout variants at every token gap (spaces, tabs, block
//             comments — one or several per gap, bodies beginning with `/` included —, line
//             comments at line ends, also after block comments, blank lines, CRLF, permitted
//             line breaks);
//             Spec = the variant parses to the same Program.String() and compiles to the same
//             bytecode.  Every variant is also lexed by the real lexer and by the Lean lexer
//             model (token type, literal, start/end Char/Line/Column/LineStart) = Impl.
//   diag    : single-token deletions/insertions/substitutions of the same programs; Spec = a
//             parser error's line/column exist in the text, the quoted line is that line
//             verbatim, FriendlyErrorMessage returns; a compile error's line/column exist.
//             Impl = Lean posAt/getLineText/renderOk on the error's start/end offsets.
//   soup    : random lexeme sequences (all number bases, escapes, comments, illegal runes,
//             lone CR, non-ASCII runes inside strings, comments, identifiers and after numbers)
//             for the lexer model only.
//   gap     : c20gap.go — line comments at the line ends of texts with multi-byte runes before and
//             inside them: the instances of lex_line_comment_at_line_end / lex_line_comment_after_blanks /
//             lexPos_line_comment / positions_after_line_comment against the real lexer.
//
// NOTHING of /repo's lexer, parser or compiler runs in this process: every call goes to a child
// worker (re-exec of this binary) with a memory limit, a stack limit and a timeout, so that a
// lexer or parser that loops, recurses without end, exhausts memory or crashes on an input is
// OBSERVED — the input is reported — instead of taking the harness down.

import (
	"bufio"
	"context"
	"encoding/json"
	"errors"
	"fmt"
	"os"
	"os/exec"
	"regexp"
	"runtime"
	"runtime/debug"
	"sort"
	"strings"
	"sync"
	"time"

	"github.com/risor-io/risor/lexer"
	"github.com/risor-io/risor/parser"
	"github.com/risor-io/risor/token"
)

func init() { commands["C20"] = c20_runC20 }

// The two block-comment defects of the lexer (C20-adjacent-comments,
// C20-block-comment-body-starting-with-slash) are repaired: no case is attributed to them any
// more, a recurrence is an unlisted violation (and a lexer-model mismatch).
const (
	c20_fEOFLine = "C20-eof-quotes-previous-line"
	c20_fNoPos   = "C20-compile-error-without-position"
	c20_fEOF2    = "C20-error-at-second-eof-column"
	c20_fFragPos = "C20-template-fragment-error-position"
)

// ---------------------------------------------------------------- real lexer

type c20Tok struct {
	T      token.Token
	S, E   int // rune offsets: first rune, last rune (inclusive)
	IsTerm bool
}

func c20_posStr(p token.Position) string {
	return fmt.Sprintf("%d,%d,%d,%d", p.Char, p.Line, p.Column, p.LineStart)
}

func c20_lexErrClass(msg string) string {
	switch {
	case strings.HasPrefix(msg, "unterminated string literal"):
		return "unterminated-string"
	case strings.HasPrefix(msg, "invalid escape sequence"):
		return "invalid-escape"
	case strings.HasPrefix(msg, "unterminated escape sequence"):
		return "unterminated-escape"
	case strings.HasPrefix(msg, "illegal character"):
		return "illegal-escape-char"
	case strings.HasPrefix(msg, "escape sequence is not a valid number"):
		return "escape-number"
	case strings.HasPrefix(msg, "invalid identifier"):
		return "invalid-identifier"
	case strings.HasPrefix(msg, "invalid decimal literal"):
		return "invalid-decimal"
	case strings.HasPrefix(msg, "unexpected character"):
		return "unexpected-char"
	}
	return "other:" + msg
}

// c20LexLocal runs the real lexer to the first EOF or error and renders the stream in the
// oracle's format.  WORKER SIDE ONLY (the lexer under test may loop or crash).
func c20LexLocal(src string) (toks []token.Token, repr string, lexErr error) {
	defer func() {
		if r := recover(); r != nil {
			repr = fmt.Sprintf("PANIC: %v", r)
		}
	}()
	l := lexer.New(src)
	var parts []string
	limit := len(src) + 5
	for i := 0; i < limit; i++ {
		t, err := l.Next()
		if err != nil {
			cls := c20_lexErrClass(err.Error())
			if t.Type == "" {
				parts = append(parts, "E,"+cls)
			} else {
				parts = append(parts, "E,"+cls+","+Hex(string(t.Type))+","+Hex(t.Literal)+","+c20_posStr(t.StartPosition)+","+c20_posStr(t.EndPosition))
			}
			lexErr = err
			break
		}
		toks = append(toks, t)
		parts = append(parts, Hex(string(t.Type))+","+Hex(t.Literal)+","+c20_posStr(t.StartPosition)+","+c20_posStr(t.EndPosition))
		if t.Type == token.EOF {
			break
		}
	}
	return toks, "ok\t" + strings.Join(parts, ";"), lexErr
}

// c20Lex: the real lexer on src, run in the worker.  The tokens carry type, literal and the
// full start/end positions.  died != "" when the worker did not answer (the lexer looped,
// overflowed the stack, exhausted memory or crashed): repr then is "DIED: <why>".
func c20Lex(src string) (toks []token.Token, repr string, lexErr error) {
	toks, repr, lexErr, _ = c20LexD(src)
	return
}

func c20LexD(src string) (toks []token.Token, repr string, lexErr error, died string) {
	w, ok := c20Call("lex", src)
	if !ok {
		return nil, "DIED: " + c20LastDeath, errors.New("the lexer did not return"), c20LastDeath
	}
	for i := range w.TT {
		toks = append(toks, token.Token{Type: token.Type(w.TT[i]), Literal: w.TL[i],
			StartPosition: token.Position{Char: w.TP[i][0], Line: w.TP[i][1], Column: w.TP[i][2], LineStart: w.TP[i][3]},
			EndPosition:   token.Position{Char: w.TP[i][4], Line: w.TP[i][5], Column: w.TP[i][6], LineStart: w.TP[i][7]}})
	}
	if w.LexErr != "" {
		lexErr = errors.New(w.LexErr)
	}
	return toks, w.Repr, lexErr, ""
}

// c20LexCheck compares the real lexer with the Lean lexer model on a batch of sources.
func c20LexCheck(e *Env, srcs []string, what string) (agree []bool) {
	reqs := make([]string, len(srcs))
	gos := make([]string, len(srcs))
	for i, s := range srcs {
		var died string
		_, gos[i], _, died = c20LexD(s)
		if died != "" {
			// the model returns a token stream for EVERY text (lexAll is total): a real lexer that
			// does not return is a violation of the property on this very input, whatever stream
			// the text belongs to (no token, no diagnostic)
			e.R.H("lex_corr", "REAL LEXER DID NOT RETURN")
			c20DeathSpec(e, s, "the real lexer does not return on this text ("+died+") | "+what)
		}
		reqs[i] = "C20\tlex\t" + Hex(s)
	}
	reps := e.O.AskBatch(reqs)
	agree = make([]bool, len(srcs))
	for i := range srcs {
		switch {
		case reps[i] == gos[i]:
			e.R.H("lex_corr", "agree")
			if !c20_isASCII(srcs[i]) {
				e.R.H("lex_corr_nonascii", c20_nonASCIIClass(srcs[i]))
			}
			agree[i] = true
		default:
			e.R.H("lex_corr", "MISMATCH")
			e.R.Mismatch(fmt.Sprintf("lex %q", srcs[i]), c20_firstDiff(gos[i], reps[i]), c20_firstDiff(reps[i], gos[i]), what+": token stream of the real lexer vs Lean lexAll")
		}
	}
	return
}

// firstDiff returns the first ';'-separated item of a that differs from b (with its index).
func c20_firstDiff(a, b string) string {
	as, bs := strings.Split(a, ";"), strings.Split(b, ";")
	for i := range as {
		if i >= len(bs) || as[i] != bs[i] {
			return fmt.Sprintf("#%d %s", i, as[i])
		}
	}
	if len(bs) > len(as) {
		return fmt.Sprintf("#%d <end>", len(as))
	}
	return a
}

// ---------------------------------------------------------------- parse / compile observations

type c20Obs struct {
	AST   string // canonical Program.String()
	Code  string // bytecode text of every code object
	PErr  error
	CErr  error
	Panic string
	Hang  bool
}

// Everything that calls the real parser/compiler runs in a child process: on some malformed
// inputs the parser never returns and allocates without bound (e.g. `switch x { case *=, 1: }`,
// C03's subject), which no recover() can stop.
type c20Wire struct {
	AST, Code, PErr, CErr, Panic string
	// diag
	Kind                    string // valid | parser | compile | panic
	Msg                     string
	SChar, SLine, SCol      int
	EChar, ELine, ECol      int
	SourceCode              string
	Friendly, FriendlyPanic string
	// lex
	Repr, LexErr string
	TT, TL       []string // token types and literals
	TP           [][8]int // start Char/Line/Column/LineStart, end Char/Line/Column/LineStart
	// c01lex / c01real (the expression streams c20nl.go, c20bridge.go) and starts
	Toks   string
	NTok   int
	Err    string
	Real   string
	Starts []int
	Types  []string
	// world (c20world.go): GetLineText of every token before / after other lexers were created
	Quotes0, Quotes []string
}

type c20Worker struct {
	cmd  *exec.Cmd
	in   *bufio.Writer
	out  *bufio.Reader
	errb *c20Tail
}

// c20Tail keeps the first bytes a worker writes to stderr (the Go runtime's "fatal error: …"
// line of a crash that no recover() can stop)
type c20Tail struct {
	mu  sync.Mutex
	buf []byte
}

func (t *c20Tail) Write(p []byte) (int, error) {
	t.mu.Lock()
	if len(t.buf) < 600 {
		k := 600 - len(t.buf)
		if k > len(p) {
			k = len(p)
		}
		t.buf = append(t.buf, p[:k]...)
	}
	t.mu.Unlock()
	return len(p), nil
}

func (t *c20Tail) First() string {
	t.mu.Lock()
	defer t.mu.Unlock()
	s := string(t.buf)
	for _, l := range strings.Split(s, "\n") {
		if strings.HasPrefix(l, "fatal error:") || strings.HasPrefix(l, "runtime:") || strings.HasPrefix(l, "panic:") {
			if len(l) > 160 {
				l = l[:160]
			}
			return l
		}
	}
	if len(s) > 160 {
		s = s[:160]
	}
	return strings.TrimSpace(s)
}

var c20W *c20Worker

// why the last worker died, how many died so far
var c20LastDeath string
var c20Deaths int

func c20StartWorker() *c20Worker {
	cmd := exec.Command(os.Args[0], "c20-worker")
	stdin, _ := cmd.StdinPipe()
	stdout, _ := cmd.StdoutPipe()
	tail := &c20Tail{}
	cmd.Stderr = tail
	cmd.Env = append(os.Environ(), "GOMEMLIMIT=1GiB", "GOTRACEBACK=single")
	if err := cmd.Start(); err != nil {
		panic(err)
	}
	return &c20Worker{cmd: cmd, in: bufio.NewWriter(stdin), out: bufio.NewReaderSize(stdout, 1<<20), errb: tail}
}

// c20Timeout: how long one request may take.  Timing is never a verdict on a result that
// arrives; a request that gets NO answer within the limit is reported as not returning.
func c20Timeout(mode string) time.Duration {
	if mode == "lex" || mode == "starts" || mode == "c01lex" || mode == "world" {
		return 10 * time.Second // the lexer is linear in the text
	}
	return 20 * time.Second
}

// Calls that did not return and were reported as violations.  A change under test that loops on
// a whole class of inputs would make the run last (number of such inputs) x (timeout): once the
// calls that did not return have cost c20MaxDeadTime in total (or there are c20MaxViolDeaths of
// them) the run stops — it has its failing inputs — by a panic with this sentinel, which
// c20_runC20 recovers.  Crashes that come at once (a stack overflow) cost little: the run goes on.
type c20AbortRun struct{}

const c20MaxViolDeaths = 400
const c20MaxDeadTime = 240 * time.Second

var c20ViolDeaths int
var c20DeadTime time.Duration

// c20DeathSpec records "the real code does not return on this input" as an unlisted violation.
func c20DeathSpec(e *Env, src, detail string) {
	e.R.Spec(src, detail, "")
	c20ViolDeaths++
	if c20ViolDeaths >= c20MaxViolDeaths || c20DeadTime >= c20MaxDeadTime {
		e.R.Note("run stopped early: %d calls into the real lexer/parser did not return and were reported as violations (%.0f s spent on calls without an answer)", c20ViolDeaths, c20DeadTime.Seconds())
		panic(c20AbortRun{})
	}
}

// c20Call sends one request to the worker; ok=false when it did not answer (killed and
// restarted; c20LastDeath says why).
func c20Call(mode, src string) (w c20Wire, ok bool) {
	if c20W == nil {
		c20W = c20StartWorker()
	}
	c20W.in.WriteString(mode + "\t" + Hex(src) + "\n")
	c20W.in.Flush()
	t0 := time.Now()
	type res struct {
		line string
		err  error
	}
	ch := make(chan res, 1)
	wk := c20W
	go func() {
		line, err := wk.out.ReadString('\n')
		ch <- res{line, err}
	}()
	why := ""
	select {
	case r := <-ch:
		if r.err == nil && json.Unmarshal([]byte(r.line), &w) == nil {
			return w, true
		}
		why = "the child process ended without an answer"
	case <-time.After(c20Timeout(mode)):
		why = fmt.Sprintf("no answer within %v, child process killed", c20Timeout(mode))
	}
	wk.cmd.Process.Kill()
	err := wk.cmd.Wait()
	if ee, isExit := err.(*exec.ExitError); isExit && !strings.HasPrefix(why, "no answer") {
		switch ee.ExitCode() {
		case 3:
			why += ": heap above 500 MB"
		case 2:
			why += ": Go runtime fatal error"
		default:
			why += fmt.Sprintf(": exit status %d", ee.ExitCode())
		}
	}
	if first := wk.errb.First(); first != "" {
		why += " [" + first + "]"
	}
	c20LastDeath = why
	c20DeadTime += time.Since(t0)
	c20Deaths++
	c20W = nil
	return c20Wire{}, false
}

func init() {
	childCommands["c20-worker"] = func(args []string) {
		debug.SetMemoryLimit(1 << 30)
		// a recursion without end (e.g. Next calling itself without consuming anything) must
		// die quickly and small, not after filling a gigabyte of stack
		debug.SetMaxStack(64 << 20)
		go func() { // a parse that allocates without bound must not take the machine down
			for {
				time.Sleep(20 * time.Millisecond)
				var ms runtime.MemStats
				runtime.ReadMemStats(&ms)
				if ms.HeapAlloc > 500<<20 {
					os.Exit(3)
				}
			}
		}()
		in := bufio.NewReaderSize(os.Stdin, 1<<20)
		out := bufio.NewWriter(os.Stdout)
		for {
			line, err := in.ReadString('\n')
			if err != nil {
				return
			}
			f := strings.Split(strings.TrimRight(line, "\n"), "\t")
			var w c20Wire
			if len(f) == 2 {
				src := UnHex(f[1])
				switch f[0] {
				case "obs1", "obs2":
					o := c20ObserveLocal(src, f[0] == "obs2")
					w.AST, w.Code, w.Panic = o.AST, o.Code, o.Panic
					if o.PErr != nil {
						w.PErr = o.PErr.Error()
					}
					if o.CErr != nil {
						w.CErr = o.CErr.Error()
					}
				case "diag":
					w = c20DiagLocal(src)
				case "lex":
					toks, repr, lerr := c20LexLocal(src)
					w.Repr = repr
					if lerr != nil {
						w.LexErr = lerr.Error()
					}
					for _, t := range toks {
						w.TT = append(w.TT, string(t.Type))
						w.TL = append(w.TL, t.Literal)
						sp, ep := t.StartPosition, t.EndPosition
						w.TP = append(w.TP, [8]int{sp.Char, sp.Line, sp.Column, sp.LineStart, ep.Char, ep.Line, ep.Column, ep.LineStart})
					}
				case "starts":
					func() {
						defer func() {
							if r := recover(); r != nil {
								w.Panic = fmt.Sprintf("%v", r)
							}
						}()
						w.Starts, w.Types = c20nlTokenStartsLocal(src)
					}()
				case "c01lex":
					func() {
						defer func() {
							if r := recover(); r != nil {
								w.Err = fmt.Sprintf("PANIC %v", r)
							}
						}()
						toks, n, err := c01parseLex(src)
						w.Toks, w.NTok = toks, n
						if err != nil {
							w.Err = err.Error()
						}
					}()
				case "c01real":
					w.Real = c01parseReal(src)
				case "stmt":
					w.Real = c20stReal(src)
				case "world":
					w = c20WorldLocal(src)
				}
			}
			b, _ := json.Marshal(w)
			out.Write(b)
			out.WriteByte('\n')
			out.Flush()
		}
	}
}

// c20wLex / c20wReal: c01parseLex / c01parseReal (harness/c01parse.go: the real lexer's tokens in
// the oracle's encoding; the real parser's tree of a one-expression text) run in the worker.  A
// worker that does not answer is a violation on this input (these texts are renderings of
// expression trees, with layout: lexer and parser must return on them).
func c20wLex(e *Env, src string) (string, int, error) {
	w, ok := c20Call("c01lex", src)
	if !ok {
		c20DeathSpec(e, src, "the real lexer does not return on this expression text ("+c20LastDeath+")")
		return "", 0, errors.New("the real lexer did not return: " + c20LastDeath)
	}
	if w.Err != "" {
		return "", 0, errors.New(w.Err)
	}
	return w.Toks, w.NTok, nil
}

func c20wReal(e *Env, src string) string {
	w, ok := c20Call("c01real", src)
	if !ok {
		c20DeathSpec(e, src, "the real parser does not return on this expression text ("+c20LastDeath+")")
		return "fail:the real parser did not return: " + c20LastDeath
	}
	return w.Real
}

func c20Observe(src string, compile bool) (o c20Obs) {
	mode := "obs1"
	if compile {
		mode = "obs2"
	}
	w, ok := c20Call(mode, src)
	if !ok {
		o.Hang = true
		o.Panic = "the parser/compiler did not return (" + c20LastDeath + ")"
		return
	}
	o.AST, o.Code, o.Panic = w.AST, w.Code, w.Panic
	if w.PErr != "" {
		o.PErr = errors.New(w.PErr)
	}
	if w.CErr != "" {
		o.CErr = errors.New(w.CErr)
	}
	return
}

func c20DiagLocal(src string) (w c20Wire) {
	defer func() {
		if r := recover(); r != nil {
			w.Kind = "panic"
			w.Panic = fmt.Sprintf("%v", r)
		}
	}()
	_, err := parser.Parse(context.Background(), src)
	if err != nil {
		pe, ok := err.(parser.ParserError)
		if !ok {
			w.Kind = "valid"
			return
		}
		w.Kind = "parser"
		w.Msg = pe.Error()
		sp, ep := pe.StartPosition(), pe.EndPosition()
		w.SChar, w.SLine, w.SCol = sp.Char, sp.Line, sp.Column
		w.EChar, w.ELine, w.ECol = ep.Char, ep.Line, ep.Column
		w.SourceCode = pe.SourceCode()
		func() {
			defer func() {
				if r := recover(); r != nil {
					w.FriendlyPanic = fmt.Sprintf("%v", r)
				}
			}()
			w.Friendly = pe.FriendlyErrorMessage()
		}()
		return
	}
	_, cerr := CompileSrc(src)
	if cerr != nil {
		w.Kind = "compile"
		w.Msg = cerr.Error()
		return
	}
	w.Kind = "valid"
	return
}

var c20_reLineCol = regexp.MustCompile(`line (\d+), column (\d+)`)

// canonBraces sorts the top-level ", "-separated parts inside every {...} group: ast.Map.String
// ranges over a Go map, so the order of the pairs differs from call to call (C05's subject).
func c20_canonBraces(s string) string {
	r := []rune(s)
	var rec func(i int) (string, int)
	rec = func(i int) (string, int) { // parses until the matching '}' (or end); returns content and index after it
		var parts []string
		var cur strings.Builder
		for i < len(r) {
			c := r[i]
			switch {
			case c == '{':
				inner, j := rec(i + 1)
				cur.WriteString("{" + inner + "}")
				i = j
				continue
			case c == '}':
				parts = append(parts, cur.String())
				sort.Strings(parts)
				return strings.Join(parts, ", "), i + 1
			case c == ',' && i+1 < len(r) && r[i+1] == ' ':
				parts = append(parts, cur.String())
				cur.Reset()
				i += 2
				continue
			}
			cur.WriteRune(c)
			i++
		}
		parts = append(parts, cur.String())
		return strings.Join(parts, ", "), i
	}
	// top level: do not sort, only descend
	var out strings.Builder
	for i := 0; i < len(r); {
		if r[i] == '{' {
			inner, j := rec(i + 1)
			out.WriteString("{" + inner + "}")
			i = j
			continue
		}
		out.WriteRune(r[i])
		i++
	}
	return out.String()
}

func c20ObserveLocal(src string, compile bool) (o c20Obs) {
	defer func() {
		if r := recover(); r != nil {
			o.Panic = fmt.Sprintf("%v", r)
		}
	}()
	prog, err := parser.Parse(context.Background(), src)
	if err != nil {
		o.PErr = err
		return
	}
	o.AST = c20_canonBraces(prog.String())
	if !compile {
		return
	}
	code, err := CompileSrc(src)
	if err != nil {
		o.CErr = err
		return
	}
	var sb strings.Builder
	for _, cc := range code.Flatten() {
		sb.WriteString(CodeText(cc))
		sb.WriteString(" | ")
		for i := 0; i < cc.ConstantsCount(); i++ {
			sb.WriteString(fmt.Sprintf("%v;", cc.Constant(i)))
		}
		sb.WriteString("\n")
	}
	o.Code = sb.String()
	return
}

// ---------------------------------------------------------------- token gaps of a source

type c20Gap struct {
	Off      int    // rune offset at which text is inserted (start of the token after the gap)
	Prev     string // type of the token before the gap ("" at the beginning)
	Next     string // type of the token after the gap
	LineEnd  bool   // the next token is NEWLINE or EOF: a line comment may be added
	Break    bool   // a line break is permitted here (after the previous token)
	BreakWhy string
}

var c20_infixBreakOps = map[token.Type]bool{
	token.AND: true, token.ASTERISK: true, token.AMPERSAND: true, token.EQ: true, token.GT_EQUALS: true,
	token.GT_GT: true, token.GT: true, token.LT_EQUALS: true, token.LT_LT: true, token.LT: true, token.MINUS: true,
	token.MOD: true, token.NOT_EQ: true, token.OR: true, token.PLUS: true, token.POW: true, token.SLASH: true,
}

func c20_operandEnd(t token.Type) bool {
	switch t {
	case token.IDENT, token.INT, token.FLOAT, token.STRING, token.FSTRING, token.BACKTICK, token.RPAREN, token.RBRACKET,
		token.TRUE, token.FALSE, token.NIL:
		return true
	}
	return false
}

// c20Gaps classifies every token gap of a comment-free source from its real token stream.
// Line breaks are permitted (the parser eats newlines there): after `,` directly inside a list
// literal `[…]`, call arguments `f(…)` or a map/set literal `{…}`; after the opening bracket of
// those and before the closing `]`/`)` of a list/call; after a binary operator handled by
// parseInfixExpr; after a binary `|`; after `.`.
func c20Gaps(toks []token.Token) []c20Gap {
	type br struct {
		kind string // "list" "call" "lit" "other"
	}
	var stack []br
	gaps := make([]c20Gap, 0, len(toks))
	for i, t := range toks {
		g := c20Gap{Off: t.StartPosition.Char, Next: string(t.Type)}
		var prev token.Token
		if i > 0 {
			prev = toks[i-1]
			g.Prev = string(prev.Type)
		}
		g.LineEnd = t.Type == token.NEWLINE || t.Type == token.EOF
		top := ""
		if len(stack) > 0 {
			top = stack[len(stack)-1].kind
		}
		if i > 0 {
			var pp token.Token
			if i > 1 {
				pp = toks[i-2]
			}
			switch {
			case prev.Type == token.COMMA && (top == "list" || top == "call" || top == "lit"):
				g.Break, g.BreakWhy = true, "after , in "+top
			case ((prev.Type == token.LBRACKET && top == "list") || (prev.Type == token.LPAREN && top == "call") || (prev.Type == token.LBRACE && top == "lit")) &&
				t.Type != token.RBRACKET && t.Type != token.RPAREN && t.Type != token.RBRACE:
				g.Break, g.BreakWhy = true, "after opening "+top
			case c20_infixBreakOps[prev.Type] && i > 1 && c20_operandEnd(pp.Type):
				g.Break, g.BreakWhy = true, "after binary operator"
			case prev.Type == token.PIPE && i > 1 && c20_operandEnd(pp.Type):
				g.Break, g.BreakWhy = true, "after |"
			case prev.Type == token.PERIOD:
				g.Break, g.BreakWhy = true, "after ."
			case (t.Type == token.RBRACKET && top == "list") || (t.Type == token.RPAREN && top == "call"):
				if prev.Type != token.LBRACKET && prev.Type != token.LPAREN {
					g.Break, g.BreakWhy = true, "before closing "+top
				}
			}
		}
		gaps = append(gaps, g)
		// maintain the bracket stack with the token itself
		switch t.Type {
		case token.LBRACKET:
			if i > 0 && (c20_operandEnd(prev.Type) || prev.Type == token.RBRACE) {
				stack = append(stack, br{"other"}) // index / slice
			} else {
				stack = append(stack, br{"list"})
			}
		case token.LPAREN:
			isParams := i > 0 && (prev.Type == token.FUNC || (prev.Type == token.IDENT && i > 1 && toks[i-2].Type == token.FUNC))
			if !isParams && i > 0 && (c20_operandEnd(prev.Type) || prev.Type == token.RBRACE) {
				stack = append(stack, br{"call"})
			} else {
				stack = append(stack, br{"other"}) // parameters or grouping
			}
		case token.LBRACE:
			isBlock := i+1 < len(toks) && (toks[i+1].Type == token.NEWLINE || toks[i+1].Type == token.RBRACE)
			// `{ }` is the generator's empty block; an empty map literal is never generated
			if isBlock {
				stack = append(stack, br{"other"})
			} else {
				stack = append(stack, br{"lit"})
			}
		case token.RBRACKET, token.RPAREN, token.RBRACE:
			if len(stack) > 0 {
				stack = stack[:len(stack)-1]
			}
		}
	}
	return gaps
}

type c20Ins struct {
	Off  int
	Text string
	Kind string
}

func c20Apply(src []rune, ins []c20Ins, crlf bool) string {
	sort.SliceStable(ins, func(i, j int) bool { return ins[i].Off < ins[j].Off })
	var sb strings.Builder
	k := 0
	for i := 0; i <= len(src); i++ {
		for k < len(ins) && ins[k].Off == i {
			sb.WriteString(ins[k].Text)
			k++
		}
		if i < len(src) {
			sb.WriteRune(src[i])
		}
	}
	s := sb.String()
	if crlf {
		s = strings.ReplaceAll(s, "\n", "\r\n")
	}
	return s
}

var c20CommentBodies = []string{"", " ", "c", " a b ", "x := 1", "**", " * / ", " /", " // ", " # ", "\"", "'", "`", " é→ ", "if {", "\t",
	// multi-byte runes: 2, 3 and 4 bytes each, few and many of them (a lexer that mixes up byte
	// and rune offsets is off by the number of EXTRA bytes before the point it looks at)
	"é", " café", " Höchstwert für Größe", "→", " 日本語のコメント ", " 😀 ok", "ünï", " λx.x ", " ≤ 10 × 2 ", " ¡ÿ! "}

// non-ASCII identifiers (every rune a letter or digit of Unicode or `_`; 2-, 3- and 4-byte runes;
// a non-ASCII DIGIT inside), and string contents with multi-byte runes
var c20UniNames = []string{"é", "größe", "λ", "名前", "x٣", "café_1", "𝑥", "ñ2", "_ß", "Δt", "имя", "aé"}
var c20UniStrings = []string{"é", "héllo wörld", "→", "日本語", "😀", "a→b", "naïve café", "½ × 2"}

// which kinds of non-ASCII text a source has: s = inside a string literal, c = inside a comment,
// i = elsewhere (identifiers); from the real token stream would be exact — this is a histogram key
// only, computed from the text: quotes and comment openers toggle the state
func c20_nonASCIIClass(src string) string {
	inS, inC, inB := rune(0), false, false
	has := map[string]bool{}
	rs := []rune(src)
	for i := 0; i < len(rs); i++ {
		c := rs[i]
		switch {
		case inC:
			if c == '\n' {
				inC = false
			}
		case inB:
			if c == '*' && i+1 < len(rs) && rs[i+1] == '/' {
				inB = false
				i++
			}
		case inS != 0:
			if c == '\\' && inS != '`' {
				i++
			} else if c == inS || (c == '\n' && inS != '`') {
				inS = 0
			}
		case c == '"' || c == '\'' || c == '`':
			inS = c
		case c == '#' || (c == '/' && i+1 < len(rs) && rs[i+1] == '/'):
			inC = true
		case c == '/' && i+1 < len(rs) && rs[i+1] == '*':
			inB = true
			i++
		}
		if c > 127 {
			switch {
			case inC || inB:
				has["comment"] = true
			case inS != 0:
				has["string"] = true
			default:
				has["identifier/other"] = true
			}
		}
	}
	var ks []string
	for k := range has {
		ks = append(ks, k)
	}
	sort.Strings(ks)
	return strings.Join(ks, "+")
}

// c20Uni rewrites a generated program text so that it carries multi-byte runes OUTSIDE comments
// too: some of the program's own variable/function/parameter names (the generator's names are a
// prefix and a number: v4, p2, f1, zz0 …) are renamed to non-ASCII identifiers — every occurrence,
// also inside template strings, so the program still compiles and means the same up to the names —
// and a statement binding a string with multi-byte runes is put first (before every comment the
// layout stream will add).  what = histogram key.
var c20_reGenName = regexp.MustCompile(`\b(?:[a-z]{1,3})[0-9]+\b`)

func c20Uni(r *RNG, src string) (string, string) {
	mode := r.Intn(10)
	if mode < 3 {
		return src, "ascii program"
	}
	what := []string{}
	if mode >= 5 { // rename
		names := map[string]bool{}
		for _, m := range c20_reGenName.FindAllString(src, -1) {
			names[m] = true
		}
		var list []string
		for k := range names {
			list = append(list, k)
		}
		sort.Strings(list)
		pool := append([]string{}, c20UniNames...)
		ren := map[string]string{}
		for _, nm := range list {
			if len(pool) == 0 || !r.Chance(50) {
				continue
			}
			k := r.Intn(len(pool))
			ren[nm] = pool[k] + nm[len(nm)-1:] // keep them distinct from one another: pool entries are used once
			pool = append(pool[:k], pool[k+1:]...)
		}
		if len(ren) > 0 {
			src = c20_reGenName.ReplaceAllStringFunc(src, func(m string) string {
				if to, ok := ren[m]; ok {
					return to
				}
				return m
			})
			what = append(what, "non-ASCII identifiers")
		}
	}
	if mode < 5 || mode >= 7 { // a leading string
		q := Pick(r, []string{"\"", "'", "`"})
		src = "zu0 := " + q + Pick(r, c20UniStrings) + q + "\n" + src
		what = append(what, "leading non-ASCII string")
	}
	if len(what) == 0 {
		return src, "ascii program"
	}
	return src, strings.Join(what, " + ")
}

func c20Blanks(r *RNG) string {
	n := 1 + r.Intn(3)
	var sb strings.Builder
	for i := 0; i < n; i++ {
		if r.Chance(70) {
			sb.WriteByte(' ')
		} else {
			sb.WriteByte('\t')
		}
	}
	return sb.String()
}

func c20_isASCII(s string) bool {
	for _, c := range s {
		if c > 127 {
			return false
		}
	}
	return true
}

func c20Block(r *RNG, multiline bool) string {
	body := Pick(r, c20CommentBodies)
	if multiline {
		body += "\n" + Pick(r, c20CommentBodies)
	}
	if r.Chance(15) {
		body = "/" + body // `/*/` is not a complete comment (repaired defect)
	}
	return "/*" + body + "*/"
}

func c20LineComment(r *RNG) string {
	body := Pick(r, c20CommentBodies)
	if strings.ContainsAny(body, "\n") {
		body = ""
	}
	if r.Bool() {
		return "//" + body
	}
	return "#" + body
}

// one insertion of the given kind at gap g; ok=false when the kind does not apply there
func c20Insertion(r *RNG, g c20Gap, kind string) (c20Ins, bool) {
	pad := func(s string) string {
		if r.Bool() {
			s = c20Blanks(r) + s
		}
		if r.Bool() {
			s += c20Blanks(r)
		}
		return s
	}
	switch kind {
	case "blanks":
		return c20Ins{g.Off, c20Blanks(r), kind}, true
	case "block":
		return c20Ins{g.Off, pad(c20Block(r, false)), kind}, true
	case "block-multiline":
		return c20Ins{g.Off, pad(c20Block(r, true)), kind}, true
	case "linecomment":
		if !g.LineEnd {
			return c20Ins{}, false
		}
		s := c20LineComment(r)
		if r.Bool() {
			s = c20Blanks(r) + s
		}
		return c20Ins{g.Off, s, kind}, true
	case "commentline": // a line comment on a line of its own, between two statements (or first in the file)
		if g.Next != string(token.NEWLINE) && g.Prev != "" {
			return c20Ins{}, false
		}
		if g.Prev == "" { // header comment: before the first token
			s := c20LineComment(r) + "\n"
			if r.Chance(30) {
				s += c20LineComment(r) + "\n"
			}
			return c20Ins{g.Off, s, kind + ":header"}, true
		}
		s := "\n"
		if r.Bool() {
			s += c20Blanks(r)
		}
		s += c20LineComment(r)
		return c20Ins{g.Off, s, kind}, true
	case "blankline":
		if g.Next != string(token.NEWLINE) {
			return c20Ins{}, false
		}
		s := "\n"
		if r.Chance(30) {
			s = "\n" + c20Blanks(r)
		}
		if r.Chance(20) {
			s += "\n"
		}
		return c20Ins{g.Off, s, kind}, true
	case "break":
		if !g.Break {
			return c20Ins{}, false
		}
		s := "\n"
		if r.Chance(40) {
			s += c20Blanks(r)
		}
		if r.Chance(15) {
			s = c20Blanks(r) + c20LineComment(r) + s // a line comment at the new line end
		}
		if r.Chance(10) {
			s += "\n" // several newlines are eaten alike
		}
		return c20Ins{g.Off, s, kind + ":" + g.BreakWhy}, true
	case "comments": // several comments in one gap (repaired defect: only the first block comment was skipped)
		var sb strings.Builder
		n := 2 + r.Intn(3)
		lineEnd := g.LineEnd && r.Chance(40)
		for k := 0; k < n; k++ {
			if k == n-1 && lineEnd {
				sb.WriteString(c20LineComment(r)) // block comments, then a line comment up to the line end
				break
			}
			sb.WriteString(c20Block(r, r.Chance(15)))
			if r.Bool() {
				sb.WriteString(c20Blanks(r))
			}
		}
		s := sb.String()
		if lineEnd { // nothing may follow the line comment on its line
			if r.Bool() {
				s = c20Blanks(r) + s
			}
			return c20Ins{g.Off, s, kind}, true
		}
		return c20Ins{g.Off, pad(s), kind}, true
	}
	return c20Ins{}, false
}

var c20Kinds = []string{"blanks", "blanks", "block", "block", "block-multiline", "comments", "comments", "linecomment", "linecomment", "commentline", "blankline", "break", "break"}

// ---------------------------------------------------------------- extra statements (maps, sets, pipes, attributes)

func c20Extra(r *RNG, p *N) *N {
	q := cloneN(p)
	lit := func() *N { return nInt(int64(r.Intn(20))) }
	var extra []*N
	k := r.Intn(4)
	for i := 0; i < k; i++ {
		name := fmt.Sprintf("zz%d", i)
		switch r.Intn(7) {
		case 0:
			extra = append(extra, nVar(name, n("map", nStr("a"), lit())))
		case 1:
			extra = append(extra, nVar(name, n("map", nStr("a"), lit(), nStr("b"), n("list", lit(), lit()), nStr("c"), nInfix("+", lit(), lit()))))
		case 2:
			extra = append(extra, nVar(name, n("set", lit(), lit(), nInfix("*", lit(), lit()))))
		case 3:
			extra = append(extra, nVar(name, n("pipe", n("list", lit(), lit(), lit()), nId("len"))))
		case 4:
			extra = append(extra, nVar(name, n("pipe", nStr("ab c"), nId("strings.to_upper"), nId("len"))))
		case 5:
			extra = append(extra, nVar(name, nCall(nId("math.max"), lit(), nInfix("-", lit(), lit()))))
		case 6:
			extra = append(extra, nVar(name, n("index", n("map", nStr("k"), n("list", lit(), lit())), nStr("k"))))
		}
	}
	if len(extra) == 0 {
		return q
	}
	last := q.C[len(q.C)-1]
	q.C = append(append(append([]*N{}, q.C[:len(q.C)-1]...), extra...), last)
	return q
}

func c20_hasBigMap(p *N) bool {
	found := false
	Walk(p, func(x *N, _ []*N) {
		if x.K == "map" && len(x.C) >= 4 {
			found = true
		}
	}, nil)
	return found
}

func c20NonTrivial(p *N) bool {
	forms := map[string]bool{}
	for _, s := range p.C {
		forms[s.K] = true
	}
	depth := 0
	var rec func(x *N, d int)
	rec = func(x *N, d int) {
		if x.K == "block" {
			d++
			if d > depth {
				depth = d
			}
		}
		for _, c := range x.C {
			rec(c, d)
		}
	}
	rec(p, 0)
	return len(forms) >= 3 || depth >= 3
}

// ---------------------------------------------------------------- the layout stream

func c20Layout(e *Env, r *RNG, p *N, src string, id string, perGap bool, nMix int) {
	base := c20Observe(src, true)
	if base.PErr != nil || base.Panic != "" {
		e.R.H("layout_base", "generated program does not parse")
		e.R.Note("generated program does not parse (%s): %v %s\n%s", id, base.PErr, base.Panic, src)
		return
	}
	if base.CErr != nil {
		e.R.H("layout_base", "does not compile: "+ErrClass(base.CErr.Error()))
	} else {
		e.R.H("layout_base", "parses and compiles")
	}
	unstable := c20_hasBigMap(p)
	if !unstable && base.CErr == nil {
		// belt and braces: the compiler must be deterministic on this program for bytecode comparison
		if again := c20Observe(src, true); again.Code != base.Code {
			unstable = true
			e.R.H("layout_base", "bytecode differs between two compilations of the same text (map order, C05): bytecode not compared")
		}
	}
	nt := c20NonTrivial(p)
	toks, _, _, died := c20LexD(src)
	if died != "" { // it parsed a moment ago: the lexer is not deterministic on this text
		c20DeathSpec(e, src, "the real lexer does not return on a program that parses ("+died+") | "+id)
		return
	}
	gaps := c20Gaps(toks)
	runes := []rune(src)
	for k := range Kinds(p) {
		e.R.H("constructs", k)
	}
	e.R.H("tokens_per_program", fmt.Sprintf("%03d-%03d", len(toks)/25*25, len(toks)/25*25+24))

	type variant struct {
		ins  []c20Ins
		crlf bool
		tag  string
	}
	var vs []variant
	if perGap { // one insertion at every token gap
		for _, g := range gaps {
			for try := 0; try < 4; try++ {
				kind := Pick(r, c20Kinds)
				if in, ok := c20Insertion(r, g, kind); ok {
					vs = append(vs, variant{[]c20Ins{in}, r.Chance(10), "single:" + in.Kind})
					break
				}
			}
			if g.Break { // every permitted break position on its own
				in, _ := c20Insertion(r, g, "break")
				vs = append(vs, variant{[]c20Ins{in}, false, "single:" + in.Kind})
			}
			if g.LineEnd && r.Chance(50) { // line ends on their own: a line comment there
				in, _ := c20Insertion(r, g, "linecomment")
				vs = append(vs, variant{[]c20Ins{in}, r.Chance(10), "single:" + in.Kind})
			}
		}
	}
	vs = append(vs, variant{nil, true, "crlf"})
	for m := 0; m < nMix; m++ { // insertions at many gaps at once
		pct := 10 + r.Intn(80)
		var ins []c20Ins
		kinds := c20Kinds
		switch r.Intn(6) {
		case 0:
			kinds = []string{"blanks"}
		case 1:
			kinds = []string{"block", "block-multiline", "comments"}
		case 2:
			kinds = []string{"break", "blankline", "linecomment", "commentline"}
		case 3:
			kinds = []string{"linecomment", "commentline", "linecomment", "blanks"}
		}
		for _, g := range gaps {
			if r.Chance(pct) {
				if in, ok := c20Insertion(r, g, Pick(r, kinds)); ok {
					ins = append(ins, in)
				}
			}
		}
		vs = append(vs, variant{ins, r.Chance(30), "mix"})
	}
	// several comments in one gap, a few times per program (the repaired defect)
	for m := 0; m < 2; m++ {
		g := Pick(r, gaps)
		in, _ := c20Insertion(r, g, "comments")
		vs = append(vs, variant{[]c20Ins{in}, r.Chance(10), "comments"})
	}

	srcs := make([]string, len(vs))
	for i, v := range vs {
		srcs[i] = c20Apply(runes, append([]c20Ins{}, v.ins...), v.crlf)
	}
	c20LexCheck(e, srcs, "layout variant")
	for i, v := range vs {
		vsrc := srcs[i]
		e.R.Case(vsrc, nt && vsrc != src)
		e.R.H("variant", v.tag)
		for _, in := range v.ins {
			e.R.H("insertion", in.Kind)
			e.R.H("gap(prev-token next-token)", c20_gapClass(in, gaps))
		}
		if v.crlf {
			e.R.H("insertion", "crlf")
		}
		o := c20Observe(vsrc, base.CErr == nil && !unstable)
		bad := ""
		switch {
		case o.Hang:
			// the original parsed (and compiled): a layout variant of it on which the parser or
			// compiler no longer returns has changed its meaning as much as a text can
			bad = "variant: " + o.Panic
		case o.Panic != "":
			bad = "variant panics: " + o.Panic
		case o.PErr != nil:
			bad = "variant does not parse: " + o.PErr.Error()
		case o.AST != base.AST:
			bad = "syntax tree differs:\n" + o.AST + "\n-- original:\n" + base.AST
		case base.CErr == nil && !unstable && o.CErr != nil:
			bad = "variant does not compile: " + o.CErr.Error()
		case base.CErr == nil && !unstable && o.Code != base.Code:
			bad = "bytecode differs"
		}
		if bad == "" {
			e.R.H("layout_verdict", "same tree and bytecode")
			continue
		}
		e.R.H("layout_verdict", "DIFFERENT")
		detail := fmt.Sprintf("%s | insertions: %v | original program (%s):\n%s", bad, c20_describeIns(v.ins, v.crlf), id, src)
		if o.Hang {
			c20DeathSpec(e, vsrc, detail)
			continue
		}
		e.R.Spec(vsrc, detail, "")
	}
}

func c20_describeIns(ins []c20Ins, crlf bool) string {
	var parts []string
	for _, in := range ins {
		parts = append(parts, fmt.Sprintf("%s@%d:%q", in.Kind, in.Off, in.Text))
	}
	if crlf {
		parts = append(parts, "crlf")
	}
	return strings.Join(parts, " ")
}

func c20_gapClass(in c20Ins, gaps []c20Gap) string {
	for _, g := range gaps {
		if g.Off == in.Off {
			return c20_tokClass(g.Prev) + " " + c20_tokClass(g.Next)
		}
	}
	return "?"
}

func c20_tokClass(t string) string {
	switch token.Type(t) {
	case "":
		return "<start>"
	case token.IDENT, token.INT, token.FLOAT, token.STRING, token.FSTRING, token.BACKTICK, token.NEWLINE, token.EOF:
		return t
	}
	if len(t) > 0 && (t[0] >= 'A' && t[0] <= 'Z' || t[0] >= 'a' && t[0] <= 'z') {
		return "keyword"
	}
	switch t {
	case "(", ")", "[", "]", "{", "}":
		return "bracket"
	case ",", ";", ":", ".":
		return "punct"
	}
	return "operator"
}

// ---------------------------------------------------------------- the diagnostics stream

var c20Vocab = []string{
	"+", "-", "*", "/", "%", "**", "==", "!=", "<", "<=", ">", ">=", "<<", ">>", "&", "&&", "|", "||", "!", "=", ":=", "+=", "-=", "*=", "/=",
	"++", "--", "<-", "?", ":", ";", ",", ".", "(", ")", "[", "]", "{", "}", "\n",
	"as", "break", "case", "const", "continue", "default", "defer", "else", "false", "for", "from", "func", "go", "if", "import", "in", "nil",
	"not", "range", "return", "struct", "switch", "true", "var",
	"x", "f", "len", "0", "7", "1.5", "0x1f", "\"s\"", "'t'", "'t{x}'", "'t{x +}'", "`r`", "`a\nb`", "`a\n\nlonger line b`",
}

type c20Mut struct {
	Op   string
	I    int
	Text string
}

func c20MutApply(runes []rune, toks []token.Token, m c20Mut) string {
	t := toks[m.I]
	s, eEnd := t.StartPosition.Char, t.EndPosition.Char+1
	if t.Type == token.EOF {
		s, eEnd = len(runes), len(runes)
	}
	if s > len(runes) {
		s = len(runes)
	}
	if eEnd > len(runes) {
		eEnd = len(runes)
	}
	switch m.Op {
	case "delete":
		return string(runes[:s]) + string(runes[eEnd:])
	case "insert":
		return string(runes[:s]) + m.Text + " " + string(runes[s:])
	default: // substitute
		return string(runes[:s]) + m.Text + string(runes[eEnd:])
	}
}

func c20_msgClass(msg string) string {
	msg = regexp.MustCompile(`"[^"]*"|'[^']*'`).ReplaceAllString(msg, "…")
	msg = regexp.MustCompile(`\(got [^)]*\)`).ReplaceAllString(msg, "(got …)")
	msg = regexp.MustCompile(`unexpected \S+ while`).ReplaceAllString(msg, "unexpected … while")
	msg = regexp.MustCompile(`\(expected \S+\)`).ReplaceAllString(msg, "(expected …)")
	if i := strings.Index(msg, "\n"); i >= 0 {
		msg = msg[:i]
	}
	if len(msg) > 70 {
		msg = msg[:70]
	}
	return msg
}

var c20_reUndefined = regexp.MustCompile(`undefined variable "([^"]+)"`)

// c20_errInTemplateFragment: the compile error names a variable that occurs inside the `{…}` of a
// single-quoted template string of the text (the guard of C20-template-fragment-error-position)
func c20_errInTemplateFragment(src, msg string) bool {
	m := c20_reUndefined.FindStringSubmatch(msg)
	if m == nil {
		return false
	}
	re, err := regexp.Compile(`'[^'\n]*\{[^}'\n]*\b` + regexp.QuoteMeta(m[1]) + `\b[^}'\n]*\}[^'\n]*'`)
	return err == nil && re.MatchString(src)
}

func c20_splitLinesRunes(src string) [][]rune {
	var out [][]rune
	for _, l := range strings.Split(src, "\n") {
		out = append(out, []rune(l))
	}
	return out
}

// c20Diag checks one source that may fail to parse/compile. spec=false: only Impl vs real.
func c20Diag(e *Env, src string, label string, spec bool, agreeLex bool) {
	w, ok := c20Call("diag", src)
	if !ok {
		e.R.H("diag_outcome", "parser does not return: child killed (C03's subject)")
		e.R.Note("the real parser/compiler did not return on %q (%s)", src, label)
		return
	}
	switch w.Kind {
	case "panic":
		e.R.H("diag_outcome", "parse panics (C03's subject)")
		return
	case "valid":
		e.R.H("diag_outcome", "still valid")
		return
	}
	nRunes := len([]rune(src))
	lines := c20_splitLinesRunes(src)
	if w.Kind == "compile" {
		msg := w.Msg
		if strings.HasPrefix(msg, "PANIC") {
			e.R.H("diag_outcome", "compile panics (C03's subject)")
			return
		}
		e.R.H("diag_outcome", "compile error")
		e.R.H("compile_error", c20_msgClass(msg))
		if !spec {
			return
		}
		m := c20_reLineCol.FindStringSubmatch(msg)
		if m == nil {
			e.R.H("diag_verdict", "compile error without line/column")
			e.R.Spec(src, "compile error reports no line and column: "+msg+" | "+label, c20_fNoPos)
			return
		}
		var ln, col int
		fmt.Sscanf(m[1], "%d", &ln)
		fmt.Sscanf(m[2], "%d", &col)
		if ln < 1 || ln > len(lines) || col < 1 || col-1 > len(lines[ln-1]) {
			e.R.H("diag_verdict", "compile error position outside the text")
			finding := ""
			if c20_errInTemplateFragment(src, msg) {
				// the error was raised while compiling the expression of a template fragment,
				// which is parsed and compiled as a text of its own: the position is relative
				// to the fragment (recorded finding)
				finding = c20_fFragPos
			}
			e.R.Spec(src, fmt.Sprintf("compile error position line %d column %d does not exist in the text: %s | %s", ln, col, msg, label), finding)
			return
		}
		e.R.H("diag_verdict", "compile error position exists (compile errors carry no source line)")
		return
	}
	e.R.H("diag_outcome", "parser error")
	e.R.H("parser_error", c20_msgClass(w.Msg))
	type pos struct{ Char, Line, Column int }
	sp, ep := pos{w.SChar, w.SLine, w.SCol}, pos{w.EChar, w.ELine, w.ECol}
	friendlyPanic, friendly := w.FriendlyPanic, w.Friendly
	// Impl: Lean posAt / getLineText / renderOk on the error's offsets
	// the anchor token is EOF iff its end offset is at/after the end of the text (its recorded
	// start may be stale: the start of a block comment skipped just before it)
	// Lexer errors ("syntax error: …") are anchored at the string token being read or at the zero
	// token, never at EOF, even when that token ends at the end of the text.
	eof := "0"
	if ep.Char >= nRunes && !strings.HasPrefix(w.Msg, "syntax error") {
		eof = "1"
	}
	rep := e.O.Ask("C20", "diag", Hex(src), fmt.Sprint(sp.Char), fmt.Sprint(ep.Char), eof)
	f := strings.Split(rep, "\t")
	goRow := fmt.Sprintf("%s\t%d\t%d\t%d\t%v", Hex(w.SourceCode), sp.Line, sp.Column, ep.Column, friendlyPanic == "")
	// the caret line of the real message ("pad:carets"; "P" when the call panicked) against the
	// two Repeat counts of the model
	if sp.Line != ep.Line {
		e.R.H("diag_span", "leaves its line (carets run to the end of the quoted line)")
	} else {
		e.R.H("diag_span", "within one line")
	}
	goCarets := "P"
	if friendlyPanic == "" {
		goCarets = c03_friendlyCarets(friendly)
	}
	goRow += "\t" + goCarets
	implOK := len(f) == 8 && strings.Join(f[:5], "\t")+"\t"+f[7] == goRow
	if !implOK {
		e.R.H("diag_corr", "MISMATCH")
		e.R.Mismatch(fmt.Sprintf("diag %q start=%d end=%d eof=%s", src, sp.Char, ep.Char, eof), goRow, rep, "quoted line, line, column, end column, FriendlyErrorMessage returns, blanks:carets of its last line: real parser error vs Lean getLineText/posAt/renderOk/padCount/caretCount")
	} else {
		e.R.H("diag_corr", "agree")
	}
	if !spec {
		if friendlyPanic != "" {
			// since the repair of C20-multiline-span-render-panic no span may make the
			// rendering panic (Lean: render_total): an unlisted violation on every stream
			e.R.H("soup_render", "panics (model agrees: "+fmt.Sprint(implOK)+")")
			e.R.Spec(src, "FriendlyErrorMessage panics: "+friendlyPanic+" | error: "+w.Msg+" | "+label, "")
		}
		return
	}
	// Spec on the real results
	var bad []string
	lineOK := sp.Line >= 0 && sp.Line < len(lines)
	if !lineOK {
		bad = append(bad, fmt.Sprintf("line %d does not exist (%d lines)", sp.Line+1, len(lines)))
	} else {
		if sp.Column < 0 || sp.Column > len(lines[sp.Line]) {
			bad = append(bad, fmt.Sprintf("column %d does not exist in line %d (%d runes)", sp.Column+1, sp.Line+1, len(lines[sp.Line])))
		}
		if w.SourceCode != string(lines[sp.Line]) {
			bad = append(bad, fmt.Sprintf("quoted text %q is not line %d (%q)", w.SourceCode, sp.Line+1, string(lines[sp.Line])))
		}
	}
	if friendlyPanic != "" {
		bad = append(bad, "FriendlyErrorMessage panics: "+friendlyPanic)
	} else if !strings.Contains(friendly, fmt.Sprintf("line %d, column %d", sp.Line+1, sp.Column+1)) {
		bad = append(bad, "rendered message does not contain the position")
	}
	if len(bad) == 0 {
		e.R.H("diag_verdict", "position exists, line quoted verbatim, message renders")
		return
	}
	e.R.H("diag_verdict", "VIOLATION")
	finding := ""
	if implOK && agreeLex {
		onlyQuote := friendlyPanic == "" && len(bad) == 1 && strings.HasPrefix(bad[0], "quoted text")
		onlyCol := friendlyPanic == "" && len(bad) == 1 && strings.HasPrefix(bad[0], "column ")
		switch {
		case onlyCol && sp.Char == nRunes+1 && f[5] == "false":
			finding = c20_fEOF2
		case onlyQuote && eof == "1" && nRunes > 0 && []rune(src)[nRunes-1] == '\n' && f[5] == "false":
			finding = c20_fEOFLine
		}
	}
	e.R.Spec(src, strings.Join(bad, "; ")+" | error: "+w.Msg+" | "+label, finding)
}

func c20Mutations(e *Env, r *RNG, p *N, src string, id string, n int) {
	toks, _, lerr := c20Lex(src)
	if lerr != nil || len(toks) < 2 {
		return
	}
	runes := []rune(src)
	nt := c20NonTrivial(p)
	var own []string
	for _, t := range toks {
		if t.Type != token.EOF && t.EndPosition.Char < len(runes) {
			own = append(own, string(runes[t.StartPosition.Char:t.EndPosition.Char+1]))
		}
	}
	var srcs, labels []string
	for k := 0; k < n; k++ {
		m := c20Mut{I: r.Intn(len(toks))}
		switch r.Intn(3) {
		case 0:
			m.Op = "delete"
			if toks[m.I].Type == token.EOF {
				m.I = r.Intn(len(toks) - 1)
			}
		case 1:
			m.Op = "insert"
		default:
			m.Op = "substitute"
			if toks[m.I].Type == token.EOF {
				m.I = r.Intn(len(toks) - 1)
			}
		}
		if m.Op != "delete" {
			if r.Chance(35) && len(own) > 0 {
				m.Text = Pick(r, own)
			} else {
				m.Text = Pick(r, c20Vocab)
			}
		}
		e.R.H("mutation", m.Op)
		e.R.H("mutated_token", c20_tokClass(string(toks[m.I].Type)))
		ms := c20MutApply(runes, toks, m)
		srcs = append(srcs, ms)
		labels = append(labels, fmt.Sprintf("%s token #%d (%s) %q of %s", m.Op, m.I, toks[m.I].Type, m.Text, id))
		// the same faulty text with CRLF line ends: a diagnostic must still name the line and
		// column of the text as an editor counts them (one line per CRLF)
		if strings.Contains(ms, "\n") && !strings.Contains(ms, "\r") && r.Chance(40) {
			e.R.H("mutation", "crlf twin")
			srcs = append(srcs, strings.ReplaceAll(ms, "\n", "\r\n"))
			labels = append(labels, "CRLF twin of: "+labels[len(labels)-1])
		}
		// the same faulty text with a line comment (multi-byte text) at the end of one of its
		// lines: the diagnostic must still name a line and column of THIS text and quote that line
		// verbatim (the comment included when the error is on the commented line)
		if strings.Contains(ms, "\n") && r.Chance(30) {
			rs := []rune(ms)
			var nls []int
			for k, c := range rs {
				if c == '\n' {
					nls = append(nls, k)
				}
			}
			at := Pick(r, nls)
			cm := c20LineComment(r)
			if r.Chance(70) {
				cm = Pick(r, []string{" # ", "# ", " // ", "//"}) + c20CommentBodies[16+r.Intn(len(c20CommentBodies)-16)]
			}
			e.R.H("mutation", "commented twin")
			srcs = append(srcs, string(rs[:at])+cm+string(rs[at:]))
			labels = append(labels, fmt.Sprintf("line comment %q before the newline at offset %d of: %s", cm, at, labels[len(labels)-1]))
		}
	}
	agree := c20LexCheck(e, srcs, "mutated program")
	for i, s := range srcs {
		e.R.Case(s, nt)
		c20Diag(e, s, labels[i], true, agree[i])
	}
}

// ---------------------------------------------------------------- lexeme soup (lexer model only)

var c20Lexemes = []string{
	"x", "foo_1", "_", "as", "if", "func", "nil", "true", "é", "aé1", "a→", "→",
	"0", "7", "42", "007", "08", "0x1F", "0xg", "0x", "0X1", "0x1x2", "1.5", "0.5", "00.5", "1.", "1.x", "1.2.3", "12ab", "1e5", "9é", "1.5é", "0x1.5",
	"\"\"", "\"a b\"", "\"a\\n\\t\\\\\\\"\"", "\"\\x41\\u00e9\\U0001F600\\101\\e\"", "\"\\xZZ\"", "\"\\8\"", "\"\\U80000000\"", "\"\\Uffffffff\"", "\"\\ud800\"", "\"\\377\\400\"",
	"\"abc", "\"ab\\", "\"\\x4", "'t{x}'", "'a\\'b'", "'\\\"'", "\"\\'\"", "'unterminated", "`raw\\n`", "`a\nb`", "`open", "\"é→😀\"", "`é`",
	"+", "++", "+=", "-", "--", "-=", "*", "**", "*=", "/", "/=", "%", "<", "<<", "<=", "<-", ">", ">>", ">=", "=", "==", "!", "!=", "&", "&&", "|", "||", ":", ":=",
	";", "?", "(", ")", ",", ".", "{", "}", "[", "]", "\n", "\r\n", "\r", "~", "@", "$", "^", "\\",
	"// c", "# c", "/* c */", "/**/", "/*/", "/* a\nb */", "/* open", "/* a */ /* b */", "/* a */ // b", "/* a */# b", "/***/", "/* * / */",
	"/*/ a */", "/*/*/", "/*//*/", "/* a *//* b */", "/*/**/ /*#*/",
	// non-ASCII runes outside strings: identifiers over Unicode letters and digits, runes that are
	// neither (refused), what may and may not follow a number (unicode.IsLetter / IsNumber), and
	// comments with multi-byte text up to a line end
	"größe", "λ", "名前", "x٣", "٣", "𝑥", "_ß", "é_1", "ifé", "é.é", "½", "9½", "9٣", "9→", "1.5½", "1.5→", "0x1fé", "07é", "×", "😀", "a😀",
	"# é→\n", "// café\n", "# 日本語", "/* é */", "/* → */ // ü\n", "\"é\" # é\n", "é # é\n",
}

func c20Soup(e *Env, r *RNG, n int) {
	var srcs []string
	for i := 0; i < n; i++ {
		k := 1 + r.Intn(9)
		var sb strings.Builder
		for j := 0; j < k; j++ {
			sb.WriteString(Pick(r, c20Lexemes))
			switch r.Intn(6) {
			case 0: // abutting
			case 1:
				sb.WriteString("\t")
			case 2:
				sb.WriteString("\n")
			default:
				sb.WriteString(" ")
			}
		}
		srcs = append(srcs, sb.String())
	}
	c20LexCheck(e, srcs, "lexeme soup")
	for _, s := range srcs {
		e.R.Case(s, strings.ContainsAny(s, " \t\n"))
		e.R.H("soup", "sequences")
		c20Diag(e, s, "lexeme soup", false, true)
	}
}

// ---------------------------------------------------------------- directed cases (recorded and repaired defects + fixed layouts)

func c20Directed(e *Env) {
	// layout pairs: (original, variant) that must parse alike
	pairs := [][2]string{
		{"1 + 2", "1 /* a */ + 2"},
		{"1 + 2", "1 +\n2"},
		{"x := [1, 2, 3]\n", "x := [\n1,\n2,\n3,\n]\n"},
		{"x := [1, 2, 3]\n", "x := [1, 2, 3] // c\r\n"},
		{"m := {\"a\": 1}\n", "m := {\n\"a\": 1,\n}\n"},
		{"f(1, 2)\n", "f(\n1,\n2\n)\n"},
		{"[1] | len\n", "[1] |\nlen\n"},
		{"a.b\n", "a.\nb\n"},
	}
	for _, pr := range pairs {
		a, b := c20Observe(pr[0], false), c20Observe(pr[1], false)
		e.R.Case(pr[1], false)
		e.R.H("directed", "layout pair")
		if a.PErr != nil || b.PErr != nil || a.AST != b.AST {
			e.R.Spec(pr[1], fmt.Sprintf("directed layout pair: %q parses to %q (%v), %q parses to %q (%v)", pr[0], a.AST, a.PErr, pr[1], b.AST, b.PErr), "")
		}
	}
	// line comments with multi-byte runes inside them and/or before them (in an identifier, in a
	// string, in an earlier comment): at a statement's end, inside a multi-line list, on lines of
	// their own, first in the file, with CRLF
	for _, pr := range [][2]string{
		{"x := 1\ny := 2\n", "x := 1 # café\ny := 2\n"},
		{"x := 1\ny := 2\n", "x := 1 // é\ny := 2\n"},
		{"x := [\n\t10,\n\t250,\n]\n", "x := [\n\t10, // Höchstwert für Größe\n\t250,\n]\n"},
		{"s := \"é\"\nx := 1\ny := 2\n", "s := \"é\"\nx := 1 // c\ny := 2\n"},
		{"s := \"日本語\"\nx := 1\ny := s\n", "s := \"日本語\" # s\nx := 1 # x\ny := s # y\n"},
		{"größe := 1\nλ := größe + 1\n", "größe := 1 # →\nλ := größe + 1 // 日本語\n"},
		{"x := 1\ny := 2\n", "# é\nx := 1\n  // →→ 😀\ny := 2\n# ü"},
		{"f(1,\n2)\n", "f(1, # ¡uno!\n2)\n"},
		{"x := 1\r\ny := 2\r\n", "x := 1 // naïve\r\ny := 2 # 😀\r\n"},
		{"m := {\"ä\": 1}\nn := m\n", "m := {\"ä\": 1} // ö\nn := m\n"},
	} {
		ag := c20LexCheck(e, []string{pr[0], pr[1]}, "directed")
		_ = ag
		a, b := c20Observe(pr[0], true), c20Observe(pr[1], true)
		e.R.Case(pr[1], false)
		e.R.H("directed", "line comment with/after multi-byte runes")
		if a.PErr != nil || b.PErr != nil || a.Panic != "" || b.Panic != "" || a.AST != b.AST || a.Code != b.Code {
			e.R.Spec(pr[1], fmt.Sprintf("a line comment changes the program: %q parses to %q (%v %s), %q parses to %q (%v %s)%s", pr[0], a.AST, a.PErr, a.Panic, pr[1], b.AST, b.PErr, b.Panic,
				map[bool]string{true: "; the bytecode differs", false: ""}[a.AST == b.AST && a.Code != b.Code]), "")
		}
	}
	c20LexCheck(e, []string{pairs[0][1], pairs[2][1], pairs[3][1]}, "directed")
	// the two repaired block-comment defects of the lexer and their neighbourhood: several
	// comments in one gap, bodies beginning with `/`; a recurrence is an unlisted violation
	a := c20Observe("1 + 2", false)
	for _, v := range []string{
		"1 /* a */ /* b */ + 2",         // was C20-adjacent-comments
		"1 /*/ a */ + 2",                // was C20-block-comment-body-starting-with-slash
		"1 /* a *//* b */\t/* c */ + 2", // three, abutting and separated
		"1 + /* a */ /*/ b */ 2",
		"1 /**/ /***/ /*/*/ + /* /* */ 2",
		"/* a */ /* b */ 1 + 2",       // before the first token
		"1 + 2 /* a */ /* b */",       // after the last token
		"1 + 2 /* a */ // b",          // a block comment, then a line comment up to the end of the text
		"1 + 2 /* a */ /* b */ # c",   // … after two block comments
		"1 /* a\r\n b */ /* c */ + 2", // CRLF inside a comment
	} {
		c20LexCheck(e, []string{v}, "directed")
		b := c20Observe(v, false)
		e.R.Case(v, false)
		e.R.H("directed", "comments in one gap")
		if b.PErr != nil || b.Panic != "" || a.AST != b.AST {
			e.R.Spec(v, fmt.Sprintf("comments between tokens change the parse: `1 + 2` parses to %q but %q gives %q (%v %s)", a.AST, v, b.AST, b.PErr, b.Panic), "")
		}
	}
	// statements: block comments followed by a line comment at a line end, with LF and CRLF
	for _, pr := range [][2]string{
		{"x := 1\ny := 2\n", "x := 1 /* a */ // b\ny := 2 /* c */ /* d */ # e\n"},
		{"x := 1\ny := 2\n", "x := 1 /* a */ /*/ b */ // c\r\ny := /* d */\t/* e */ 2\r\n"},
		{"x := 4 / 2\n", "x := 4 / /* a */ /* b */ 2\n"},   // a `/` that is division next to comments
		{"x := 4 / 2\n", "x := 4 /* a */ /* b */ / 2\n"},
		{"x := 4\nx /= 2\n", "x := 4\nx /* a */ /* b */ /= /*/*/ 2\n"},
	} {
		c20LexCheck(e, []string{pr[1]}, "directed")
		a, b := c20Observe(pr[0], false), c20Observe(pr[1], false)
		e.R.Case(pr[1], false)
		e.R.H("directed", "comments in one gap")
		if a.PErr != nil || b.PErr != nil || a.AST != b.AST {
			e.R.Spec(pr[1], fmt.Sprintf("directed layout pair: %q parses to %q (%v), %q parses to %q (%v)", pr[0], a.AST, a.PErr, pr[1], b.AST, b.PErr), "")
		}
	}
	// unterminated block comments keep their behaviour (model correspondence only)
	c20LexCheck(e, []string{"1 /*", "1 /*/", "1 /* a */ /* b", "1 /* a */ /*/", "1 /* a */ /", "/*", "/**", "/* a */", "/* a */ /* b */\n"}, "directed")
	// the first two: spans that leave their line (a backtick string with a newline; a token
	// whose recorded start is the start of a two-line block comment) — they made
	// FriendlyErrorMessage panic before the repair of C20-multiline-span-render-panic
	for _, s := range []string{"x := `abc\ndef` 1", "       /* a\n */ )", "f(1\n", "x := 1 | (2 | 3)", "x := 1\n("} {
		ag := c20LexCheck(e, []string{s}, "directed")
		e.R.Case(s, false)
		c20Diag(e, s, "directed", true, ag[0])
	}
}

// ---------------------------------------------------------------- driver

func c20_runC20(e *Env) {
	e.R.Rule = "unit = one source text derived from a generated program (C01's generator plus map/set/pipe/attribute statements): " +
		"a layout variant (one insertion at every token gap in turn, CRLF, and mixes of insertions at many gaps) or a single-token " +
		"deletion/insertion/substitution; plus random lexeme sequences for the lexer model; distinct by the text; non-trivial when the " +
		"program has >= 3 statement forms or block depth >= 3 and the text differs from the original (lexeme soup: contains layout); " +
		"plus (c20world.go) texts whose last token is a template string inside a bracket never closed, and worlds = a text, 1..3 other texts lexed after it, " +
		"GetLineText of every token of the first (non-trivial: the text has several lines)"
	nProg, nMixProg, nMut, nSoup := 60, 240, 40, 3000
	if !e.Quick {
		nProg, nMixProg, nMut, nSoup = 750, 8000, 60, 100000
	}
	defer func() {
		if c20W != nil {
			c20W.cmd.Process.Kill()
			c20W.cmd.Wait()
		}
		if r := recover(); r != nil {
			if _, ok := r.(c20AbortRun); !ok {
				panic(r)
			}
		}
	}()
	c20Directed(e)
	rng := e.Rng.Fork()
	gen := func(r *RNG, i int) *N {
		o := GenOpts{MaxStmts: 2 + r.Intn(4), MaxDepth: 1 + r.Intn(3), Budget: 30 + r.Intn(150), Funcs: true, Closures: r.Bool(),
			Containers: true, Strings: true, CtlHeavy: i%3 == 0, NoCtlInSwitch: true}
		return c20Extra(r, GenProgram(r, o))
	}
	for i := 0; i < nProg; i++ { // every gap of every program, and the mutations
		r := rng.Fork()
		p := gen(r, i)
		id := fmt.Sprintf("gen#%d", i)
		src, uni := c20Uni(r, Src(p))
		e.R.H("program_text", uni)
		c20Layout(e, r, p, src, id+" ("+uni+")", true, 6)
		c20Mutations(e, r, p, src, id, nMut)
	}
	for i := 0; i < nMixProg; i++ { // more programs, mixes only
		r := rng.Fork()
		p := gen(r, i)
		id := fmt.Sprintf("mix#%d", i)
		src, uni := c20Uni(r, Src(p))
		e.R.H("program_text", uni)
		c20Layout(e, r, p, src, id+" ("+uni+")", false, 4)
		c20Mutations(e, r, p, src, id, 6)
	}
	c20Soup(e, rng.Fork(), nSoup)
	// parser-level newline invariance on expression trees x layouts (c20nl.go; its own fork of
	// the run's generator, taken last, so the streams above are unchanged)
	c20ParseNL(e, e.Rng.Fork())
	// the lexer/parser bridge (c20bridge.go; again its own fork, taken after everything else)
	c20Bridge(e, e.Rng.Fork())
	// line comments at line ends of texts with multi-byte runes, with positions (c20gap.go; its own
	// fork, taken last)
	c20GapStream(e, e.Rng.Fork())
	// several lexers in one process: quoted lines after other lexers were created, and errors whose
	// last token is a template string (c20world.go; its own fork, taken last)
	c20WorldStream(e, e.Rng.Fork())
	// statement level: statement trees x layouts, real parser vs the statement model of Stmt.lean on
	// the same text (c20stmt.go; its own fork, taken last)
	c20StmtStream(e, e.Rng.Fork())
}
