package main

// C20 — layout and comments never change meaning; diagnostics point into the source.
//
// Three streams, all against the REAL lexer/parser/compiler of /repo:
//   layout  : generated programs x layout variants at every token gap (spaces, tabs, block
//             comments — one or several per gap, bodies beginning with `/` included —, line
//             comments at line ends, also after block comments, blank lines, CRLF, permitted
//             line breaks);
//             Spec = the variant parses to the same Program.String() and compiles to the same
//             bytecode.  Every variant is also lexed by the real lexer and by the Lean lexer
//             model (token type, literal, start/end Char/Line/Column/LineStart) = Impl.
//   diag    : single-token deletions/insertions/substitutions of the same programs; Spec = a
//             parser error's line/column exist in the text, the quoted line is that line
//             verbatim, FriendlyErrorMessage returns; a compile error's line/column exist.
//             Impl = Lean posAt/getLineText/renderOk on the error's start/end offsets.
//   soup    : random lexeme sequences (all number bases, escapes, comments, illegal runes,
//             lone CR, non-ASCII inside strings) for the lexer model only.

import (
	"bufio"
	"context"
	"encoding/json"
	"errors"
	"fmt"
	"io"
	"os"
	"os/exec"
	"regexp"
	"runtime"
	"runtime/debug"
	"sort"
	"strings"
	"time"

	"github.com/risor-io/risor/lexer"
	"github.com/risor-io/risor/parser"
	"github.com/risor-io/risor/token"
)

func init() { commands["C20"] = c20_runC20 }

// The two block-comment defects of the lexer (C20-adjacent-comments,
// C20-block-comment-body-starting-with-slash) are repaired: no case is attributed to them any
// more, a recurrence is an unlisted violation (and a lexer-model mismatch).
const (
	c20_fEOFLine = "C20-eof-quotes-previous-line"
	c20_fNoPos   = "C20-compile-error-without-position"
	c20_fEOF2    = "C20-error-at-second-eof-column"
)

// ---------------------------------------------------------------- real lexer

type c20Tok struct {
	T      token.Token
	S, E   int // rune offsets: first rune, last rune (inclusive)
	IsTerm bool
}

func c20_posStr(p token.Position) string {
	return fmt.Sprintf("%d,%d,%d,%d", p.Char, p.Line, p.Column, p.LineStart)
}

func c20_lexErrClass(msg string) string {
	switch {
	case strings.HasPrefix(msg, "unterminated string literal"):
		return "unterminated-string"
	case strings.HasPrefix(msg, "invalid escape sequence"):
		return "invalid-escape"
	case strings.HasPrefix(msg, "unterminated escape sequence"):
		return "unterminated-escape"
	case strings.HasPrefix(msg, "illegal character"):
		return "illegal-escape-char"
	case strings.HasPrefix(msg, "escape sequence is not a valid number"):
		return "escape-number"
	case strings.HasPrefix(msg, "invalid identifier"):
		return "invalid-identifier"
	case strings.HasPrefix(msg, "invalid decimal literal"):
		return "invalid-decimal"
	case strings.HasPrefix(msg, "unexpected character"):
		return "unexpected-char"
	}
	return "other:" + msg
}

// c20Lex runs the real lexer to the first EOF or error and renders the stream in the
// oracle's format.
func c20Lex(src string) (toks []token.Token, repr string, lexErr error) {
	defer func() {
		if r := recover(); r != nil {
			repr = fmt.Sprintf("PANIC: %v", r)
		}
	}()
	l := lexer.New(src)
	var parts []string
	limit := len(src) + 5
	for i := 0; i < limit; i++ {
		t, err := l.Next()
		if err != nil {
			cls := c20_lexErrClass(err.Error())
			if t.Type == "" {
				parts = append(parts, "E,"+cls)
			} else {
				parts = append(parts, "E,"+cls+","+Hex(string(t.Type))+","+Hex(t.Literal)+","+c20_posStr(t.StartPosition)+","+c20_posStr(t.EndPosition))
			}
			lexErr = err
			break
		}
		toks = append(toks, t)
		parts = append(parts, Hex(string(t.Type))+","+Hex(t.Literal)+","+c20_posStr(t.StartPosition)+","+c20_posStr(t.EndPosition))
		if t.Type == token.EOF {
			break
		}
	}
	return toks, "ok\t" + strings.Join(parts, ";"), lexErr
}

// c20LexCheck compares the real lexer with the Lean lexer model on a batch of sources.
func c20LexCheck(e *Env, srcs []string, what string) (agree []bool) {
	reqs := make([]string, len(srcs))
	gos := make([]string, len(srcs))
	for i, s := range srcs {
		_, gos[i], _ = c20Lex(s)
		reqs[i] = "C20\tlex\t" + Hex(s)
	}
	reps := e.O.AskBatch(reqs)
	agree = make([]bool, len(srcs))
	for i := range srcs {
		switch {
		case reps[i] == "unsupported":
			e.R.H("lex_corr", "model-unsupported(non-ASCII outside strings)")
			agree[i] = false
		case reps[i] == gos[i]:
			e.R.H("lex_corr", "agree")
			agree[i] = true
		default:
			e.R.H("lex_corr", "MISMATCH")
			e.R.Mismatch(fmt.Sprintf("lex %q", srcs[i]), c20_firstDiff(gos[i], reps[i]), c20_firstDiff(reps[i], gos[i]), what+": token stream of the real lexer vs Lean lexAll")
		}
	}
	return
}

// firstDiff returns the first ';'-separated item of a that differs from b (with its index).
func c20_firstDiff(a, b string) string {
	as, bs := strings.Split(a, ";"), strings.Split(b, ";")
	for i := range as {
		if i >= len(bs) || as[i] != bs[i] {
			return fmt.Sprintf("#%d %s", i, as[i])
		}
	}
	if len(bs) > len(as) {
		return fmt.Sprintf("#%d <end>", len(as))
	}
	return a
}

// ---------------------------------------------------------------- parse / compile observations

type c20Obs struct {
	AST   string // canonical Program.String()
	Code  string // bytecode text of every code object
	PErr  error
	CErr  error
	Panic string
	Hang  bool
}

// Everything that calls the real parser/compiler runs in a child process: on some malformed
// inputs the parser never returns and allocates without bound (e.g. `switch x { case *=, 1: }`,
// C03's subject), which no recover() can stop.
type c20Wire struct {
	AST, Code, PErr, CErr, Panic string
	// diag
	Kind                    string // valid | parser | compile | panic
	Msg                     string
	SChar, SLine, SCol      int
	EChar, ELine, ECol      int
	SourceCode              string
	Friendly, FriendlyPanic string
}

type c20Worker struct {
	cmd *exec.Cmd
	in  *bufio.Writer
	out *bufio.Reader
}

var c20W *c20Worker

func c20StartWorker() *c20Worker {
	cmd := exec.Command(os.Args[0], "c20-worker")
	stdin, _ := cmd.StdinPipe()
	stdout, _ := cmd.StdoutPipe()
	cmd.Stderr = io.Discard
	cmd.Env = append(os.Environ(), "GOMEMLIMIT=1GiB")
	if err := cmd.Start(); err != nil {
		panic(err)
	}
	return &c20Worker{cmd: cmd, in: bufio.NewWriter(stdin), out: bufio.NewReaderSize(stdout, 1<<20)}
}

// c20Call sends one request to the worker; ok=false when it did not answer (killed and restarted).
func c20Call(mode, src string) (w c20Wire, ok bool) {
	if c20W == nil {
		c20W = c20StartWorker()
	}
	c20W.in.WriteString(mode + "\t" + Hex(src) + "\n")
	c20W.in.Flush()
	type res struct {
		line string
		err  error
	}
	ch := make(chan res, 1)
	wk := c20W
	go func() {
		line, err := wk.out.ReadString('\n')
		ch <- res{line, err}
	}()
	select {
	case r := <-ch:
		if r.err == nil && json.Unmarshal([]byte(r.line), &w) == nil {
			return w, true
		}
	case <-time.After(20 * time.Second):
	}
	wk.cmd.Process.Kill()
	wk.cmd.Wait()
	c20W = nil
	return w, false
}

func init() {
	childCommands["c20-worker"] = func(args []string) {
		debug.SetMemoryLimit(1 << 30)
		go func() { // a parse that allocates without bound must not take the machine down
			for {
				time.Sleep(20 * time.Millisecond)
				var ms runtime.MemStats
				runtime.ReadMemStats(&ms)
				if ms.HeapAlloc > 500<<20 {
					os.Exit(3)
				}
			}
		}()
		in := bufio.NewReaderSize(os.Stdin, 1<<20)
		out := bufio.NewWriter(os.Stdout)
		for {
			line, err := in.ReadString('\n')
			if err != nil {
				return
			}
			f := strings.Split(strings.TrimRight(line, "\n"), "\t")
			var w c20Wire
			if len(f) == 2 {
				src := UnHex(f[1])
				switch f[0] {
				case "obs1", "obs2":
					o := c20ObserveLocal(src, f[0] == "obs2")
					w.AST, w.Code, w.Panic = o.AST, o.Code, o.Panic
					if o.PErr != nil {
						w.PErr = o.PErr.Error()
					}
					if o.CErr != nil {
						w.CErr = o.CErr.Error()
					}
				case "diag":
					w = c20DiagLocal(src)
				}
			}
			b, _ := json.Marshal(w)
			out.Write(b)
			out.WriteByte('\n')
			out.Flush()
		}
	}
}

func c20Observe(src string, compile bool) (o c20Obs) {
	mode := "obs1"
	if compile {
		mode = "obs2"
	}
	w, ok := c20Call(mode, src)
	if !ok {
		o.Hang = true
		o.Panic = "the parser/compiler did not return (child process killed)"
		return
	}
	o.AST, o.Code, o.Panic = w.AST, w.Code, w.Panic
	if w.PErr != "" {
		o.PErr = errors.New(w.PErr)
	}
	if w.CErr != "" {
		o.CErr = errors.New(w.CErr)
	}
	return
}

func c20DiagLocal(src string) (w c20Wire) {
	defer func() {
		if r := recover(); r != nil {
			w.Kind = "panic"
			w.Panic = fmt.Sprintf("%v", r)
		}
	}()
	_, err := parser.Parse(context.Background(), src)
	if err != nil {
		pe, ok := err.(parser.ParserError)
		if !ok {
			w.Kind = "valid"
			return
		}
		w.Kind = "parser"
		w.Msg = pe.Error()
		sp, ep := pe.StartPosition(), pe.EndPosition()
		w.SChar, w.SLine, w.SCol = sp.Char, sp.Line, sp.Column
		w.EChar, w.ELine, w.ECol = ep.Char, ep.Line, ep.Column
		w.SourceCode = pe.SourceCode()
		func() {
			defer func() {
				if r := recover(); r != nil {
					w.FriendlyPanic = fmt.Sprintf("%v", r)
				}
			}()
			w.Friendly = pe.FriendlyErrorMessage()
		}()
		return
	}
	_, cerr := CompileSrc(src)
	if cerr != nil {
		w.Kind = "compile"
		w.Msg = cerr.Error()
		return
	}
	w.Kind = "valid"
	return
}

var c20_reLineCol = regexp.MustCompile(`line (\d+), column (\d+)`)

// canonBraces sorts the top-level ", "-separated parts inside every {...} group: ast.Map.String
// ranges over a Go map, so the order of the pairs differs from call to call (C05's subject).
func c20_canonBraces(s string) string {
	r := []rune(s)
	var rec func(i int) (string, int)
	rec = func(i int) (string, int) { // parses until the matching '}' (or end); returns content and index after it
		var parts []string
		var cur strings.Builder
		for i < len(r) {
			c := r[i]
			switch {
			case c == '{':
				inner, j := rec(i + 1)
				cur.WriteString("{" + inner + "}")
				i = j
				continue
			case c == '}':
				parts = append(parts, cur.String())
				sort.Strings(parts)
				return strings.Join(parts, ", "), i + 1
			case c == ',' && i+1 < len(r) && r[i+1] == ' ':
				parts = append(parts, cur.String())
				cur.Reset()
				i += 2
				continue
			}
			cur.WriteRune(c)
			i++
		}
		parts = append(parts, cur.String())
		return strings.Join(parts, ", "), i
	}
	// top level: do not sort, only descend
	var out strings.Builder
	for i := 0; i < len(r); {
		if r[i] == '{' {
			inner, j := rec(i + 1)
			out.WriteString("{" + inner + "}")
			i = j
			continue
		}
		out.WriteRune(r[i])
		i++
	}
	return out.String()
}

func c20ObserveLocal(src string, compile bool) (o c20Obs) {
	defer func() {
		if r := recover(); r != nil {
			o.Panic = fmt.Sprintf("%v", r)
		}
	}()
	prog, err := parser.Parse(context.Background(), src)
	if err != nil {
		o.PErr = err
		return
	}
	o.AST = c20_canonBraces(prog.String())
	if !compile {
		return
	}
	code, err := CompileSrc(src)
	if err != nil {
		o.CErr = err
		return
	}
	var sb strings.Builder
	for _, cc := range code.Flatten() {
		sb.WriteString(CodeText(cc))
		sb.WriteString(" | ")
		for i := 0; i < cc.ConstantsCount(); i++ {
			sb.WriteString(fmt.Sprintf("%v;", cc.Constant(i)))
		}
		sb.WriteString("\n")
	}
	o.Code = sb.String()
	return
}

// ---------------------------------------------------------------- token gaps of a source

type c20Gap struct {
	Off      int    // rune offset at which text is inserted (start of the token after the gap)
	Prev     string // type of the token before the gap ("" at the beginning)
	Next     string // type of the token after the gap
	LineEnd  bool   // the next token is NEWLINE or EOF: a line comment may be added
	Break    bool   // a line break is permitted here (after the previous token)
	BreakWhy string
}

var c20_infixBreakOps = map[token.Type]bool{
	token.AND: true, token.ASTERISK: true, token.AMPERSAND: true, token.EQ: true, token.GT_EQUALS: true,
	token.GT_GT: true, token.GT: true, token.LT_EQUALS: true, token.LT_LT: true, token.LT: true, token.MINUS: true,
	token.MOD: true, token.NOT_EQ: true, token.OR: true, token.PLUS: true, token.POW: true, token.SLASH: true,
}

func c20_operandEnd(t token.Type) bool {
	switch t {
	case token.IDENT, token.INT, token.FLOAT, token.STRING, token.FSTRING, token.BACKTICK, token.RPAREN, token.RBRACKET,
		token.TRUE, token.FALSE, token.NIL:
		return true
	}
	return false
}

// c20Gaps classifies every token gap of a comment-free source from its real token stream.
// Line breaks are permitted (the parser eats newlines there): after `,` directly inside a list
// literal `[…]`, call arguments `f(…)` or a map/set literal `{…}`; after the opening bracket of
// those and before the closing `]`/`)` of a list/call; after a binary operator handled by
// parseInfixExpr; after a binary `|`; after `.`.
func c20Gaps(toks []token.Token) []c20Gap {
	type br struct {
		kind string // "list" "call" "lit" "other"
	}
	var stack []br
	gaps := make([]c20Gap, 0, len(toks))
	for i, t := range toks {
		g := c20Gap{Off: t.StartPosition.Char, Next: string(t.Type)}
		var prev token.Token
		if i > 0 {
			prev = toks[i-1]
			g.Prev = string(prev.Type)
		}
		g.LineEnd = t.Type == token.NEWLINE || t.Type == token.EOF
		top := ""
		if len(stack) > 0 {
			top = stack[len(stack)-1].kind
		}
		if i > 0 {
			var pp token.Token
			if i > 1 {
				pp = toks[i-2]
			}
			switch {
			case prev.Type == token.COMMA && (top == "list" || top == "call" || top == "lit"):
				g.Break, g.BreakWhy = true, "after , in "+top
			case ((prev.Type == token.LBRACKET && top == "list") || (prev.Type == token.LPAREN && top == "call") || (prev.Type == token.LBRACE && top == "lit")) &&
				t.Type != token.RBRACKET && t.Type != token.RPAREN && t.Type != token.RBRACE:
				g.Break, g.BreakWhy = true, "after opening "+top
			case c20_infixBreakOps[prev.Type] && i > 1 && c20_operandEnd(pp.Type):
				g.Break, g.BreakWhy = true, "after binary operator"
			case prev.Type == token.PIPE && i > 1 && c20_operandEnd(pp.Type):
				g.Break, g.BreakWhy = true, "after |"
			case prev.Type == token.PERIOD:
				g.Break, g.BreakWhy = true, "after ."
			case (t.Type == token.RBRACKET && top == "list") || (t.Type == token.RPAREN && top == "call"):
				if prev.Type != token.LBRACKET && prev.Type != token.LPAREN {
					g.Break, g.BreakWhy = true, "before closing "+top
				}
			}
		}
		gaps = append(gaps, g)
		// maintain the bracket stack with the token itself
		switch t.Type {
		case token.LBRACKET:
			if i > 0 && (c20_operandEnd(prev.Type) || prev.Type == token.RBRACE) {
				stack = append(stack, br{"other"}) // index / slice
			} else {
				stack = append(stack, br{"list"})
			}
		case token.LPAREN:
			isParams := i > 0 && (prev.Type == token.FUNC || (prev.Type == token.IDENT && i > 1 && toks[i-2].Type == token.FUNC))
			if !isParams && i > 0 && (c20_operandEnd(prev.Type) || prev.Type == token.RBRACE) {
				stack = append(stack, br{"call"})
			} else {
				stack = append(stack, br{"other"}) // parameters or grouping
			}
		case token.LBRACE:
			isBlock := i+1 < len(toks) && (toks[i+1].Type == token.NEWLINE || toks[i+1].Type == token.RBRACE)
			// `{ }` is the generator's empty block; an empty map literal is never generated
			if isBlock {
				stack = append(stack, br{"other"})
			} else {
				stack = append(stack, br{"lit"})
			}
		case token.RBRACKET, token.RPAREN, token.RBRACE:
			if len(stack) > 0 {
				stack = stack[:len(stack)-1]
			}
		}
	}
	return gaps
}

type c20Ins struct {
	Off  int
	Text string
	Kind string
}

func c20Apply(src []rune, ins []c20Ins, crlf bool) string {
	sort.SliceStable(ins, func(i, j int) bool { return ins[i].Off < ins[j].Off })
	var sb strings.Builder
	k := 0
	for i := 0; i <= len(src); i++ {
		for k < len(ins) && ins[k].Off == i {
			sb.WriteString(ins[k].Text)
			k++
		}
		if i < len(src) {
			sb.WriteRune(src[i])
		}
	}
	s := sb.String()
	if crlf {
		s = strings.ReplaceAll(s, "\n", "\r\n")
	}
	return s
}

var c20CommentBodies = []string{"", " ", "c", " a b ", "x := 1", "**", " * / ", " /", " // ", " # ", "\"", "'", "`", " é→ ", "if {", "\t"}

func c20Blanks(r *RNG) string {
	n := 1 + r.Intn(3)
	var sb strings.Builder
	for i := 0; i < n; i++ {
		if r.Chance(70) {
			sb.WriteByte(' ')
		} else {
			sb.WriteByte('\t')
		}
	}
	return sb.String()
}

func c20_isASCII(s string) bool {
	for _, c := range s {
		if c > 127 {
			return false
		}
	}
	return true
}

func c20Block(r *RNG, multiline bool) string {
	body := Pick(r, c20CommentBodies)
	if multiline {
		body += "\n" + Pick(r, c20CommentBodies)
	}
	if r.Chance(15) {
		body = "/" + body // `/*/` is not a complete comment (repaired defect)
	}
	return "/*" + body + "*/"
}

func c20LineComment(r *RNG) string {
	body := Pick(r, c20CommentBodies)
	if strings.ContainsAny(body, "\n") {
		body = ""
	}
	if r.Bool() {
		return "//" + body
	}
	return "#" + body
}

// one insertion of the given kind at gap g; ok=false when the kind does not apply there
func c20Insertion(r *RNG, g c20Gap, kind string) (c20Ins, bool) {
	pad := func(s string) string {
		if r.Bool() {
			s = c20Blanks(r) + s
		}
		if r.Bool() {
			s += c20Blanks(r)
		}
		return s
	}
	switch kind {
	case "blanks":
		return c20Ins{g.Off, c20Blanks(r), kind}, true
	case "block":
		return c20Ins{g.Off, pad(c20Block(r, false)), kind}, true
	case "block-multiline":
		return c20Ins{g.Off, pad(c20Block(r, true)), kind}, true
	case "linecomment":
		if !g.LineEnd {
			return c20Ins{}, false
		}
		s := c20LineComment(r)
		if r.Bool() {
			s = c20Blanks(r) + s
		}
		return c20Ins{g.Off, s, kind}, true
	case "blankline":
		if g.Next != string(token.NEWLINE) {
			return c20Ins{}, false
		}
		s := "\n"
		if r.Chance(30) {
			s = "\n" + c20Blanks(r)
		}
		if r.Chance(20) {
			s += "\n"
		}
		return c20Ins{g.Off, s, kind}, true
	case "break":
		if !g.Break {
			return c20Ins{}, false
		}
		s := "\n"
		if r.Chance(40) {
			s += c20Blanks(r)
		}
		if r.Chance(15) {
			s = c20Blanks(r) + c20LineComment(r) + s // a line comment at the new line end
		}
		if r.Chance(10) {
			s += "\n" // several newlines are eaten alike
		}
		return c20Ins{g.Off, s, kind + ":" + g.BreakWhy}, true
	case "comments": // several comments in one gap (repaired defect: only the first block comment was skipped)
		var sb strings.Builder
		n := 2 + r.Intn(3)
		lineEnd := g.LineEnd && r.Chance(40)
		for k := 0; k < n; k++ {
			if k == n-1 && lineEnd {
				sb.WriteString(c20LineComment(r)) // block comments, then a line comment up to the line end
				break
			}
			sb.WriteString(c20Block(r, r.Chance(15)))
			if r.Bool() {
				sb.WriteString(c20Blanks(r))
			}
		}
		s := sb.String()
		if lineEnd { // nothing may follow the line comment on its line
			if r.Bool() {
				s = c20Blanks(r) + s
			}
			return c20Ins{g.Off, s, kind}, true
		}
		return c20Ins{g.Off, pad(s), kind}, true
	}
	return c20Ins{}, false
}

var c20Kinds = []string{"blanks", "blanks", "block", "block", "block-multiline", "comments", "comments", "linecomment", "blankline", "break", "break"}

// ---------------------------------------------------------------- extra statements (maps, sets, pipes, attributes)

func c20Extra(r *RNG, p *N) *N {
	q := cloneN(p)
	lit := func() *N { return nInt(int64(r.Intn(20))) }
	var extra []*N
	k := r.Intn(4)
	for i := 0; i < k; i++ {
		name := fmt.Sprintf("zz%d", i)
		switch r.Intn(7) {
		case 0:
			extra = append(extra, nVar(name, n("map", nStr("a"), lit())))
		case 1:
			extra = append(extra, nVar(name, n("map", nStr("a"), lit(), nStr("b"), n("list", lit(), lit()), nStr("c"), nInfix("+", lit(), lit()))))
		case 2:
			extra = append(extra, nVar(name, n("set", lit(), lit(), nInfix("*", lit(), lit()))))
		case 3:
			extra = append(extra, nVar(name, n("pipe", n("list", lit(), lit(), lit()), nId("len"))))
		case 4:
			extra = append(extra, nVar(name, n("pipe", nStr("ab c"), nId("strings.to_upper"), nId("len"))))
		case 5:
			extra = append(extra, nVar(name, nCall(nId("math.max"), lit(), nInfix("-", lit(), lit()))))
		case 6:
			extra = append(extra, nVar(name, n("index", n("map", nStr("k"), n("list", lit(), lit())), nStr("k"))))
		}
	}
	if len(extra) == 0 {
		return q
	}
	last := q.C[len(q.C)-1]
	q.C = append(append(append([]*N{}, q.C[:len(q.C)-1]...), extra...), last)
	return q
}

func c20_hasBigMap(p *N) bool {
	found := false
	Walk(p, func(x *N, _ []*N) {
		if x.K == "map" && len(x.C) >= 4 {
			found = true
		}
	}, nil)
	return found
}

func c20NonTrivial(p *N) bool {
	forms := map[string]bool{}
	for _, s := range p.C {
		forms[s.K] = true
	}
	depth := 0
	var rec func(x *N, d int)
	rec = func(x *N, d int) {
		if x.K == "block" {
			d++
			if d > depth {
				depth = d
			}
		}
		for _, c := range x.C {
			rec(c, d)
		}
	}
	rec(p, 0)
	return len(forms) >= 3 || depth >= 3
}

// ---------------------------------------------------------------- the layout stream

func c20Layout(e *Env, r *RNG, p *N, id string, perGap bool, nMix int) {
	src := Src(p)
	base := c20Observe(src, true)
	if base.PErr != nil || base.Panic != "" {
		e.R.H("layout_base", "generated program does not parse")
		e.R.Note("generated program does not parse (%s): %v %s\n%s", id, base.PErr, base.Panic, src)
		return
	}
	if base.CErr != nil {
		e.R.H("layout_base", "does not compile: "+ErrClass(base.CErr.Error()))
	} else {
		e.R.H("layout_base", "parses and compiles")
	}
	unstable := c20_hasBigMap(p)
	if !unstable && base.CErr == nil {
		// belt and braces: the compiler must be deterministic on this program for bytecode comparison
		if again := c20Observe(src, true); again.Code != base.Code {
			unstable = true
			e.R.H("layout_base", "bytecode differs between two compilations of the same text (map order, C05): bytecode not compared")
		}
	}
	nt := c20NonTrivial(p)
	toks, _, _ := c20Lex(src)
	gaps := c20Gaps(toks)
	runes := []rune(src)
	for k := range Kinds(p) {
		e.R.H("constructs", k)
	}
	e.R.H("tokens_per_program", fmt.Sprintf("%03d-%03d", len(toks)/25*25, len(toks)/25*25+24))

	type variant struct {
		ins  []c20Ins
		crlf bool
		tag  string
	}
	var vs []variant
	if perGap { // one insertion at every token gap
		for _, g := range gaps {
			for try := 0; try < 4; try++ {
				kind := Pick(r, c20Kinds)
				if in, ok := c20Insertion(r, g, kind); ok {
					vs = append(vs, variant{[]c20Ins{in}, r.Chance(10), "single:" + in.Kind})
					break
				}
			}
			if g.Break { // every permitted break position on its own
				in, _ := c20Insertion(r, g, "break")
				vs = append(vs, variant{[]c20Ins{in}, false, "single:" + in.Kind})
			}
		}
	}
	vs = append(vs, variant{nil, true, "crlf"})
	for m := 0; m < nMix; m++ { // insertions at many gaps at once
		pct := 10 + r.Intn(80)
		var ins []c20Ins
		kinds := c20Kinds
		switch r.Intn(5) {
		case 0:
			kinds = []string{"blanks"}
		case 1:
			kinds = []string{"block", "block-multiline", "comments"}
		case 2:
			kinds = []string{"break", "blankline", "linecomment"}
		}
		for _, g := range gaps {
			if r.Chance(pct) {
				if in, ok := c20Insertion(r, g, Pick(r, kinds)); ok {
					ins = append(ins, in)
				}
			}
		}
		vs = append(vs, variant{ins, r.Chance(30), "mix"})
	}
	// several comments in one gap, a few times per program (the repaired defect)
	for m := 0; m < 2; m++ {
		g := Pick(r, gaps)
		in, _ := c20Insertion(r, g, "comments")
		vs = append(vs, variant{[]c20Ins{in}, r.Chance(10), "comments"})
	}

	srcs := make([]string, len(vs))
	for i, v := range vs {
		srcs[i] = c20Apply(runes, append([]c20Ins{}, v.ins...), v.crlf)
	}
	c20LexCheck(e, srcs, "layout variant")
	for i, v := range vs {
		vsrc := srcs[i]
		e.R.Case(vsrc, nt && vsrc != src)
		e.R.H("variant", v.tag)
		for _, in := range v.ins {
			e.R.H("insertion", in.Kind)
			e.R.H("gap(prev-token next-token)", c20_gapClass(in, gaps))
		}
		if v.crlf {
			e.R.H("insertion", "crlf")
		}
		o := c20Observe(vsrc, base.CErr == nil && !unstable)
		bad := ""
		switch {
		case o.Hang:
			e.R.H("layout_verdict", "parser does not return (C03's subject)")
			e.R.Note("the real parser did not return on the layout variant %q", vsrc)
			continue
		case o.Panic != "":
			bad = "variant panics: " + o.Panic
		case o.PErr != nil:
			bad = "variant does not parse: " + o.PErr.Error()
		case o.AST != base.AST:
			bad = "syntax tree differs:\n" + o.AST + "\n-- original:\n" + base.AST
		case base.CErr == nil && !unstable && o.CErr != nil:
			bad = "variant does not compile: " + o.CErr.Error()
		case base.CErr == nil && !unstable && o.Code != base.Code:
			bad = "bytecode differs"
		}
		if bad == "" {
			e.R.H("layout_verdict", "same tree and bytecode")
			continue
		}
		e.R.H("layout_verdict", "DIFFERENT")
		detail := fmt.Sprintf("%s | insertions: %v | original program (%s):\n%s", bad, c20_describeIns(v.ins, v.crlf), id, src)
		e.R.Spec(vsrc, detail, "")
	}
}

func c20_describeIns(ins []c20Ins, crlf bool) string {
	var parts []string
	for _, in := range ins {
		parts = append(parts, fmt.Sprintf("%s@%d:%q", in.Kind, in.Off, in.Text))
	}
	if crlf {
		parts = append(parts, "crlf")
	}
	return strings.Join(parts, " ")
}

func c20_gapClass(in c20Ins, gaps []c20Gap) string {
	for _, g := range gaps {
		if g.Off == in.Off {
			return c20_tokClass(g.Prev) + " " + c20_tokClass(g.Next)
		}
	}
	return "?"
}

func c20_tokClass(t string) string {
	switch token.Type(t) {
	case "":
		return "<start>"
	case token.IDENT, token.INT, token.FLOAT, token.STRING, token.FSTRING, token.BACKTICK, token.NEWLINE, token.EOF:
		return t
	}
	if len(t) > 0 && (t[0] >= 'A' && t[0] <= 'Z' || t[0] >= 'a' && t[0] <= 'z') {
		return "keyword"
	}
	switch t {
	case "(", ")", "[", "]", "{", "}":
		return "bracket"
	case ",", ";", ":", ".":
		return "punct"
	}
	return "operator"
}

// ---------------------------------------------------------------- the diagnostics stream

var c20Vocab = []string{
	"+", "-", "*", "/", "%", "**", "==", "!=", "<", "<=", ">", ">=", "<<", ">>", "&", "&&", "|", "||", "!", "=", ":=", "+=", "-=", "*=", "/=",
	"++", "--", "<-", "?", ":", ";", ",", ".", "(", ")", "[", "]", "{", "}", "\n",
	"as", "break", "case", "const", "continue", "default", "defer", "else", "false", "for", "from", "func", "go", "if", "import", "in", "nil",
	"not", "range", "return", "struct", "switch", "true", "var",
	"x", "f", "len", "0", "7", "1.5", "0x1f", "\"s\"", "'t'", "'t{x}'", "'t{x +}'", "`r`", "`a\nb`", "`a\n\nlonger line b`",
}

type c20Mut struct {
	Op   string
	I    int
	Text string
}

func c20MutApply(runes []rune, toks []token.Token, m c20Mut) string {
	t := toks[m.I]
	s, eEnd := t.StartPosition.Char, t.EndPosition.Char+1
	if t.Type == token.EOF {
		s, eEnd = len(runes), len(runes)
	}
	if s > len(runes) {
		s = len(runes)
	}
	if eEnd > len(runes) {
		eEnd = len(runes)
	}
	switch m.Op {
	case "delete":
		return string(runes[:s]) + string(runes[eEnd:])
	case "insert":
		return string(runes[:s]) + m.Text + " " + string(runes[s:])
	default: // substitute
		return string(runes[:s]) + m.Text + string(runes[eEnd:])
	}
}

func c20_msgClass(msg string) string {
	msg = regexp.MustCompile(`"[^"]*"|'[^']*'`).ReplaceAllString(msg, "…")
	msg = regexp.MustCompile(`\(got [^)]*\)`).ReplaceAllString(msg, "(got …)")
	msg = regexp.MustCompile(`unexpected \S+ while`).ReplaceAllString(msg, "unexpected … while")
	msg = regexp.MustCompile(`\(expected \S+\)`).ReplaceAllString(msg, "(expected …)")
	if i := strings.Index(msg, "\n"); i >= 0 {
		msg = msg[:i]
	}
	if len(msg) > 70 {
		msg = msg[:70]
	}
	return msg
}

func c20_splitLinesRunes(src string) [][]rune {
	var out [][]rune
	for _, l := range strings.Split(src, "\n") {
		out = append(out, []rune(l))
	}
	return out
}

// c20Diag checks one source that may fail to parse/compile. spec=false: only Impl vs real.
func c20Diag(e *Env, src string, label string, spec bool, agreeLex bool) {
	w, ok := c20Call("diag", src)
	if !ok {
		e.R.H("diag_outcome", "parser does not return: child killed (C03's subject)")
		e.R.Note("the real parser/compiler did not return on %q (%s)", src, label)
		return
	}
	switch w.Kind {
	case "panic":
		e.R.H("diag_outcome", "parse panics (C03's subject)")
		return
	case "valid":
		e.R.H("diag_outcome", "still valid")
		return
	}
	nRunes := len([]rune(src))
	lines := c20_splitLinesRunes(src)
	if w.Kind == "compile" {
		msg := w.Msg
		if strings.HasPrefix(msg, "PANIC") {
			e.R.H("diag_outcome", "compile panics (C03's subject)")
			return
		}
		e.R.H("diag_outcome", "compile error")
		e.R.H("compile_error", c20_msgClass(msg))
		if !spec {
			return
		}
		m := c20_reLineCol.FindStringSubmatch(msg)
		if m == nil {
			e.R.H("diag_verdict", "compile error without line/column")
			e.R.Spec(src, "compile error reports no line and column: "+msg+" | "+label, c20_fNoPos)
			return
		}
		var ln, col int
		fmt.Sscanf(m[1], "%d", &ln)
		fmt.Sscanf(m[2], "%d", &col)
		if ln < 1 || ln > len(lines) || col < 1 || col-1 > len(lines[ln-1]) {
			e.R.H("diag_verdict", "compile error position outside the text")
			e.R.Spec(src, fmt.Sprintf("compile error position line %d column %d does not exist in the text: %s | %s", ln, col, msg, label), "")
			return
		}
		e.R.H("diag_verdict", "compile error position exists (compile errors carry no source line)")
		return
	}
	e.R.H("diag_outcome", "parser error")
	e.R.H("parser_error", c20_msgClass(w.Msg))
	type pos struct{ Char, Line, Column int }
	sp, ep := pos{w.SChar, w.SLine, w.SCol}, pos{w.EChar, w.ELine, w.ECol}
	friendlyPanic, friendly := w.FriendlyPanic, w.Friendly
	// Impl: Lean posAt / getLineText / renderOk on the error's offsets
	// the anchor token is EOF iff its end offset is at/after the end of the text (its recorded
	// start may be stale: the start of a block comment skipped just before it)
	// Lexer errors ("syntax error: …") are anchored at the string token being read or at the zero
	// token, never at EOF, even when that token ends at the end of the text.
	eof := "0"
	if ep.Char >= nRunes && !strings.HasPrefix(w.Msg, "syntax error") {
		eof = "1"
	}
	rep := e.O.Ask("C20", "diag", Hex(src), fmt.Sprint(sp.Char), fmt.Sprint(ep.Char), eof)
	f := strings.Split(rep, "\t")
	goRow := fmt.Sprintf("%s\t%d\t%d\t%d\t%v", Hex(w.SourceCode), sp.Line, sp.Column, ep.Column, friendlyPanic == "")
	// the caret line of the real message ("pad:carets"; "P" when the call panicked) against the
	// two Repeat counts of the model
	if sp.Line != ep.Line {
		e.R.H("diag_span", "leaves its line (carets run to the end of the quoted line)")
	} else {
		e.R.H("diag_span", "within one line")
	}
	goCarets := "P"
	if friendlyPanic == "" {
		goCarets = c03_friendlyCarets(friendly)
	}
	goRow += "\t" + goCarets
	implOK := len(f) == 8 && strings.Join(f[:5], "\t")+"\t"+f[7] == goRow
	if !implOK {
		e.R.H("diag_corr", "MISMATCH")
		e.R.Mismatch(fmt.Sprintf("diag %q start=%d end=%d eof=%s", src, sp.Char, ep.Char, eof), goRow, rep, "quoted line, line, column, end column, FriendlyErrorMessage returns, blanks:carets of its last line: real parser error vs Lean getLineText/posAt/renderOk/padCount/caretCount")
	} else {
		e.R.H("diag_corr", "agree")
	}
	if !spec {
		if friendlyPanic != "" {
			// since the repair of C20-multiline-span-render-panic no span may make the
			// rendering panic (Lean: render_total): an unlisted violation on every stream
			e.R.H("soup_render", "panics (model agrees: "+fmt.Sprint(implOK)+")")
			e.R.Spec(src, "FriendlyErrorMessage panics: "+friendlyPanic+" | error: "+w.Msg+" | "+label, "")
		}
		return
	}
	// Spec on the real results
	var bad []string
	lineOK := sp.Line >= 0 && sp.Line < len(lines)
	if !lineOK {
		bad = append(bad, fmt.Sprintf("line %d does not exist (%d lines)", sp.Line+1, len(lines)))
	} else {
		if sp.Column < 0 || sp.Column > len(lines[sp.Line]) {
			bad = append(bad, fmt.Sprintf("column %d does not exist in line %d (%d runes)", sp.Column+1, sp.Line+1, len(lines[sp.Line])))
		}
		if w.SourceCode != string(lines[sp.Line]) {
			bad = append(bad, fmt.Sprintf("quoted text %q is not line %d (%q)", w.SourceCode, sp.Line+1, string(lines[sp.Line])))
		}
	}
	if friendlyPanic != "" {
		bad = append(bad, "FriendlyErrorMessage panics: "+friendlyPanic)
	} else if !strings.Contains(friendly, fmt.Sprintf("line %d, column %d", sp.Line+1, sp.Column+1)) {
		bad = append(bad, "rendered message does not contain the position")
	}
	if len(bad) == 0 {
		e.R.H("diag_verdict", "position exists, line quoted verbatim, message renders")
		return
	}
	e.R.H("diag_verdict", "VIOLATION")
	finding := ""
	if implOK && agreeLex {
		onlyQuote := friendlyPanic == "" && len(bad) == 1 && strings.HasPrefix(bad[0], "quoted text")
		onlyCol := friendlyPanic == "" && len(bad) == 1 && strings.HasPrefix(bad[0], "column ")
		switch {
		case onlyCol && sp.Char == nRunes+1 && f[5] == "false":
			finding = c20_fEOF2
		case onlyQuote && eof == "1" && nRunes > 0 && []rune(src)[nRunes-1] == '\n' && f[5] == "false":
			finding = c20_fEOFLine
		}
	}
	e.R.Spec(src, strings.Join(bad, "; ")+" | error: "+w.Msg+" | "+label, finding)
}

func c20Mutations(e *Env, r *RNG, p *N, id string, n int) {
	src := Src(p)
	toks, _, lerr := c20Lex(src)
	if lerr != nil || len(toks) < 2 {
		return
	}
	runes := []rune(src)
	nt := c20NonTrivial(p)
	var own []string
	for _, t := range toks {
		if t.Type != token.EOF && t.EndPosition.Char < len(runes) {
			own = append(own, string(runes[t.StartPosition.Char:t.EndPosition.Char+1]))
		}
	}
	var srcs, labels []string
	for k := 0; k < n; k++ {
		m := c20Mut{I: r.Intn(len(toks))}
		switch r.Intn(3) {
		case 0:
			m.Op = "delete"
			if toks[m.I].Type == token.EOF {
				m.I = r.Intn(len(toks) - 1)
			}
		case 1:
			m.Op = "insert"
		default:
			m.Op = "substitute"
			if toks[m.I].Type == token.EOF {
				m.I = r.Intn(len(toks) - 1)
			}
		}
		if m.Op != "delete" {
			if r.Chance(35) && len(own) > 0 {
				m.Text = Pick(r, own)
			} else {
				m.Text = Pick(r, c20Vocab)
			}
		}
		e.R.H("mutation", m.Op)
		e.R.H("mutated_token", c20_tokClass(string(toks[m.I].Type)))
		ms := c20MutApply(runes, toks, m)
		srcs = append(srcs, ms)
		labels = append(labels, fmt.Sprintf("%s token #%d (%s) %q of %s", m.Op, m.I, toks[m.I].Type, m.Text, id))
		// the same faulty text with CRLF line ends: a diagnostic must still name the line and
		// column of the text as an editor counts them (one line per CRLF)
		if strings.Contains(ms, "\n") && !strings.Contains(ms, "\r") && r.Chance(40) {
			e.R.H("mutation", "crlf twin")
			srcs = append(srcs, strings.ReplaceAll(ms, "\n", "\r\n"))
			labels = append(labels, "CRLF twin of: "+labels[len(labels)-1])
		}
	}
	agree := c20LexCheck(e, srcs, "mutated program")
	for i, s := range srcs {
		e.R.Case(s, nt)
		c20Diag(e, s, labels[i], true, agree[i])
	}
}

// ---------------------------------------------------------------- lexeme soup (lexer model only)

var c20Lexemes = []string{
	"x", "foo_1", "_", "as", "if", "func", "nil", "true", "é", "aé1", "a→", "→",
	"0", "7", "42", "007", "08", "0x1F", "0xg", "0x", "0X1", "0x1x2", "1.5", "0.5", "00.5", "1.", "1.x", "1.2.3", "12ab", "1e5", "9é", "1.5é", "0x1.5",
	"\"\"", "\"a b\"", "\"a\\n\\t\\\\\\\"\"", "\"\\x41\\u00e9\\U0001F600\\101\\e\"", "\"\\xZZ\"", "\"\\8\"", "\"\\U80000000\"", "\"\\Uffffffff\"", "\"\\ud800\"", "\"\\377\\400\"",
	"\"abc", "\"ab\\", "\"\\x4", "'t{x}'", "'a\\'b'", "'\\\"'", "\"\\'\"", "'unterminated", "`raw\\n`", "`a\nb`", "`open", "\"é→😀\"", "`é`",
	"+", "++", "+=", "-", "--", "-=", "*", "**", "*=", "/", "/=", "%", "<", "<<", "<=", "<-", ">", ">>", ">=", "=", "==", "!", "!=", "&", "&&", "|", "||", ":", ":=",
	";", "?", "(", ")", ",", ".", "{", "}", "[", "]", "\n", "\r\n", "\r", "~", "@", "$", "^", "\\",
	"// c", "# c", "/* c */", "/**/", "/*/", "/* a\nb */", "/* open", "/* a */ /* b */", "/* a */ // b", "/* a */# b", "/***/", "/* * / */",
	"/*/ a */", "/*/*/", "/*//*/", "/* a *//* b */", "/*/**/ /*#*/",
}

func c20Soup(e *Env, r *RNG, n int) {
	var srcs []string
	for i := 0; i < n; i++ {
		k := 1 + r.Intn(9)
		var sb strings.Builder
		for j := 0; j < k; j++ {
			sb.WriteString(Pick(r, c20Lexemes))
			switch r.Intn(6) {
			case 0: // abutting
			case 1:
				sb.WriteString("\t")
			case 2:
				sb.WriteString("\n")
			default:
				sb.WriteString(" ")
			}
		}
		srcs = append(srcs, sb.String())
	}
	c20LexCheck(e, srcs, "lexeme soup")
	for _, s := range srcs {
		e.R.Case(s, strings.ContainsAny(s, " \t\n"))
		e.R.H("soup", "sequences")
		c20Diag(e, s, "lexeme soup", false, true)
	}
}

// ---------------------------------------------------------------- directed cases (recorded and repaired defects + fixed layouts)

func c20Directed(e *Env) {
	// layout pairs: (original, variant) that must parse alike
	pairs := [][2]string{
		{"1 + 2", "1 /* a */ + 2"},
		{"1 + 2", "1 +\n2"},
		{"x := [1, 2, 3]\n", "x := [\n1,\n2,\n3,\n]\n"},
		{"x := [1, 2, 3]\n", "x := [1, 2, 3] // c\r\n"},
		{"m := {\"a\": 1}\n", "m := {\n\"a\": 1,\n}\n"},
		{"f(1, 2)\n", "f(\n1,\n2\n)\n"},
		{"[1] | len\n", "[1] |\nlen\n"},
		{"a.b\n", "a.\nb\n"},
	}
	for _, pr := range pairs {
		a, b := c20Observe(pr[0], false), c20Observe(pr[1], false)
		e.R.Case(pr[1], false)
		e.R.H("directed", "layout pair")
		if a.PErr != nil || b.PErr != nil || a.AST != b.AST {
			e.R.Spec(pr[1], fmt.Sprintf("directed layout pair: %q parses to %q (%v), %q parses to %q (%v)", pr[0], a.AST, a.PErr, pr[1], b.AST, b.PErr), "")
		}
	}
	c20LexCheck(e, []string{pairs[0][1], pairs[2][1], pairs[3][1]}, "directed")
	// the two repaired block-comment defects of the lexer and their neighbourhood: several
	// comments in one gap, bodies beginning with `/`; a recurrence is an unlisted violation
	a := c20Observe("1 + 2", false)
	for _, v := range []string{
		"1 /* a */ /* b */ + 2",         // was C20-adjacent-comments
		"1 /*/ a */ + 2",                // was C20-block-comment-body-starting-with-slash
		"1 /* a *//* b */\t/* c */ + 2", // three, abutting and separated
		"1 + /* a */ /*/ b */ 2",
		"1 /**/ /***/ /*/*/ + /* /* */ 2",
		"/* a */ /* b */ 1 + 2",       // before the first token
		"1 + 2 /* a */ /* b */",       // after the last token
		"1 + 2 /* a */ // b",          // a block comment, then a line comment up to the end of the text
		"1 + 2 /* a */ /* b */ # c",   // … after two block comments
		"1 /* a\r\n b */ /* c */ + 2", // CRLF inside a comment
	} {
		c20LexCheck(e, []string{v}, "directed")
		b := c20Observe(v, false)
		e.R.Case(v, false)
		e.R.H("directed", "comments in one gap")
		if b.PErr != nil || b.Panic != "" || a.AST != b.AST {
			e.R.Spec(v, fmt.Sprintf("comments between tokens change the parse: `1 + 2` parses to %q but %q gives %q (%v %s)", a.AST, v, b.AST, b.PErr, b.Panic), "")
		}
	}
	// statements: block comments followed by a line comment at a line end, with LF and CRLF
	for _, pr := range [][2]string{
		{"x := 1\ny := 2\n", "x := 1 /* a */ // b\ny := 2 /* c */ /* d */ # e\n"},
		{"x := 1\ny := 2\n", "x := 1 /* a */ /*/ b */ // c\r\ny := /* d */\t/* e */ 2\r\n"},
		{"x := 4 / 2\n", "x := 4 / /* a */ /* b */ 2\n"},   // a `/` that is division next to comments
		{"x := 4 / 2\n", "x := 4 /* a */ /* b */ / 2\n"},
		{"x := 4\nx /= 2\n", "x := 4\nx /* a */ /* b */ /= /*/*/ 2\n"},
	} {
		c20LexCheck(e, []string{pr[1]}, "directed")
		a, b := c20Observe(pr[0], false), c20Observe(pr[1], false)
		e.R.Case(pr[1], false)
		e.R.H("directed", "comments in one gap")
		if a.PErr != nil || b.PErr != nil || a.AST != b.AST {
			e.R.Spec(pr[1], fmt.Sprintf("directed layout pair: %q parses to %q (%v), %q parses to %q (%v)", pr[0], a.AST, a.PErr, pr[1], b.AST, b.PErr), "")
		}
	}
	// unterminated block comments keep their behaviour (model correspondence only)
	c20LexCheck(e, []string{"1 /*", "1 /*/", "1 /* a */ /* b", "1 /* a */ /*/", "1 /* a */ /", "/*", "/**", "/* a */", "/* a */ /* b */\n"}, "directed")
	// the first two: spans that leave their line (a backtick string with a newline; a token
	// whose recorded start is the start of a two-line block comment) — they made
	// FriendlyErrorMessage panic before the repair of C20-multiline-span-render-panic
	for _, s := range []string{"x := `abc\ndef` 1", "       /* a\n */ )", "f(1\n", "x := 1 | (2 | 3)", "x := 1\n("} {
		ag := c20LexCheck(e, []string{s}, "directed")
		e.R.Case(s, false)
		c20Diag(e, s, "directed", true, ag[0])
	}
}

// ---------------------------------------------------------------- driver

func c20_runC20(e *Env) {
	e.R.Rule = "unit = one source text derived from a generated program (C01's generator plus map/set/pipe/attribute statements): " +
		"a layout variant (one insertion at every token gap in turn, CRLF, and mixes of insertions at many gaps) or a single-token " +
		"deletion/insertion/substitution; plus random lexeme sequences for the lexer model; distinct by the text; non-trivial when the " +
		"program has >= 3 statement forms or block depth >= 3 and the text differs from the original (lexeme soup: contains layout)"
	nProg, nMixProg, nMut, nSoup := 60, 240, 40, 3000
	if !e.Quick {
		nProg, nMixProg, nMut, nSoup = 750, 8000, 60, 100000
	}
	defer func() {
		if c20W != nil {
			c20W.cmd.Process.Kill()
			c20W.cmd.Wait()
		}
	}()
	c20Directed(e)
	rng := e.Rng.Fork()
	gen := func(r *RNG, i int) *N {
		o := GenOpts{MaxStmts: 2 + r.Intn(4), MaxDepth: 1 + r.Intn(3), Budget: 30 + r.Intn(150), Funcs: true, Closures: r.Bool(),
			Containers: true, Strings: true, CtlHeavy: i%3 == 0, NoCtlInSwitch: true}
		return c20Extra(r, GenProgram(r, o))
	}
	for i := 0; i < nProg; i++ { // every gap of every program, and the mutations
		r := rng.Fork()
		p := gen(r, i)
		id := fmt.Sprintf("gen#%d", i)
		c20Layout(e, r, p, id, true, 6)
		c20Mutations(e, r, p, id, nMut)
	}
	for i := 0; i < nMixProg; i++ { // more programs, mixes only
		r := rng.Fork()
		p := gen(r, i)
		id := fmt.Sprintf("mix#%d", i)
		c20Layout(e, r, p, id, false, 4)
		c20Mutations(e, r, p, id, 6)
	}
	c20Soup(e, rng.Fork(), nSoup)
	// parser-level newline invariance on expression trees x layouts (c20nl.go; its own fork of
	// the run's generator, taken last, so the streams above are unchanged)
	c20ParseNL(e, e.Rng.Fork())
	// the lexer/parser bridge (c20bridge.go; again its own fork, taken after everything else)
	c20Bridge(e, e.Rng.Fork())
}
