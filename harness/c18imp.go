package main

// C18 — two further classes of sessions (Model.lean layers 6 and 7):
//
//   c18Imports : sessions on a VM with an IMPORTER (importer.LocalImporter over a temporary directory, importer.FSImporter
//                over an in-memory file system).  Module files have mutable module-level state (a map or a plain
//                variable), a top-level side effect (`print("tick …")`) and may import each other.  A session imports
//                modules under every spelling (`import m`, `import m as h`, `from m import bump as …, get as …`), mutates
//                the module state through any handle, imports the same module AGAIN in later pieces and reads the state
//                through every handle.  Compared after every piece: value, tick log (stdout), number of entries of the
//                import cache, integer globals — with the Lean model (`imp` request: impRun) and with its Spec (the
//                concatenated program), and at the end with the real whole-program evaluation.
//                Theorems: import_once_across_pieces, module_body_runs_once.
//   c18Shadow  : programs whose top-level BLOCKS (for headers, if / for / switch / range bodies, nested) declare variables
//                with the names of top-level variables: a second global slot with the same name.  The harness resolves
//                names to slots as the compiler does (compared with vm.GlobalNames after every piece), unrolls the
//                constant loops and sends the slot program to the Lean model (`slots` request: slotRun reloadBySlot,
//                slotWhole, and the by-name contrast).  All partitions into pieces; compared after every piece: value,
//                vm.Get of every name; at the end the real whole-program evaluation.  Theorem: reload_preserves_slots.

import (
	"fmt"
	"os"
	"path/filepath"
	"strconv"
	"strings"
	"testing/fstest"

	"github.com/risor-io/risor"
	"github.com/risor-io/risor/importer"
)

// ---------------------------------------------------------------- plain "incremental against whole" comparison

// c18VsWhole runs the pieces on one compiler + VM and the concatenation of the pieces in `ref` (those that are
// expected to complete; nil = all) at once, and reports every difference in the final value, stdout and globals as a
// violation of the Spec.  expect[i] is the outcome class piece i must have ("" = ok).
func c18VsWhole(e *Env, env *c18Env, text string, pieces []string, expect []string, names []string) (real []*c18Obs, whole *c18Obs, clean bool) {
	env.names = names
	real = env.incremental(pieces, names, true)
	var ref []string
	for i, p := range pieces {
		want := "ok"
		if expect != nil && expect[i] != "" {
			want = expect[i]
		}
		if want == "ok" {
			ref = append(ref, p)
		}
		if real[i].Class != want {
			e.R.Spec(text, fmt.Sprintf("piece %d `%s`: %s %s; as part of the whole program it is %s", i, c18OneLine(p), real[i].Class,
				c18_firstLine(real[i].Err), want), "")
			return real, nil, false
		}
	}
	whole = env.wholeEval(strings.Join(ref, "\n"))
	if whole.Class != "ok" {
		e.R.Mismatch(text, "whole program: "+whole.Class+" "+c18_firstLine(whole.Err), "ok", "a generated session does not evaluate as a whole program")
		return real, whole, false
	}
	clean = true
	last := real[len(real)-1]
	lastOK := -1
	for i := range pieces {
		if real[i].Class == "ok" {
			lastOK = i
		}
	}
	if lastOK == len(pieces)-1 && last.Value != whole.Value {
		e.R.Spec(text, fmt.Sprintf("value of the last piece %s, of the whole program %s", last.Value, whole.Value), "")
		clean = false
	}
	if last.Stdout != whole.Stdout {
		e.R.Spec(text, fmt.Sprintf("output of the pieces %q, of the whole program %q", last.Stdout, whole.Stdout), "")
		clean = false
	}
	for _, n := range sortedKeys(c18Union(last.Globals, whole.Globals)) {
		if last.Globals[n] != whole.Globals[n] {
			e.R.Spec(text, fmt.Sprintf("after the last piece global %s = %s, after the whole program %s", n, c18_orUndef(last.Globals[n]),
				c18_orUndef(whole.Globals[n])), "")
			clean = false
			break
		}
	}
	return real, whole, clean
}

func c18Union(a, b map[string]string) map[string]bool {
	m := map[string]bool{}
	for k := range a {
		m[k] = true
	}
	for k := range b {
		m[k] = true
	}
	return m
}

func c18OneLine(s string) string { return strings.ReplaceAll(s, "\n", "; ") }

// ---------------------------------------------------------------- layer 6: sessions with an importer

type c18ModSet struct {
	inits []int
	deps  []bool // module m imports module m-1
	files map[string]string
	envs  []*c18Env // one per importer kind
	kinds []string
	nHost int // modules the host supplies as globals (seeded into the import cache)
}

func c18ModName(m int) string { return "zm" + strconv.Itoa(m) }

// mapState: even modules keep their state in a map (`state["n"]`), odd ones in a plain module-level variable (`n`)
func c18ModMapState(m int) bool { return m%2 == 0 }

func c18ModSource(m int, init int, dep bool) string {
	var sb strings.Builder
	fmt.Fprintf(&sb, "print(\"tick %s\")\n", c18ModName(m))
	if dep {
		fmt.Fprintf(&sb, "import %s\n", c18ModName(m-1))
	}
	if c18ModMapState(m) {
		fmt.Fprintf(&sb, "state := {\"n\": %d}\nfunc bump(d) {\n  state[\"n\"] = state[\"n\"] + d\n  return state[\"n\"]\n}\nfunc get() {\n  return state[\"n\"]\n}\n", init)
	} else {
		fmt.Fprintf(&sb, "n := %d\nfunc bump(d) {\n  n = n + d\n  return n\n}\nfunc get() {\n  return n\n}\n", init)
	}
	if dep {
		fmt.Fprintf(&sb, "func below() {\n  return %s.get()\n}\n", c18ModName(m-1))
	}
	return sb.String()
}

func c18NewModSet(setsIP bool, dir string, inits []int, deps []bool) (*c18ModSet, error) {
	ms := &c18ModSet{inits: inits, deps: deps, files: map[string]string{}}
	mapfs := fstest.MapFS{}
	for m := range inits {
		src := c18ModSource(m, inits[m], deps[m])
		ms.files[c18ModName(m)] = src
		if err := os.WriteFile(filepath.Join(dir, c18ModName(m)+".risor"), []byte(src), 0o600); err != nil {
			return nil, err
		}
		mapfs[c18ModName(m)+".risor"] = &fstest.MapFile{Data: []byte(src)}
	}
	names := risor.NewConfig().GlobalNames()
	local := importer.NewLocalImporter(importer.LocalImporterOptions{GlobalNames: names, SourceDir: dir})
	mem := importer.NewFSImporter(importer.FSImporterOptions{GlobalNames: names, SourceFS: mapfs})
	ms.envs = []*c18Env{c18NewEnv(setsIP, risor.WithImporter(local)), c18NewEnv(setsIP, risor.WithImporter(mem))}
	ms.kinds = []string{"LocalImporter over a temporary directory", "FSImporter over an in-memory file system"}
	for _, k := range ms.envs[0].hostKind {
		if k == "module" {
			ms.nHost++
		}
	}
	return ms, nil
}

// a handle: the global(s) of the main code an import binds
type c18Handle struct {
	style byte // n: `import zmM` (the module's own name)   a: `import zmM as zhK`   f: `from zmM import bump as zhK_bump, get as zhK_get`
	id    int  // number in the model
	name  string
	mod   int // the module it is bound to (-1: not bound yet)
}

type c18IStmt struct {
	k      byte // i b g w k F(ailing: not part of the model) R(ejected)
	h      *c18Handle
	hs     []*c18Handle
	m, d   int
	j      int
	src    string
	model  string
	isExpr bool
}

type c18ISession struct {
	ms     *c18ModSet
	stmts  []*c18IStmt
	nvars  int
	tag    string
	usesHM bool
}

func (h *c18Handle) importSrc(m int) string {
	switch h.style {
	case 'n':
		return "import " + c18ModName(m)
	case 'a':
		return "import " + c18ModName(m) + " as " + h.name
	}
	return fmt.Sprintf("from %s import bump as %s_bump, get as %s_get", c18ModName(m), h.name, h.name)
}

func (h *c18Handle) getSrc(attr bool) string {
	if h.style == 'f' {
		return h.name + "_get()"
	}
	if attr {
		if c18ModMapState(h.mod) {
			return h.name + `.state["n"]`
		}
		return h.name + ".n"
	}
	return h.name + ".get()"
}

func (h *c18Handle) bumpSrc(d int) string {
	if h.style == 'f' {
		return fmt.Sprintf("%s_bump(%d)", h.name, d)
	}
	return fmt.Sprintf("%s.bump(%d)", h.name, d)
}

// c18ISessionBuilder keeps the bookkeeping a session needs while it is written down statement by statement.
type c18ISB struct {
	s        *c18ISession
	handles  []*c18Handle // all handles, by model number
	declared map[int]bool // integer globals zvJ declared so far
}

func c18NewISB(ms *c18ModSet, nAlias, nFrom int, tag string) *c18ISB {
	b := &c18ISB{s: &c18ISession{ms: ms, tag: tag}, declared: map[int]bool{}}
	for m := range ms.inits {
		b.handles = append(b.handles, &c18Handle{style: 'n', id: m, name: c18ModName(m), mod: -1})
	}
	for k := 0; k < nAlias; k++ {
		b.handles = append(b.handles, &c18Handle{style: 'a', id: len(b.handles), name: "zh" + strconv.Itoa(k), mod: -1})
	}
	for k := 0; k < nFrom; k++ {
		b.handles = append(b.handles, &c18Handle{style: 'f', id: len(b.handles), name: "zf" + strconv.Itoa(k), mod: -1})
	}
	return b
}

func (b *c18ISB) bound() []*c18Handle {
	var out []*c18Handle
	for _, h := range b.handles {
		if h.mod >= 0 {
			out = append(out, h)
		}
	}
	return out
}

func (b *c18ISB) imp(h *c18Handle, m int) {
	if h.style == 'n' {
		m = h.id
	}
	b.s.stmts = append(b.s.stmts, &c18IStmt{k: 'i', h: h, m: m, src: h.importSrc(m), model: fmt.Sprintf("i%d.%d", h.id, m)})
	h.mod = m
}

func (b *c18ISB) bump(h *c18Handle, d int) {
	b.s.stmts = append(b.s.stmts, &c18IStmt{k: 'b', h: h, d: d, src: "[" + h.bumpSrc(d) + "]", model: fmt.Sprintf("b%d.%d", h.id, d), isExpr: true})
}

func (b *c18ISB) get(hs []*c18Handle, attr func() bool) {
	var srcs, ids []string
	for _, h := range hs {
		srcs = append(srcs, h.getSrc(attr()))
		ids = append(ids, strconv.Itoa(h.id))
	}
	b.s.stmts = append(b.s.stmts, &c18IStmt{k: 'g', hs: hs, src: "[" + strings.Join(srcs, ", ") + "]", model: "g" + strings.Join(ids, "."), isExpr: true})
}

func (b *c18ISB) below(h *c18Handle) {
	b.s.stmts = append(b.s.stmts, &c18IStmt{k: 'w', h: h, src: "[" + h.name + ".below()]", model: "w" + strconv.Itoa(h.id), isExpr: true})
}

func (b *c18ISB) keep(j int, h *c18Handle) {
	opr := " = "
	if !b.declared[j] {
		opr, b.declared[j] = " := ", true
	}
	if j+1 > b.s.nvars {
		b.s.nvars = j + 1
	}
	b.s.stmts = append(b.s.stmts, &c18IStmt{k: 'k', h: h, j: j, src: "zv" + strconv.Itoa(j) + opr + h.getSrc(false), model: fmt.Sprintf("k%d.%d", j, h.id)})
}

// hostImport: a module the host supplies as a global, imported by name — always a cache hit; not part of the model
// (its value is compared with the whole program through the host-supplied globals)
func (b *c18ISB) hostImport(src string) {
	b.s.stmts = append(b.s.stmts, &c18IStmt{k: 'H', src: src})
	b.s.usesHM = true
}

func c18ValueOf(model string) string {
	if model == "-" {
		return "[]"
	}
	return "[" + strings.Join(strings.Split(model, "."), ", ") + "]"
}

type c18ISnap struct {
	log   []string
	cache int
	vals  []string
	vars  []string
}

func c18ParseISnaps(s string) []c18ISnap {
	var out []c18ISnap
	for _, p := range strings.Split(s, "|") {
		f := strings.Split(p, "/")
		if len(f) != 5 {
			return nil
		}
		sn := c18ISnap{}
		if f[0] != "-" {
			sn.log = strings.Split(f[0], ".")
		}
		sn.cache, _ = strconv.Atoi(f[1])
		if f[2] != "-" {
			sn.vals = strings.Split(f[2], ",")
		}
		if f[4] != "-" {
			sn.vars = strings.Split(f[4], ".")
		}
		out = append(out, sn)
	}
	return out
}

func (sn c18ISnap) stdout() string {
	var sb strings.Builder
	for _, m := range sn.log {
		sb.WriteString("tick zm" + m + "\n")
	}
	return sb.String()
}

// c18RunISession checks one session cut at `cuts` (statement indices), with extra pieces (failing / rejected /
// syntax error, not part of the model's statement list) inserted after the pieces listed in `extra`.
func c18RunISession(e *Env, s *c18ISession, envIdx int, cuts []int, extra map[int]string) {
	env := s.ms.envs[envIdx]
	// pieces
	var pieces [][]*c18IStmt
	start := 0
	for _, c := range append(append([]int{}, cuts...), len(s.stmts)) {
		if c > start {
			pieces = append(pieces, s.stmts[start:c])
			start = c
		}
	}
	var srcs, expect, model []string
	var modelIdx []int // per real piece: index of its snapshot in the model's answer, -1 = none (rejected before any run)
	var lastExpr []bool
	for i, p := range pieces {
		var ss, ms []string
		for _, st := range p {
			ss = append(ss, st.src)
			if st.model != "" {
				ms = append(ms, st.model)
			}
		}
		srcs, expect = append(srcs, strings.Join(ss, "\n")), append(expect, "")
		if len(ms) == 0 {
			ms = []string{"-"}
		}
		modelIdx = append(modelIdx, len(model))
		model = append(model, strings.Join(ms, ";"))
		lastExpr = append(lastExpr, p[len(p)-1].isExpr)
		switch extra[i] {
		case "F1": // a piece that fails at run time: the module does not exist
			srcs, expect, lastExpr = append(srcs, "import zmissing"), append(expect, "fail"), append(lastExpr, false)
			modelIdx = append(modelIdx, len(model))
			model = append(model, "-")
		case "F2": // fails after the VM has started
			srcs, expect, lastExpr = append(srcs, "[1][5]"), append(expect, "fail"), append(lastExpr, false)
			modelIdx = append(modelIdx, len(model))
			model = append(model, "-")
		case "RU": // rejected by the compiler at its first statement: nothing is emitted, no run
			srcs, expect, lastExpr = append(srcs, "undefined_zq"), append(expect, "compile"), append(lastExpr, false)
			modelIdx = append(modelIdx, -1)
		case "PX":
			srcs, expect, lastExpr = append(srcs, "zv0 := := 1"), append(expect, "parse"), append(lastExpr, false)
			modelIdx = append(modelIdx, -1)
		}
	}
	var names []string
	for j := 0; j < s.nvars; j++ {
		names = append(names, "zv"+strconv.Itoa(j))
	}
	text := "import session (" + s.ms.kinds[envIdx] + ")\n" + strings.Join(srcs, "\n----\n") + "\n==== modules\n"
	for m := range s.ms.inits {
		text += "-- " + c18ModName(m) + ".risor\n" + s.ms.files[c18ModName(m)]
	}
	inits := make([]string, len(s.ms.inits))
	deps := ""
	for m, v := range s.ms.inits {
		inits[m] = strconv.Itoa(v)
		if s.ms.deps[m] {
			deps += "1"
		} else {
			deps += "0"
		}
	}
	rep := strings.Split(e.O.Ask("C18", "imp", strings.Join(inits, "."), deps, "-", strconv.Itoa(s.nvars), strings.Join(model, "|")), "\t")
	if len(rep) != 4 || rep[0] != "ok" {
		e.R.Case(text, false)
		e.R.Mismatch(text, strings.Join(model, "|"), strings.Join(rep, " "), "oracle did not answer the imp request")
		return
	}
	impl, spec, contrast := c18ParseISnaps(rep[1]), c18ParseISnaps(rep[2]), c18ParseISnaps(rep[3])
	sensitive := rep[1] != rep[3]
	e.R.Case(text, len(srcs) >= 2 && sensitive)
	e.R.H("history_kind", "imports: "+s.tag)
	e.R.H("import_sessions", s.ms.kinds[envIdx])
	if sensitive {
		e.R.H("import_sessions", "a module is imported again in a later piece (an import cache cleared at piece boundaries would show)")
	}
	_ = contrast
	real, whole, _ := c18VsWhole(e, env, text, srcs, expect, names)
	mismatch, specDiff := "", ""
	cur := -1 // snapshot of the last piece that ran
	for i, r := range real {
		if expect[i] != "" && r.Class != expect[i] || expect[i] == "" && r.Class != "ok" {
			break // reported by c18VsWhole
		}
		if modelIdx[i] >= 0 {
			cur = modelIdx[i]
		}
		if cur < 0 {
			continue
		}
		for which, sn := range []c18ISnap{impl[cur], spec[cur]} {
			diff := ""
			switch {
			case r.Stdout != sn.stdout():
				diff = fmt.Sprintf("piece %d: module bodies that have run so far (tick log) %q, expected %q", i, r.Stdout, sn.stdout())
			case r.Class == "ok" && lastExpr[i] && len(sn.vals) > 0 && r.Value != c18ValueOf(sn.vals[len(sn.vals)-1]):
				diff = fmt.Sprintf("piece %d `%s`: value %s, expected %s", i, c18OneLine(srcs[i]), r.Value, c18ValueOf(sn.vals[len(sn.vals)-1]))
			case r.Class == "ok" && !lastExpr[i] && r.Value != "nil":
				diff = fmt.Sprintf("piece %d: value %s, expected nil", i, r.Value)
			case r.Mods >= 0 && r.Mods != s.ms.nHost+sn.cache && which == 0 && r.SP >= -1 && r.Halt >= 0:
				diff = fmt.Sprintf("piece %d: the import cache has %d entries, expected %d (the host's %d modules + %d imported)", i, r.Mods, s.ms.nHost+sn.cache, s.ms.nHost, sn.cache)
			default:
				for j := 0; j < s.nvars && j < len(sn.vars); j++ {
					if got, ok := r.Globals["zv"+strconv.Itoa(j)]; ok && got != sn.vars[j] {
						diff = fmt.Sprintf("piece %d: global zv%d = %s, expected %s", i, j, got, sn.vars[j])
						break
					}
				}
			}
			if diff != "" {
				if which == 0 && mismatch == "" {
					mismatch = diff
				}
				if which == 1 && specDiff == "" {
					specDiff = diff + " (the concatenated program up to this piece)"
				}
			}
		}
	}
	if mismatch != "" {
		e.R.Mismatch(text, mismatch, rep[1], "real session with an importer vs Lean import-cache model (impRun, import_once_across_pieces)")
	}
	if specDiff != "" {
		e.R.Spec(text, specDiff, "")
		e.R.H("import_spec", "violated")
	} else {
		e.R.H("import_spec", "holds")
	}
	// the model's Spec against the real whole-program evaluation
	if whole != nil && whole.Class == "ok" && len(spec) > 0 {
		fin := spec[len(spec)-1]
		if whole.Stdout != fin.stdout() {
			e.R.Mismatch(text, fmt.Sprintf("whole program: tick log %q", whole.Stdout), fmt.Sprintf("%q", fin.stdout()), "real whole-program evaluation vs the import model's Spec")
		}
		for j := 0; j < s.nvars && j < len(fin.vars); j++ {
			if got, ok := whole.Globals["zv"+strconv.Itoa(j)]; ok && got != fin.vars[j] {
				e.R.Mismatch(text, fmt.Sprintf("whole program: zv%d = %s", j, got), fin.vars[j], "real whole-program evaluation vs the import model's Spec")
			}
		}
	}
}

// all subsets of the cut positions 1..n-1
func c18AllCuts(n int) [][]int {
	var out [][]int
	for mask := 0; mask < 1<<(n-1); mask++ {
		var cuts []int
		for k := 0; k < n-1; k++ {
			if mask&(1<<k) != 0 {
				cuts = append(cuts, k+1)
			}
		}
		out = append(out, cuts)
	}
	return out
}

func c18Imports(e *Env, setsIP bool) {
	dir, err := os.MkdirTemp("", "verif-c18-")
	if err != nil {
		e.R.Note("import sessions skipped: no temporary directory: %v", err)
		e.R.H("import_sessions", "SKIPPED: no temporary directory")
		return
	}
	defer os.RemoveAll(dir)
	var sets []*c18ModSet
	for i, cfg := range []struct {
		inits []int
		deps  []bool
	}{
		{[]int{0, 10, 20}, []bool{false, false, false}},
		{[]int{3, 40, 500}, []bool{false, true, true}},
		{[]int{7, 7, 1}, []bool{false, false, true}},
	} {
		sub := filepath.Join(dir, "set"+strconv.Itoa(i))
		if err := os.Mkdir(sub, 0o700); err != nil {
			e.R.Note("import sessions skipped: %v", err)
			return
		}
		ms, err := c18NewModSet(setsIP, sub, cfg.inits, cfg.deps)
		if err != nil {
			e.R.Note("import sessions skipped: %v", err)
			return
		}
		sets = append(sets, ms)
	}
	never := func() bool { return false }
	// (1) enumerated: a module imported under one spelling, mutated, imported AGAIN under every spelling, mutated through the
	// new handle, read through all handles — every partition into pieces
	styles := []byte{'n', 'a', 'f'}
	n := 0
	for si, ms := range sets {
		for m := range ms.inits {
			for _, s1 := range styles {
				for _, s2 := range styles {
					b := c18NewISB(ms, 2, 2, "enumerated: import / mutate / import again under every spelling / read through every handle; every partition")
					pick := func(st byte, k int) *c18Handle {
						for _, h := range b.handles {
							if h.style == st && (st == 'n' && h.id == m || st != 'n' && strings.HasSuffix(h.name, strconv.Itoa(k))) {
								return h
							}
						}
						return nil
					}
					h1, h2 := pick(s1, 0), pick(s2, 1)
					b.imp(h1, m)
					b.bump(h1, 2)
					b.keep(0, h1)
					b.imp(h2, m)
					b.bump(h2, 5)
					if ms.deps[m] && h2.style != 'f' {
						b.below(h2)
					}
					b.get(b.bound(), never)
					for ci, cuts := range c18AllCuts(len(b.s.stmts)) {
						if e.Quick && len(cuts) > 3 && (ci+si+m)%3 != 0 {
							continue
						}
						c18RunISession(e, b.s, (n+ci)%2, cuts, nil)
					}
					n++
				}
			}
		}
	}
	// (2) random sessions
	r := e.Rng.Fork()
	nRand := 400
	if !e.Quick {
		nRand = 5000
	}
	for i := 0; i < nRand; i++ {
		ms := Pick(r, sets)
		b := c18NewISB(ms, 1+r.Intn(2), 1+r.Intn(2), "random session")
		attr := func() bool { return r.Chance(40) }
		b.imp(Pick(r, b.handles), r.Intn(len(ms.inits)))
		for k, ns := 0, 4+r.Intn(7); k < ns; k++ {
			bound := b.bound()
			switch c := r.Intn(20); {
			case c < 7:
				b.imp(Pick(r, b.handles), r.Intn(len(ms.inits)))
			case c < 12:
				b.bump(Pick(r, bound), 1+r.Intn(5))
			case c < 15:
				b.get(bound, attr)
			case c < 17:
				b.keep(r.Intn(2), Pick(r, bound))
			case c < 18:
				var cands []*c18Handle
				for _, h := range bound {
					if h.style != 'f' && ms.deps[h.mod] {
						cands = append(cands, h)
					}
				}
				if len(cands) > 0 {
					b.below(Pick(r, cands))
				}
			case c < 19:
				b.hostImport(Pick(r, []string{"import math", "import strings as zhs", "from math import sqrt as zhq"}))
			default:
				b.get([]*c18Handle{Pick(r, bound)}, attr)
			}
		}
		b.get(b.bound(), attr)
		nst := len(b.s.stmts)
		for k := 0; k < 3; k++ {
			var cuts []int
			pc := 20 + r.Intn(60)
			for c := 1; c < nst; c++ {
				if r.Chance(pc) {
					cuts = append(cuts, c)
				}
			}
			extra := map[int]string{}
			if r.Chance(35) {
				for j := 0; j <= len(cuts); j++ {
					if r.Chance(30) {
						extra[j] = Pick(r, []string{"F1", "F2", "RU", "PX"})
					}
				}
			}
			c18RunISession(e, b.s, r.Intn(2), cuts, extra)
		}
	}
	e.R.H("import_sessions", fmt.Sprintf("enumerated sessions (before partitioning): %d", n))
}
