package main

// C14, stream 3 "spellmix": ONE FILE, MANY SPELLINGS.
//
// The VM's module cache and the importers' code caches are keyed by the module NAME; the
// property is about module FILES.  This stream (1) finds, by probing the REAL parser and the
// real importers, every import statement — statement form x path text, incl. a spelled-out
// extension, "./", a trailing slash, doubled separators, quote characters, other extensions —
// that is accepted and reaches a given file of a module tree, and (2) mixes the spellings
// found for one and the same file within one evaluation, directly in the script and
// transitively through other modules, with the module's state changed between the imports.
//
// Impl: the Lean import machine (`C14.run` through the oracle's `mix` request) with the module
// names the statement forms request.  Spec, BY FILE and evaluated on the real results: a
// file's top-level code runs at most once in the evaluation, and every alias that stands for
// the file — whatever its spelling — sees the same module state (reference semantics: one
// counter per file, the body runs at the file's first import).

import (
	"context"
	"fmt"
	"os"
	"path/filepath"
	"sort"
	"strconv"
	"strings"
	"testing/fstest"
	"time"

	"github.com/risor-io/risor"
	"github.com/risor-io/risor/importer"
	"github.com/risor-io/risor/object"
	"github.com/risor-io/risor/parser"
	"github.com/risor-io/risor/token"
)

// the module tree: (name, extension); "c" exists under both extensions, "lib" is a file next
// to a directory of the same name, "a" is also the last component of "d/a"
var smTree = [][2]string{
	{"t/user", ".risor"}, {"lib/deep/m", ".risor"}, {"a", ".risor"}, {"b", ".rsr"}, {"lib/util", ".risor"},
	{"d/a", ".risor"}, {"c", ".risor"}, {"c", ".rsr"}, {"lib", ".risor"},
}

// files whose bodies may import other files in a mix (in this order: a body imports only files
// that come later in smTree, so the graphs are acyclic)
var smHubs = []string{"t/user.risor", "lib/deep/m.risor"}

const smAlias = "zq" // placeholder alias in a spelling template

// one import statement (with its alias) that the real parser accepts and that reaches `file`
type smSpell struct {
	tmpl  string // statement text with smAlias as the alias
	form  string
	text  string   // the path text it was built from
	file  string   // the file (name+ext below the root) its evaluation ran, found by the probe
	kind  string   // "module": the alias is bound to the module; "attr": to the value of its global n
	sh    c14Shape // token-level shape (for the model)
	model bool     // the model's statement forms cover it
	name  string   // the module NAME under which the VM loaded the file (last name handed to the importer)
}

func (s smSpell) stmt(alias string) string {
	return strings.ReplaceAll(s.tmpl, smAlias, alias)
}

// the model's statement for this spelling
func (s smSpell) wire(alias string) string {
	if !s.model || ((s.sh.kind == "fromq" || s.sh.kind == "fromdot") && len(s.sh.items) != 1) {
		return "x"
	}
	switch s.sh.kind {
	case "ident", "quoted":
		return "i:" + Hex(s.sh.path) + ":" + Hex(alias)
	case "fromq":
		return "f:" + Hex(filepath.Join(s.sh.path)) + ":" + Hex(s.sh.items[0]) + "=" + Hex(alias)
	case "fromdot":
		return "f:" + Hex(filepath.Join(s.sh.parents...)) + ":" + Hex(s.sh.items[0]) + "=" + Hex(alias)
	}
	return "x"
}

// candidate path texts for the module `name` whose file has extension `ext`
func smCandidates(name, ext string) []string {
	dir, base := "", name
	if i := strings.LastIndex(name, "/"); i >= 0 {
		dir, base = name[:i], name[i+1:]
	}
	c := []string{name, name + ext, name + ".risor", name + ".rsr", name + ".RISOR", name + ".txt", name + ext + ext, name + ".",
		name + "..", "./" + name, "./" + name + ext, name + "/", name + ext + "/", "/" + name, name + "/.", name + "/..",
		"\"" + name, name + "\"", "\"" + name + "\"", "\"" + name + ext + "\"", " " + name, name + " ", strings.ToUpper(name),
		strings.ReplaceAll(name, "/", "\\"), strings.ReplaceAll(name, "/", "."), "x/../" + name, name + "/../" + base,
		name + "%2erisor", name + "\x00", name + ext + "\x00", base, base + ext}
	if dir != "" {
		c = append(c, dir+"//"+base, dir+"/./"+base, dir+"/"+base+"/", dir+"/../"+name, dir+"/../"+name+ext, dir+ext+"/"+base,
			dir+"/"+base+ext+"/"+"n")
	}
	return c
}

// statement templates for a path text
func smForms(t string) [][2]string {
	q := c14Quote(t)
	dotted := strings.ReplaceAll(t, "/", ".")
	out := [][2]string{
		{"import-raw", "import " + t + " as " + smAlias},
		{"import-quoted", "import " + q + " as " + smAlias},
		{"import-single-quoted", "import '" + t + "' as " + smAlias},
		{"import-backtick", "import `" + t + "` as " + smAlias},
		{"from-quoted-attr", "from " + q + " import n as " + smAlias},
		{"from-dotted-attr", "from " + dotted + " import n as " + smAlias},
		{"from-raw-attr", "from " + t + " import n as " + smAlias},
		{"from-quoted-grouped-attr", "from " + q + " import (\n  n as " + smAlias + ",\n)"},
	}
	if i := strings.LastIndex(t, "/"); i > 0 && i < len(t)-1 {
		p, it := t[:i], t[i+1:]
		out = append(out,
			[2]string{"from-quoted-module", "from " + c14Quote(p) + " import " + it + " as " + smAlias},
			[2]string{"from-dotted-module", "from " + strings.ReplaceAll(p, "/", ".") + " import " + it + " as " + smAlias},
			[2]string{"from-grouped-module", "from " + strings.ReplaceAll(p, "/", ".") + " import (" + it + " as " + smAlias + ")"},
		)
	}
	return out
}

// one import in a body of a mix
type smImp struct {
	sp    smSpell
	alias string
	bump  int // added to the file's counter through the alias (module kind)
}

type smProg struct {
	main   []smImp
	bodies map[string][]smImp // hub file -> its imports
	kind   string
}

func smLoc(file string) string { return "root/" + file }

// source of a module file
func smRenderFile(file string, imps []smImp) string {
	var b strings.Builder
	b.WriteString("tick(" + strconv.Quote(smLoc(file)) + ")\n")
	b.WriteString("n := 0\n")
	for _, im := range imps {
		b.WriteString(im.sp.stmt(im.alias) + "\n")
		b.WriteString(fmt.Sprintf("%s.add_n(%d)\n", im.alias, im.bump))
	}
	b.WriteString("func add_n(v) { n = n + v }\n")
	b.WriteString("end_marker := 0\n")
	return b.String()
}

func smRenderMain(p *smProg) string {
	var b strings.Builder
	var obs []string
	for _, im := range p.main {
		b.WriteString(im.sp.stmt(im.alias) + "\n")
		if im.sp.kind == "module" {
			b.WriteString(fmt.Sprintf("%s.add_n(%d)\n", im.alias, im.bump))
			obs = append(obs, im.alias+".n")
		} else {
			obs = append(obs, im.alias)
		}
	}
	b.WriteString("[" + strings.Join(obs, ", ") + "]\n")
	return b.String()
}

func smWireBody(imps []smImp, isMain bool) string {
	var out []string
	if !isMain {
		out = append(out, "s:"+Hex("n")+":0")
	}
	for _, im := range imps {
		out = append(out, im.sp.wire(im.alias))
		if im.sp.kind == "module" {
			out = append(out, "a:"+Hex(im.alias)+":"+Hex("n")+":"+strconv.Itoa(im.bump))
		}
	}
	if len(out) == 0 {
		return "-"
	}
	return strings.Join(out, ";")
}

func (p *smProg) text() string {
	s := "main:\n" + smRenderMain(p)
	for _, h := range smHubs {
		if len(p.bodies[h]) > 0 {
			s += "--- " + h + ":\n" + smRenderFile(h, p.bodies[h])
		}
	}
	return s
}

type smOut struct {
	class string
	err   error
	ticks []string
	obs   []string
	names []string // module names the VM handed to the importer (FSImporter runs only)
}

func smFiles(p *smProg) map[string]string {
	m := map[string]string{}
	for _, f := range smTree {
		file := f[0] + f[1]
		var imps []smImp
		if p != nil {
			imps = p.bodies[file]
		}
		m[file] = smRenderFile(file, imps)
	}
	return m
}

func smRun(src string, files map[string]string, localRoot string) (out smOut) {
	tk := &c14Ticks{}
	opts := []risor.Option{risor.WithGlobal("tick", tk.builtin())}
	var ri *c14_recImporter
	if localRoot != "" {
		opts = append(opts, risor.WithLocalImporter(localRoot))
	} else {
		m := fstest.MapFS{}
		for k, v := range files {
			m[k] = &fstest.MapFile{Data: []byte(v)}
		}
		names := risor.NewConfig(opts...).GlobalNames()
		ri = &c14_recImporter{inner: importer.NewFSImporter(importer.FSImporterOptions{GlobalNames: names, SourceFS: m})}
		opts = append(opts, risor.WithImporter(ri))
	}
	res, err := c14Eval(src, opts...)
	if ri != nil {
		out.names = ri.names
	}
	out.err = err
	out.class = c14ErrClass(err)
	out.ticks = append(out.ticks, tk.l...)
	show := func(o object.Object) string {
		switch x := o.(type) {
		case *object.Int:
			return "i" + strconv.FormatInt(x.Value(), 10)
		case *object.NilType:
			return "n"
		case *object.Module:
			return "module"
		case nil:
			return "?"
		}
		return "?" + string(o.Type())
	}
	if l, ok := res.(*object.List); ok {
		for _, it := range l.Value() {
			out.obs = append(out.obs, show(it))
		}
	} else if err == nil {
		out.obs = append(out.obs, show(res))
	}
	return out
}

func smWriteTree(dir string, files map[string]string) string {
	root := filepath.Join(dir, "root")
	os.RemoveAll(dir)
	os.MkdirAll(root, 0o755)
	for _, n := range []string{"a", "c", "lib", "b"} {
		os.WriteFile(filepath.Join(dir, n+".risor"), []byte("tick(\"OUTSIDE/"+n+".risor\")\nn := 0\n"), 0o644)
	}
	for rel, src := range files {
		fp := filepath.Join(root, rel)
		os.MkdirAll(filepath.Dir(fp), 0o755)
		os.WriteFile(fp, []byte(src), 0o644)
	}
	return root
}

// reference semantics BY FILE: one counter per file, the body runs at the file's first import
func smReference(p *smProg) (ticks, obs []string) {
	loaded := map[string]bool{}
	cnt := map[string]int{}
	var imp func(file string)
	imp = func(file string) {
		if loaded[file] {
			return
		}
		loaded[file] = true
		ticks = append(ticks, smLoc(file))
		cnt[file] = 0
		for _, im := range p.bodies[file] {
			imp(im.sp.file)
			cnt[im.sp.file] += im.bump
		}
	}
	type pending struct {
		file string
		snap int
		attr bool
	}
	var ps []pending
	for _, im := range p.main {
		imp(im.sp.file)
		if im.sp.kind == "module" {
			cnt[im.sp.file] += im.bump
			ps = append(ps, pending{file: im.sp.file})
		} else {
			ps = append(ps, pending{file: im.sp.file, snap: cnt[im.sp.file], attr: true})
		}
	}
	for _, q := range ps {
		if q.attr {
			obs = append(obs, "i"+strconv.Itoa(q.snap))
		} else {
			obs = append(obs, "i"+strconv.Itoa(cnt[q.file]))
		}
	}
	return
}

func c14SpellMix(e *Env) {
	rng := e.Rng.Fork()
	t0 := time.Now()
	baseFiles := smFiles(nil)
	var fileKeys []string
	for _, f := range smTree {
		fileKeys = append(fileKeys, Hex(f[0]+f[1]))
	}
	extsField := Hex(c14Exts[0]) + "," + Hex(c14Exts[1])
	filesField := strings.Join(fileKeys, ",")

	// ---- 1. probe: which statements does the real parser accept, and which file do they reach
	byFile := map[string][]smSpell{}
	seenStmt := map[string]bool{}
	for _, f := range smTree {
		for _, t := range smCandidates(f[0], f[1]) {
			for _, fm := range smForms(t) {
				tmpl := fm[1]
				if seenStmt[tmpl] {
					continue
				}
				seenStmt[tmpl] = true
				c := fmt.Sprintf("spellmix probe %s %q", fm[0], tmpl)
				_, perr := func() (p any, err error) {
					defer func() {
						if r := recover(); r != nil {
							err = fmt.Errorf("parser panic: %v", r)
						}
					}()
					return parser.Parse(context.Background(), tmpl)
				}()
				goAccept := perr == nil
				e.R.Case(c, goAccept)
				// the model's verdict and the file it reaches
				var sh c14Shape
				covered := false
				if toks, lerr := c14Lex(tmpl); lerr == nil {
					sh, covered = c14ShapeOf(toks)
					if !covered {
						// the real parser tolerates a trailing '.' in a dotted parent list
						// (`from lib. import util`): same parents, same item
						var t2 []c14Tok
						for i, t := range toks {
							if t.typ == token.PERIOD && i+1 < len(toks) && toks[i+1].typ == token.IMPORT {
								continue
							}
							t2 = append(t2, t)
						}
						if len(t2) < len(toks) {
							sh, covered = c14ShapeOf(t2)
						}
					}
				}
				modelFile := "-"
				if covered && len(sh.items) <= 1 {
					var rep string
					switch sh.kind {
					case "ident", "quoted":
						rep = e.O.Ask("C14", "reach", extsField, filesField, sh.kind, Hex(sh.path), "-")
					case "fromq":
						rep = e.O.Ask("C14", "reach", extsField, filesField, "fromq", Hex(sh.path), Hex(sh.items[0]))
					case "fromdot":
						hs := make([]string, len(sh.parents))
						for i, p := range sh.parents {
							hs[i] = Hex(p)
						}
						rep = e.O.Ask("C14", "reach", extsField, filesField, "fromdot", strings.Join(hs, ","), Hex(sh.items[0]))
					}
					rf := strings.Split(rep, "\t")
					if len(rf) != 3 {
						e.R.Mismatch(c, "-", rep, "oracle reply malformed")
						continue
					}
					if (rf[0] == "accept") != goAccept {
						e.R.Mismatch(c, fmt.Sprintf("parser accept=%v (%v)", goAccept, perr), "model "+rf[0], "parser vs C14.accepted (spelling probe)")
					}
					if rf[1] != "-" {
						modelFile = UnHex(rf[1])
					}
				} else {
					covered = false
				}
				if !goAccept {
					e.R.H("spellmix_probe", "rejected by the parser")
					continue
				}
				// the statement alone: which file does it reach; then with its alias as the result
				// expression: what is the alias bound to
				alone := smRun(tmpl+"\n", baseFiles, "")
				goFile := "-"
				if len(alone.ticks) > 0 {
					goFile = strings.TrimPrefix(alone.ticks[0], "root/")
				}
				out := smRun(tmpl+"\n"+smAlias+"\n", baseFiles, "")
				if covered && goFile != modelFile {
					e.R.Mismatch(c, "reaches "+goFile, "reaches "+modelFile, "file reached by an accepted import statement vs C14.reachedFile")
				}
				for _, tck := range out.ticks {
					if !strings.HasPrefix(tck, "root/") {
						e.R.Spec(c, "code outside the import root ran: "+tck, "")
					}
				}
				switch {
				case len(out.ticks) == 0:
					e.R.H("spellmix_probe", "accepted, reaches no file")
					continue
				case out.err != nil || len(out.ticks) != 1 || len(out.obs) != 1:
					e.R.H("spellmix_probe", "accepted, reaches a file, statement fails")
					continue
				}
				kind := ""
				switch out.obs[0] {
				case "module":
					kind = "module"
				case "i0":
					kind = "attr"
				default:
					e.R.H("spellmix_probe", "accepted, binds something else")
					e.R.H("spellmix_binds_other", fmt.Sprintf("%q -> %s", tmpl, out.obs[0]))
					continue
				}
				e.R.H("spellmix_probe", "accepted, reaches a file")
				if !covered {
					e.R.H("spellmix_uncovered_form", fm[0]+" "+strconv.Quote(tmpl))
				}
				e.R.H("spellmix_form_kept", fm[0])
				name := ""
				if len(out.names) > 0 {
					name = out.names[len(out.names)-1]
				}
				byFile[goFile] = append(byFile[goFile], smSpell{tmpl: tmpl, form: fm[0], text: t, file: goFile, kind: kind, sh: sh, model: covered, name: name})
			}
		}
	}
	var files []string
	for f := range byFile {
		files = append(files, f)
	}
	sort.Strings(files)
	for _, f := range files {
		names := map[string]string{}
		for _, s := range byFile[f] {
			if _, ok := names[s.name]; !ok {
				names[s.name] = s.tmpl
			}
		}
		e.R.H("spellmix_spellings_per_file", fmt.Sprintf("%s: %d statements, %d module name(s)", f, len(byFile[f]), len(names)))
		if len(names) > 1 {
			// theorem accepted_names_resolve_injectively: a file has ONE module name
			var ns []string
			for n, st := range names {
				ns = append(ns, fmt.Sprintf("%q (e.g. %q)", n, st))
			}
			sort.Strings(ns)
			e.R.Mismatch("spellmix names of "+f, strings.Join(ns, ", "), "one module name per file",
				"accepted import statements load one file under several module names (C14.accepted_names_resolve_injectively)")
		}
	}
	if len(files) == 0 {
		e.R.Note("spellmix: the probe found no accepted spelling for any file of the tree")
		return
	}

	e.R.Note("spellmix: probe of %d candidate statements took %.1fs", len(seenStmt), time.Since(t0).Seconds())
	t1 := time.Now()
	defer func() { e.R.Note("spellmix: mixes took %.1fs", time.Since(t1).Seconds()) }()
	// ---- 2. mixes
	tmp, err := os.MkdirTemp("", "verif-c14m-")
	if err != nil {
		e.R.Note("cannot create temp tree: %v", err)
		tmp = ""
	} else {
		defer os.RemoveAll(tmp)
	}
	moduleSpells := func(f string) []smSpell {
		var out []smSpell
		for _, s := range byFile[f] {
			if s.kind == "module" {
				out = append(out, s)
			}
		}
		return out
	}
	nCase := 0
	run := func(p *smProg) {
		nCase++
		smCase(e, p, filesFieldBodies(p), tmp, nCase%4 == 0)
	}
	hubIdx := func(f string) int {
		for i, h := range smHubs {
			if h == f {
				return i
			}
		}
		return len(smHubs)
	}
	// (a) every ordered pair of distinct spellings of one file, directly in the script; the
	// module's counter is bumped between the two imports
	pairBudget := 160
	if !e.Quick {
		pairBudget = 100000
	}
	for _, f := range files {
		sp := byFile[f]
		type pr struct{ i, j int }
		var prs []pr
		for i := range sp {
			for j := range sp {
				if i != j {
					prs = append(prs, pr{i, j})
				}
			}
		}
		// pairs under two different module NAMES for one file are all run (the unchanged code has
		// none: a file has one name); pairs that differ only in the statement form or path text
		// are sampled in the quick tier
		same := 0
		for _, q := range prs {
			if sp[q.i].name == sp[q.j].name {
				if same >= pairBudget || (e.Quick && !rng.Chance(50)) {
					continue
				}
				same++
			}
			p := &smProg{kind: "pair", bodies: map[string][]smImp{},
				main: []smImp{{sp[q.i], "p", 1}, {sp[q.j], "q", 2}}}
			run(p)
		}
	}
	// (b) transitively: the script imports the file under one spelling and a hub module imports
	// it under another (both orders)
	for _, f := range files {
		if hubIdx(f) < len(smHubs) {
			continue
		}
		ms := moduleSpells(f)
		for _, hub := range smHubs {
			hs := moduleSpells(hub)
			if len(hs) == 0 || len(ms) == 0 {
				continue
			}
			n := 0
			for i, s1 := range byFile[f] {
				for j, s2 := range ms {
					if e.Quick && s1.name == s2.name && (i+j)%5 != 0 {
						continue
					}
					n++
					if e.Quick && n > 60 {
						break
					}
					h := Pick(rng, hs)
					body := map[string][]smImp{hub: {{s2, "u", 10}}}
					first := []smImp{{s1, "p", 1}, {h, "q", 100}}
					if rng.Bool() {
						first = []smImp{{h, "q", 100}, {s1, "p", 1}}
					}
					run(&smProg{kind: "transitive", bodies: body, main: first})
				}
			}
		}
	}
	// (c) seeded mixes: 3-6 imports over 1-3 files, spellings drawn independently, some of them
	// inside the hub modules (which the script then imports)
	nRand := 250
	if !e.Quick {
		nRand = 6000
	}
	for i := 0; i < nRand; i++ {
		p := &smProg{kind: "random", bodies: map[string][]smImp{}}
		nf := 1 + rng.Intn(3)
		var focus []string
		for len(focus) < nf {
			focus = append(focus, Pick(rng, files))
		}
		k := 3 + rng.Intn(4)
		na := 0
		bump := 1
		usedHub := map[string]bool{}
		for j := 0; j < k; j++ {
			f := Pick(rng, focus)
			sp := Pick(rng, byFile[f])
			na++
			alias := fmt.Sprintf("v%d", na)
			bump *= 3
			if sp.kind == "module" && rng.Chance(30) {
				// inside a hub that comes before the file in the tree order
				var cands []string
				for hi, h := range smHubs {
					if hi < hubIdx(f) && len(moduleSpells(h)) > 0 {
						cands = append(cands, h)
					}
				}
				if len(cands) > 0 {
					h := Pick(rng, cands)
					p.bodies[h] = append(p.bodies[h], smImp{sp, alias, bump})
					usedHub[h] = true
					continue
				}
			}
			p.main = append(p.main, smImp{sp, alias, bump})
		}
		for _, h := range smHubs {
			if usedHub[h] {
				na++
				bump *= 3
				im := smImp{Pick(rng, moduleSpells(h)), fmt.Sprintf("v%d", na), bump}
				at := rng.Intn(len(p.main) + 1)
				p.main = append(p.main[:at], append([]smImp{im}, p.main[at:]...)...)
			}
		}
		if len(p.main) == 0 {
			continue
		}
		run(p)
	}
}

// the oracle's `files` field for a mix
func filesFieldBodies(p *smProg) string {
	var fs []string
	for _, f := range smTree {
		file := f[0] + f[1]
		fs = append(fs, Hex(file)+"@"+smWireBody(p.bodies[file], false))
	}
	return strings.Join(fs, "|")
}

func smCase(e *Env, p *smProg, filesField string, tmp string, alsoLocal bool) {
	src := smRenderMain(p)
	c := "spellmix " + p.kind + " " + strings.ReplaceAll(strings.TrimSpace(p.text()), "\n", " ⏎ ")
	e.R.Case(c, true)
	e.R.H("spellmix_kind", p.kind)
	files := smFiles(p)
	out := smRun(src, files, "")
	e.R.H("spellmix_outcome", out.class)

	// how many NAMES (path texts) stand for one file in this evaluation
	texts := map[string]map[string]bool{}
	note := func(im smImp) {
		if texts[im.sp.file] == nil {
			texts[im.sp.file] = map[string]bool{}
		}
		texts[im.sp.file][im.sp.name] = true
	}
	modelOK := true
	var aliases []string
	for _, im := range p.main {
		note(im)
		aliases = append(aliases, im.alias)
		modelOK = modelOK && im.sp.model
	}
	for _, b := range p.bodies {
		for _, im := range b {
			note(im)
			modelOK = modelOK && im.sp.model
		}
	}
	maxTexts := 0
	for _, m := range texts {
		if len(m) > maxTexts {
			maxTexts = len(m)
		}
	}
	e.R.H("spellmix_module_names_for_one_file", strconv.Itoa(maxTexts))

	// Impl: the import machine with the names the statement forms request
	if modelOK {
		keys := append([]string{"n"}, aliases...)
		hk := make([]string, len(keys))
		for i, k := range keys {
			hk[i] = Hex(k)
		}
		rep := e.O.Ask("C14", "mix", "4000", "1024", Hex(c14Root), Hex(c14Exts[0])+","+Hex(c14Exts[1]), strings.Join(hk, ","), filesField, smWireBody(p.main, true))
		f := strings.Split(rep, "\t")
		if len(f) != 5 {
			e.R.Mismatch(c, "-", rep, "oracle reply malformed")
		} else {
			var mt []string
			for _, t := range c14Csv(f[1]) {
				mt = append(mt, "root/"+t)
			}
			vals := map[string]string{}
			for _, line := range c14ModelDump(f[4]) {
				eq := strings.IndexByte(line, '=')
				if eq > 0 {
					vals[line[:eq]] = line[eq+1:]
				}
			}
			var mobs []string
			for _, im := range p.main {
				v := vals["main."+im.alias]
				if strings.HasPrefix(v, "m") {
					v = vals["main."+im.alias+".n"]
				}
				if v == "" {
					v = "?"
				}
				mobs = append(mobs, v)
			}
			goS := fmt.Sprintf("%s ticks=%v obs=%v", out.class, out.ticks, out.obs)
			moS := fmt.Sprintf("%s ticks=%v obs=%v", f[0], mt, mobs)
			if f[0] != "ok" {
				moS = fmt.Sprintf("%s ticks=%v obs=[]", f[0], mt)
			}
			if goS != moS {
				e.R.Mismatch(c, goS, moS, "one file under several spellings: real VM/importer vs C14.run")
			}
			if f[2] != "true" || f[3] != "true" {
				e.R.Mismatch(c, "-", "runsOncePerFile="+f[2]+" oneObjectPerFile="+f[3], "the model itself runs a file twice (contradicts import_runs_once_per_file)")
			}
		}
	} else {
		e.R.H("spellmix_model", "statement form not covered by the model: Spec only")
	}

	smJudge(e, c, p, out, "FSImporter")
	if alsoLocal && tmp != "" {
		root := smWriteTree(filepath.Join(tmp, "t"), files)
		out2 := smRun(src, nil, root)
		if fmt.Sprint(out2.class, out2.ticks, out2.obs) != fmt.Sprint(out.class, out.ticks, out.obs) {
			e.R.Mismatch(c, fmt.Sprintf("local: %s %v %v %v", out2.class, out2.ticks, out2.obs, out2.err), fmt.Sprintf("fs: %s %v %v %v", out.class, out.ticks, out.obs, out.err), "LocalImporter and FSImporter differ on the same mix of spellings")
		}
		smJudge(e, c, p, out2, "LocalImporter")
	}
}

// Spec by file, on the real result
func smJudge(e *Env, c string, p *smProg, out smOut, which string) {
	spellingsOf := func(file string) string {
		var s []string
		add := func(im smImp, where string) {
			if im.sp.file == file {
				s = append(s, fmt.Sprintf("%q (%s)", im.sp.stmt(im.alias), where))
			}
		}
		for _, im := range p.main {
			add(im, "script")
		}
		for h, b := range p.bodies {
			for _, im := range b {
				add(im, "module "+h)
			}
		}
		sort.Strings(s)
		return strings.Join(s, ", ")
	}
	count := map[string]int{}
	for _, t := range out.ticks {
		count[t]++
		if !strings.HasPrefix(t, "root/") {
			e.R.Spec(c, which+": code outside the import root ran: "+t, "")
		}
	}
	var twice []string
	for t, n := range count {
		if n > 1 {
			twice = append(twice, t)
		}
	}
	sort.Strings(twice)
	for _, t := range twice {
		file := strings.TrimPrefix(t, "root/")
		e.R.Spec(c, fmt.Sprintf("%s: the top-level code of %s ran %d times in one evaluation (body executions in order: %v); the file was imported as %s",
			which, file, count[t], out.ticks, spellingsOf(file)), "")
	}
	if out.err != nil {
		return
	}
	wantTicks, wantObs := smReference(p)
	if len(twice) == 0 && strings.Join(out.obs, ",") != strings.Join(wantObs, ",") {
		var parts []string
		for i, im := range p.main {
			got := "?"
			if i < len(out.obs) {
				got = out.obs[i]
			}
			if i < len(wantObs) && got != wantObs[i] {
				parts = append(parts, fmt.Sprintf("%s (%q, file %s) shows n=%s, every importer of that file should see n=%s", im.alias, im.sp.stmt(im.alias), im.sp.file, strings.TrimPrefix(got, "i"), strings.TrimPrefix(wantObs[i], "i")))
			}
		}
		e.R.Spec(c, which+": importers of one file do not see the same module state: "+strings.Join(parts, "; "), "")
	} else if len(twice) > 0 && strings.Join(out.obs, ",") != strings.Join(wantObs, ",") {
		e.R.H("spellmix_split_state", "aliases of one file hold independent globals")
	}
	if len(twice) == 0 && strings.Join(out.ticks, ",") != strings.Join(wantTicks, ",") {
		e.R.Mismatch(c, fmt.Sprint(out.ticks), fmt.Sprint(wantTicks), which+": files loaded vs the by-file reference semantics")
	}
}
