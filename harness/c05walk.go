package main

// C05, stream G — walks over a container whose elements can fail one by one.
//
// Scenario class: the ERROR of an operation that walks a map or a set (or a list holding
// them) and stops at the first element it cannot process, when SEVERAL elements fail, each in
// its own way: json.marshal (plain, indented, under try, nested in a list / in another map, and
// json.Marshal called by the host on the returned object), encode(x, "json"), the `data` of an
// http request, the parameter and environment maps of exec(), the headers of an http request,
// and every builtin / module function / method of stream E applied to a map of unmarshalable
// values and to a heterogeneous set.  The error — class and text — must be the same in every
// evaluation (fresh VMs, fresh processes: Go re-rolls the iteration order of every `range`).
//
//  G1  generated value trees (maps of 2-12 entries, sets, lists, nested to depth 3; entries are
//      scalars, unmarshalable values of 13 kinds, or containers) against the Lean model
//      `JV.marshal` (outcome = JSON text or error text, compared byte for byte) and repeated;
//  G2  every callable of stream E x {map of unmarshalable values, heterogeneous set with ±Inf}
//      at every argument position, repeated (law only);
//  G3  site probes for the map-range sites of modules/exec and modules/http (first failure
//      against `firstFailure`; header values against `headerValues`).

import (
	"bytes"
	"encoding/json"
	"fmt"
	"math"
	"regexp"
	"sort"
	"strconv"
	"strings"
	"time"

	"github.com/risor-io/risor/object"
)

const (
	c05_fExec   = "C05-exec-params-order"
	c05_fHeader = "C05-http-header-case-order"
)

// the operations of the stream; must be the model's `walkOps` (checked at run time)
var c05_walkOps = []string{"json.marshal", "json.marshal-indent", "json.marshal-try", "json.marshal-nested-list", "json.marshal-nested-map",
	"go-json.Marshal", "encode-json", "http-data", "exec-params", "exec-env-values", "exec-env-order", "http-headers"}

type c05jm struct {
	tok, src, res string
	ok            bool
}

// c05jv is one node of a value tree: what the script builds and what the model is told.
type c05jv struct {
	kind    string // ok | bad | list | map | set
	src     string // leaves: the script expression
	text    string // ok: the JSON text; bad: the error of the value's own MarshalJSON (as encoding/json reports it)
	kids    []*c05jv
	keys    []string // map: keys in insertion order
	members []c05jm  // set
}

const c05_jsonWrap = "json: error calling MarshalJSON for type *object."

type c05leaf struct{ src, text string }

var c05_badLeaves = []c05leaf{
	{"func() { return 1 }", c05_jsonWrap + "Function: type error: unable to marshal function"},
	{"math", c05_jsonWrap + "Module: type error: unable to marshal module"},
	{"len", c05_jsonWrap + "Builtin: type error: unable to marshal builtin"},
	{"chan(1)", c05_jsonWrap + "Chan: type error: unable to marshal channel"},
	{"errors.new(\"boom\")", c05_jsonWrap + "Error: type error: unable to marshal error"},
	{"iter([1])", c05_jsonWrap + "ListIter: type error: unable to marshal list_iter"},
	{"iter({1})", c05_jsonWrap + "SetIter: type error: unable to marshal set_iter"},
	{"iter({\"k\": 1})", c05_jsonWrap + "MapIter: type error: unable to marshal map_iter"},
	{"iter(3)", c05_jsonWrap + "IntIter: type error: unable to marshal int_iter"},
	{"iter(\"ab\")", c05_jsonWrap + "SliceIter: type error: unable to marshal slice_iter"},
	{"math.inf()", c05_jsonWrap + "Float: json: unsupported value: +Inf"},
	{"(-math.inf())", c05_jsonWrap + "Float: json: unsupported value: -Inf"},
	{"float(\"nan\")", c05_jsonWrap + "Float: json: unsupported value: NaN"},
}

var c05_okLeaves = []c05leaf{
	{"7", "7"}, {"(-3)", "-3"}, {"\"ab\"", "\"ab\""}, {"\"\"", "\"\""}, {"true", "true"}, {"false", "false"}, {"nil", "null"},
	{"2.5", "2.5"}, {"10.0", "10"}, {"byte(3)", "3"}, {"float_slice([1.5, 2])", "[1.5,2]"}, {"byte_slice([65, 66])", "\"AB\""},
}

var c05_walkKeys = []string{"a", "b", "c", "k1", "k2", "zeta", "Alpha", "B", "f", "m", "x9", "key", "Z", "aa", "ab", "k10", "_u", "0", "10", "9"}

func c05_genJV(r *RNG, depth int, top bool) *c05jv {
	kind := r.Intn(10)
	if top {
		kind = Pick(r, []int{0, 0, 0, 0, 0, 0, 4, 6}) // mostly a map at the top
	} else if depth <= 0 {
		kind = 8 + r.Intn(2)
	}
	switch {
	case kind <= 3: // map
		n := 2 + r.Intn(7)
		if r.Chance(12) {
			n = 9 + r.Intn(4) // more than one bucket of the Go map
		}
		if r.Chance(6) {
			n = r.Intn(2)
		}
		perm := r.Fork()
		keys := append([]string{}, c05_walkKeys...)
		for i := len(keys) - 1; i > 0; i-- {
			j := perm.Intn(i + 1)
			keys[i], keys[j] = keys[j], keys[i]
		}
		v := &c05jv{kind: "map", keys: keys[:n]}
		badPct := Pick(r, []int{25, 45, 45, 70, 100})
		for i := 0; i < n; i++ {
			switch {
			case r.Chance(badPct):
				l := Pick(r, c05_badLeaves)
				v.kids = append(v.kids, &c05jv{kind: "bad", src: l.src, text: l.text})
			case depth > 0 && r.Chance(35):
				v.kids = append(v.kids, c05_genJV(r, depth-1, false))
			default:
				l := Pick(r, c05_okLeaves)
				v.kids = append(v.kids, &c05jv{kind: "ok", src: l.src, text: l.text})
			}
		}
		return v
	case kind == 4 || kind == 5: // set
		var ms []c05jm
		for _, it := range c05_genItems(r, 1+r.Intn(6), Pick(r, []int{0, 0, 2, 3}), true, 0) {
			m := c05jm{tok: it.tok, src: it.src, ok: true}
			switch it.ty {
			case "float":
				b, _ := json.Marshal(it.obj.(*object.Float).Value())
				m.res = string(b)
			case "int":
				m.res = strconv.FormatInt(it.obj.(*object.Int).Value(), 10)
			case "string":
				b, _ := json.Marshal(it.obj.(*object.String).Value())
				m.res = string(b)
			case "bool":
				m.res = it.src
			case "nil":
				m.res = "null"
			}
			ms = append(ms, m)
		}
		// members that fail: +Inf and -Inf (hashable, and unsupported by encoding/json)
		if r.Chance(55) {
			at := r.Intn(len(ms) + 1)
			ms = append(ms[:at], append([]c05jm{{tok: "d:" + strconv.FormatInt(c05_fltOrd(math.Inf(1)), 10), src: "math.inf()",
				res: c05_jsonWrap + "Float: json: unsupported value: +Inf"}}, ms[at:]...)...)
		}
		if r.Chance(55) {
			at := r.Intn(len(ms) + 1)
			ms = append(ms[:at], append([]c05jm{{tok: "d:" + strconv.FormatInt(c05_fltOrd(math.Inf(-1)), 10), src: "(-math.inf())",
				res: c05_jsonWrap + "Float: json: unsupported value: -Inf"}}, ms[at:]...)...)
		}
		return &c05jv{kind: "set", members: ms}
	case kind == 6 || kind == 7: // list
		n := r.Intn(5)
		v := &c05jv{kind: "list"}
		for i := 0; i < n; i++ {
			switch {
			case r.Chance(35):
				l := Pick(r, c05_badLeaves)
				v.kids = append(v.kids, &c05jv{kind: "bad", src: l.src, text: l.text})
			case depth > 0 && r.Chance(45):
				v.kids = append(v.kids, c05_genJV(r, depth-1, false))
			default:
				l := Pick(r, c05_okLeaves)
				v.kids = append(v.kids, &c05jv{kind: "ok", src: l.src, text: l.text})
			}
		}
		return v
	case kind == 8:
		l := Pick(r, c05_badLeaves)
		return &c05jv{kind: "bad", src: l.src, text: l.text}
	default:
		l := Pick(r, c05_okLeaves)
		return &c05jv{kind: "ok", src: l.src, text: l.text}
	}
}

// build writes the statements that construct the value and returns the expression naming it.
// Maps are filled entry by entry (no multi-entry literal: finding C05-map-literal-order), in
// the node's insertion order, which fixes the slots of the Go map.
func (v *c05jv) build(sb *strings.Builder, n *int) string {
	switch v.kind {
	case "ok", "bad":
		return v.src
	case "list":
		var parts []string
		for _, k := range v.kids {
			parts = append(parts, k.build(sb, n))
		}
		*n++
		name := fmt.Sprintf("w%d", *n)
		fmt.Fprintf(sb, "%s := [%s]\n", name, strings.Join(parts, ", "))
		return name
	case "set":
		var parts []string
		for _, m := range v.members {
			parts = append(parts, m.src)
		}
		*n++
		name := fmt.Sprintf("w%d", *n)
		fmt.Fprintf(sb, "%s := {%s}\n", name, strings.Join(parts, ", "))
		return name
	default:
		var vals []string
		for _, k := range v.kids {
			vals = append(vals, k.build(sb, n))
		}
		*n++
		name := fmt.Sprintf("w%d", *n)
		fmt.Fprintf(sb, "%s := {}\n", name)
		for i, k := range v.keys {
			fmt.Fprintf(sb, "%s[%q] = %s\n", name, k, vals[i])
		}
		return name
	}
}

// tokens renders the tree for the oracle; every map and set node gets a visiting order drawn
// from r (the model's outcome must not depend on it: marshal_perm_invariant).
func (v *c05jv) tokens(r *RNG, out *[]string) {
	switch v.kind {
	case "ok":
		*out = append(*out, "o", Hex(v.text))
	case "bad":
		*out = append(*out, "b", Hex(v.text))
	case "list":
		*out = append(*out, "l", strconv.Itoa(len(v.kids)))
		for _, k := range v.kids {
			k.tokens(r, out)
		}
	case "set":
		*out = append(*out, "S", strconv.Itoa(len(v.members)), c05_permField(c05_randPerm(r, len(v.members))))
		for _, m := range v.members {
			tag := "b"
			if m.ok {
				tag = "o"
			}
			*out = append(*out, m.tok, tag, Hex(m.res))
		}
	default:
		*out = append(*out, "m", strconv.Itoa(len(v.kids)), c05_permField(c05_randPerm(r, len(v.kids))))
		for i, k := range v.kids {
			*out = append(*out, Hex(v.keys[i]))
			k.tokens(r, out)
		}
	}
}

// failing counts the elements of the tree whose own marshalling fails, and the largest number
// of failing entries (direct or nested) of one map / set node.
func (v *c05jv) failing() (total, maxNode int) {
	switch v.kind {
	case "bad":
		return 1, 0
	case "ok":
		return 0, 0
	case "set":
		for _, m := range v.members {
			if !m.ok {
				total++
			}
		}
		return total, total
	}
	entries := 0
	for _, k := range v.kids {
		t, m := k.failing()
		total += t
		if t > 0 {
			entries++
		}
		if m > maxNode {
			maxNode = m
		}
	}
	if v.kind == "map" && entries > maxNode {
		maxNode = entries
	}
	return
}

func c05_wrapList(v *c05jv) *c05jv {
	return &c05jv{kind: "list", kids: []*c05jv{{kind: "ok", src: "0", text: "0"}, v}}
}

func c05_wrapMap(r *RNG, v *c05jv) *c05jv {
	sib := Pick(r, c05_badLeaves)
	key := Pick(r, []string{"aa", "zz"}) // a failing sibling before / after the key of the value
	w := &c05jv{kind: "map", keys: []string{"in", key}, kids: []*c05jv{v, {kind: "bad", src: sib.src, text: sib.text}}}
	if r.Bool() {
		w.keys[0], w.keys[1] = w.keys[1], w.keys[0]
		w.kids[0], w.kids[1] = w.kids[1], w.kids[0]
	}
	return w
}

type c05walkCase struct {
	op    string
	src   string
	model string // "out\t<text>" | "err\t<text>" | "" (law only)
	tree  *c05jv
}

// c05_askMarshal returns ("out"|"err", text, noNaN).
func c05_askMarshal(e *Env, r *RNG, v *c05jv, mode string) (string, string, bool) {
	var toks []string
	v.tokens(r, &toks)
	rep := strings.Split(e.O.Ask("C05", "marshal", mode, strings.Join(toks, " ")), "\t")
	if len(rep) != 3 || (rep[0] != "out" && rep[0] != "err") {
		return "error", strings.Join(rep, " "), false
	}
	return rep[0], UnHex(rep[1]), rep[2] == "true"
}

var c05_walkDirected = []func() *c05jv{
	// two failing values in the first and the fifth slot of an eight-entry map: a `range` starts at either with equal probability
	func() *c05jv {
		v := &c05jv{kind: "map", keys: []string{"f", "a", "b", "c", "m", "d", "e", "g"}}
		for i := range v.keys {
			l := c05leaf{strconv.Itoa(i), strconv.Itoa(i)}
			kind := "ok"
			if i == 0 {
				l, kind = c05_badLeaves[0], "bad"
			}
			if i == 4 {
				l, kind = c05_badLeaves[1], "bad"
			}
			v.kids = append(v.kids, &c05jv{kind: kind, src: l.src, text: l.text})
		}
		return v
	},
	// every value fails, each in its own way
	func() *c05jv {
		v := &c05jv{kind: "map", keys: []string{"k3", "k1", "k4", "k2", "k8", "k6", "k5", "k7"}}
		for i := range v.keys {
			l := c05_badLeaves[i]
			v.kids = append(v.kids, &c05jv{kind: "bad", src: l.src, text: l.text})
		}
		return v
	},
	// a function and a module
	func() *c05jv {
		return &c05jv{kind: "map", keys: []string{"fn", "mod"}, kids: []*c05jv{
			{kind: "bad", src: c05_badLeaves[0].src, text: c05_badLeaves[0].text}, {kind: "bad", src: c05_badLeaves[1].src, text: c05_badLeaves[1].text}}}
	},
	// the failures sit one level down, in two different inner maps
	func() *c05jv {
		in := func(l c05leaf) *c05jv {
			return &c05jv{kind: "map", keys: []string{"p", "q"}, kids: []*c05jv{{kind: "ok", src: "1", text: "1"}, {kind: "bad", src: l.src, text: l.text}}}
		}
		return &c05jv{kind: "map", keys: []string{"y", "s", "x", "t", "w", "u"}, kids: []*c05jv{in(c05_badLeaves[3]), {kind: "ok", src: "1", text: "1"},
			{kind: "ok", src: "2", text: "2"}, in(c05_badLeaves[5]), {kind: "ok", src: "3", text: "3"}, {kind: "ok", src: "4", text: "4"}}}
	},
	// a set whose two infinite members both fail
	func() *c05jv {
		return &c05jv{kind: "set", members: []c05jm{
			{tok: "d:" + strconv.FormatInt(c05_fltOrd(math.Inf(1)), 10), src: "math.inf()", res: c05_jsonWrap + "Float: json: unsupported value: +Inf"},
			{tok: "i:1", src: "1", res: "1", ok: true},
			{tok: "d:" + strconv.FormatInt(c05_fltOrd(math.Inf(-1)), 10), src: "(-math.inf())", res: c05_jsonWrap + "Float: json: unsupported value: -Inf"}}}
	},
}

// c05WalkMarshal: stream G1.
func c05WalkMarshal(e *Env, n, reps, children int) {
	rng := e.Rng.Fork()
	if got := e.O.Ask("C05", "walkOps"); got != strings.Join(c05_walkOps, ",") {
		e.R.Mismatch("walkOps", strings.Join(c05_walkOps, ","), got, "the operations of the failing-element stream against the model's table")
	}
	var childSrcs []string
	var childProgs []c05Prog
	var inProc []c05Obs
	for i := 0; i < n+len(c05_walkDirected); i++ {
		r := rng.Fork()
		var tree *c05jv
		if i < len(c05_walkDirected) {
			tree = c05_walkDirected[i]()
		} else {
			tree = c05_genJV(r, 1+r.Intn(3), true)
		}
		var pre strings.Builder
		cnt := 0
		name := tree.build(&pre, &cnt)
		total, maxNode := tree.failing()
		e.R.H("walk_failing_elements", strconv.Itoa(min(total, 6)))
		e.R.H("walk_failing_entries_of_one_node", strconv.Itoa(min(maxNode, 6)))
		e.R.H("walk_top", tree.kind)

		// the routes
		lw := c05_wrapList(tree)
		mw := c05_wrapMap(r, tree)
		var mwPre strings.Builder
		mwCnt := 100
		mwName := mw.build(&mwPre, &mwCnt)
		cases := []c05walkCase{
			{op: "json.marshal", src: pre.String() + "json.marshal(" + name + ")\n", tree: tree},
			{op: "json.marshal-indent", src: pre.String() + "json.marshal(" + name + ", \"  \")\n", tree: tree},
			{op: "json.marshal-try", src: pre.String() + "try(func() { return json.marshal(" + name + ") }, func(e) { return \"caught: \" + string(e) })\n", tree: tree},
			{op: "json.marshal-nested-list", src: pre.String() + "json.marshal([0, " + name + "])\n", tree: lw},
			{op: "json.marshal-nested-map", src: mwPre.String() + "json.marshal(" + mwName + ")\n", tree: mw},
			{op: "go-json.Marshal", src: pre.String() + name + "\n", tree: tree},
			{op: "encode-json", src: pre.String() + "encode(" + name + ", \"json\")\n"},
			{op: "http-data", src: pre.String() + "string(http.request(\"http://localhost:1/x\", {\"data\": " + name + "}))\n"},
		}
		for ci, c := range cases {
			nontrivial := total >= 2
			e.R.Case(c.op+"\n"+c.src, nontrivial)
			// ---- the model's outcome
			wantKind, wantText, guardOK := "", "", true
			if c.tree != nil {
				wantKind, wantText, guardOK = c05_askMarshal(e, r, c.tree, "sorted")
				if wantKind == "error" {
					e.R.Mismatch(c.src, "-", wantText, "oracle rejected the value tree")
					continue
				}
				// the model under a second, independent choice of visiting orders (marshal_perm_invariant, concretely)
				k2, t2, _ := c05_askMarshal(e, r, c.tree, "sorted")
				if k2 != wantKind || t2 != wantText {
					e.R.Mismatch(c.src, "-", wantKind+" "+wantText+" | "+k2+" "+t2, "JV.marshal under two choices of visiting orders")
				}
			}
			// ---- the real code, repeated
			outcomes := map[string]int{}
			var first string
			n := reps
			if c.op == "json.marshal" {
				n = reps * 2
			}
			if c.op == "go-json.Marshal" {
				n = 1
			}
			timedOut := false
			var obj object.Object
			for rep := 0; rep < n; rep++ {
				out := EvalSrc(c.src, 5*time.Second)
				if ErrClass(out.Err) == "context" {
					timedOut = true
					break
				}
				got := ""
				switch {
				case out.Err != "":
					got = "err\t" + out.Err
				case out.Obj != nil && out.Type == "string":
					got = "out\t" + out.Obj.(*object.String).Value()
				default:
					got = "out\t" + out.Value
				}
				obj = out.Obj
				if rep == 0 {
					first = got
				}
				outcomes[got]++
			}
			if timedOut {
				e.R.H("walk_outcome", "time-limit (not compared)")
				continue
			}
			if c.op == "go-json.Marshal" {
				// the host marshals the object the script returned: many cheap repetitions
				outcomes = map[string]int{}
				if obj == nil {
					e.R.H("walk_outcome", c.op+": script failed")
					continue
				}
				for rep := 0; rep < reps*8; rep++ {
					got := func() (got string) {
						defer func() {
							if p := recover(); p != nil {
								got = fmt.Sprintf("err\tPANIC %v", p)
							}
						}()
						b, err := json.Marshal(obj)
						if err != nil {
							return "err\t" + err.Error()
						}
						return "out\t" + string(b)
					}()
					if rep == 0 {
						first = got
					}
					outcomes[got]++
				}
			}
			e.R.H("walk_outcome", c.op+": "+strings.SplitN(first, "\t", 2)[0])
			// ---- Spec: one outcome
			if len(outcomes) > 1 {
				var texts []string
				for t, k := range outcomes {
					texts = append(texts, fmt.Sprintf("%dx %s", k, strings.Replace(t, "\t", " ", 1)))
				}
				sort.Strings(texts)
				e.R.H("walk_varied", c.op)
				finding := ""
				if !guardOK {
					finding = c05_fSetNaN
				}
				e.R.Spec(c.src, fmt.Sprintf("%s over a container with %d failing elements: the outcome differs between evaluations of the same script: %s",
					c.op, total, strings.Join(texts, " | ")), finding)
			}
			// ---- correspondence with the model
			if c.tree != nil && guardOK {
				want := ""
				switch {
				case wantKind == "err" && c.op == "go-json.Marshal":
					want = "err\t" + wantText
				case wantKind == "err" && c.op == "json.marshal-try":
					want = "out\tcaught: value error: json.marshal failed: " + wantText
				case wantKind == "err":
					want = "err\tvalue error: json.marshal failed: " + wantText
				default:
					want = "out\t" + wantText
				}
				got := first
				if c.op == "json.marshal-indent" && strings.HasPrefix(first, "out\t") {
					var cb bytes.Buffer
					if json.Compact(&cb, []byte(first[4:])) == nil {
						got = "out\t" + cb.String()
					}
				}
				if got != want {
					e.R.H("walk_model", "differs")
					e.R.Mismatch(c.src, strings.Replace(got, "\t", " ", 1), strings.Replace(want, "\t", " ", 1), c.op+" against JV.marshal (first failure in key order / SortedItems order)")
				} else {
					e.R.H("walk_model", "agrees")
				}
			}
			for _, t := range []string{first} {
				if m := c05_ptrPattern.FindString(t); m != "" {
					e.R.Spec(c.src, fmt.Sprintf("the outcome contains a Go pointer (%s): %q", m, t), "")
				}
			}
			// one script per tree also goes to fresh processes
			if ci == 0 || (ci == 4 && i%3 == 0) {
				childSrcs = append(childSrcs, c.src)
				childProgs = append(childProgs, c05Prog{src: c.src})
				inProc = append(inProc, c05Observe(c.src))
			}
		}
	}
	kids := c05RunChildren(childSrcs, children)
	for ci, k := range kids {
		if k == nil {
			e.R.Mismatch(fmt.Sprintf("walk: child process %d", ci), "did not return one observation per program", "-", "child process failed")
		}
	}
	for i, p := range childProgs {
		all := []c05Obs{inProc[i]}
		timedOut := ErrClass(inProc[i].Err) == "context"
		for _, k := range kids {
			if k != nil {
				all = append(all, k[i])
				timedOut = timedOut || ErrClass(k[i].Err) == "context"
			}
		}
		if len(all) > 1 && !timedOut {
			c05Compare(e, p, all, "walk-fresh-processes")
		}
	}
}

// ------------------------------------------------------------------ G2: every callable x failing containers

var c05_walkContainerDefs = map[string]string{
	// a map whose values cannot be marshalled, converted, added, compared or joined, each for its own reason
	"bm": "bm := {}\nbm[\"fig\"] = func() { return 1 }\nbm[\"yam\"] = math\nbm[\"kiwi\"] = chan(1)\nbm[\"date\"] = [1]\nbm[\"apple\"] = len\nbm[\"pear\"] = math.inf()\nbm[\"plum\"] = iter([1])\nbm[\"lime\"] = errors.new(\"e\")\n",
	// a heterogeneous set: no two members have the same type problem (sum, compare, join, convert)
	"bs":  "bs := {2.5, \"a\", nil, true, 1, math.inf(), (-math.inf()), \"b\", byte(7), 10}\n",
	"cmp": "cmp := func(a, b) { return len(string(a)) < len(string(b)) }\n",
}

func c05_walkArgScript(callee string, args []string) string {
	call := callee + "(" + strings.Join(args, ", ") + ")"
	var sb strings.Builder
	for _, name := range []string{"cm", "cs", "cf", "cmp", "co", "bm", "bs"} {
		if regexp.MustCompile(`\b` + name + `\b`).MatchString(call) {
			if d, ok := c05_walkContainerDefs[name]; ok {
				sb.WriteString(d)
			} else {
				sb.WriteString(c05_containerDefs[name])
			}
		}
	}
	sb.WriteString(call + "\n")
	return sb.String()
}

func c05WalkCallables(e *Env, reps int) {
	fillers := []string{"0", "\"json\"", "cmp", "[1, 2]"}
	callables := append(append([]string{}, c05_callables...), "math.sum", "math.min", "math.max", "strings.join", "bm.update", "bs.union", "bs.intersection",
		"bs.difference", "[bm, bs].map", "[bm, bs].filter", "[bs, bm].each", "fmt.errorf", "errors.new", "filepath.join", "strconv.itoa",
		"bytes.contains", "regexp.compile", "time.parse", "base64.decode", "rand.choice")
	for _, callee := range callables {
		for _, c := range []string{"bm", "bs"} {
			forms := [][]string{{c}, {"[" + c + "]"}}
			for _, f := range fillers {
				if f == c {
					continue
				}
				forms = append(forms, []string{c, f}, []string{f, c})
			}
			for _, args := range forms {
				if callee == "rand.choice" {
					continue // explicitly nondeterministic
				}
				src := c05_walkArgScript(callee, args)
				e.R.Case(src, true)
				var first EvalOut
				varied := ""
				for rep := 0; rep < reps; rep++ {
					out := EvalSrc(src, 5*time.Second)
					if ErrClass(out.Err) == "context" {
						varied = ""
						break
					}
					if rep == 0 {
						first = out
						continue
					}
					if out.Value != first.Value || out.Err != first.Err || out.Stdout != first.Stdout {
						varied = fmt.Sprintf("value=%q err=%q stdout=%q | value=%q err=%q stdout=%q", first.Value, first.Err, first.Stdout, out.Value, out.Err, out.Stdout)
						break
					}
				}
				cls := "value"
				if first.Err != "" {
					cls = ErrClass(first.Err)
				}
				e.R.H("walk_callable_outcome", cls)
				if varied != "" {
					e.R.H("walk_callable_varied", callee)
					e.R.Spec(src, "evaluations of the same script (a callable over a container with several failing elements) differ: "+varied, "")
				}
				for _, t := range []string{first.Value, first.Err, first.Stdout} {
					if m := c05_ptrPattern.FindString(t); m != "" {
						e.R.H("walk_callable_pointer_text", callee)
						e.R.Spec(src, fmt.Sprintf("the result, error text or stdout contains a Go pointer (%s): value=%q err=%q stdout=%q", m, first.Value, first.Err, first.Stdout), "")
						break
					}
				}
			}
		}
	}
}

// ------------------------------------------------------------------ G3: the map-range sites of modules/exec and modules/http

var c05_execKeyErr = regexp.MustCompile(`exec found unexpected key "([^"]*)"`)
var c05_execEnvErr = regexp.MustCompile(`exec expected string for env value \(got ([a-z_]+)\)`)

func c05WalkSites(e *Env, n, reps int) {
	rng := e.Rng.Fork()
	allowed := []struct{ k, v string }{{"dir", "\"/\""}, {"stdin", "\"x\""}, {"env", "{}"}}
	unexpected := []string{"timeout", "cwd", "Env", "shell", "user", "args", "stdio", "x"}
	// ---- exec(): the parameter map (configureCommand 0: the first key that is not allowed)
	for i := 0; i < n; i++ {
		r := rng.Fork()
		k := 1 + r.Intn(5)
		var keys, flags, vals []string
		used := map[string]bool{}
		nBad := 0
		for j := 0; j < k; j++ {
			if j == 0 || r.Chance(60) {
				u := Pick(r, unexpected)
				if used[u] {
					continue
				}
				used[u] = true
				keys, vals, flags = append(keys, u), append(vals, strconv.Itoa(j)), append(flags, fmt.Sprintf("e%d", len(keys)))
				nBad++
			} else {
				a := Pick(r, allowed)
				if used[a.k] {
					continue
				}
				used[a.k] = true
				keys, vals, flags = append(keys, a.k), append(vals, a.v), append(flags, "ok")
			}
		}
		at := r.Intn(len(keys))
		keys[0], keys[at] = keys[at], keys[0]
		vals[0], vals[at] = vals[at], vals[0]
		flags[0], flags[at] = flags[at], flags[0]
		var sb strings.Builder
		sb.WriteString("p := {}\n")
		for j := range keys {
			fmt.Fprintf(&sb, "p[%q] = %s\n", keys[j], vals[j])
		}
		sb.WriteString("exec(\"true\", [], p)\n")
		src := sb.String()
		e.R.Case("exec-params\n"+src, nBad >= 2)
		e.R.H("walk_exec_unexpected_keys", strconv.Itoa(nBad))
		seen := map[string]bool{}
		agree := true
		for rep := 0; rep < reps; rep++ {
			out := EvalSrc(src, 5*time.Second)
			got := out.Err
			seen[got] = true
			reported := -1
			if m := c05_execKeyErr.FindStringSubmatch(got); m != nil {
				for j := range keys {
					if keys[j] == m[1] {
						reported = j
					}
				}
			}
			var perm []int
			if reported >= 0 {
				perm = append(perm, reported)
			}
			for j := range keys {
				if j != reported {
					perm = append(perm, j)
				}
			}
			want := e.O.Ask("C05", "firstFailure", c05_permField(perm), strings.Join(flags, ","))
			if !(reported >= 0 && flags[reported] == want) {
				agree = false
				e.R.Mismatch(src, got, "first failure "+want, "exec() parameter map against firstFailure")
				break
			}
		}
		if len(seen) > 1 {
			finding := ""
			if nBad >= 2 && agree {
				finding = c05_fExec
			}
			e.R.Spec(src, fmt.Sprintf("exec(): the error names a different unexpected key from one evaluation to the next: %d different messages in %d evaluations", len(seen), reps), finding)
		}
	}
	// ---- exec(): the env map (configureCommand 1: the first value that is not a string)
	badVals := []struct{ src, ty string }{{"1", "int"}, {"[2]", "list"}, {"2.5", "float"}, {"nil", "nil"}, {"true", "bool"}, {"{3}", "set"}, {"byte(1)", "byte"}}
	for i := 0; i < n; i++ {
		r := rng.Fork()
		k := 1 + r.Intn(5)
		var keys, flags, vals, tys []string
		kinds := map[string]bool{}
		for j := 0; j < k; j++ {
			keys = append(keys, fmt.Sprintf("V%d", j))
			if j == 0 || r.Chance(55) {
				b := Pick(r, badVals)
				vals, flags, tys = append(vals, b.src), append(flags, "e_"+b.ty), append(tys, b.ty)
				kinds[b.ty] = true
			} else {
				vals, flags, tys = append(vals, strconv.Quote(Pick(r, []string{"", "x", "a b"}))), append(flags, "ok"), append(tys, "")
			}
		}
		at := r.Intn(len(keys))
		vals[0], vals[at] = vals[at], vals[0]
		flags[0], flags[at] = flags[at], flags[0]
		tys[0], tys[at] = tys[at], tys[0]
		var sb strings.Builder
		sb.WriteString("en := {}\n")
		for j := range keys {
			fmt.Fprintf(&sb, "en[%q] = %s\n", keys[j], vals[j])
		}
		sb.WriteString("exec(\"true\", [], {\"env\": en})\n")
		src := sb.String()
		e.R.Case("exec-env-values\n"+src, len(kinds) >= 2)
		e.R.H("walk_exec_env_failing_kinds", strconv.Itoa(len(kinds)))
		seen := map[string]bool{}
		agree := true
		for rep := 0; rep < reps; rep++ {
			out := EvalSrc(src, 5*time.Second)
			got := out.Err
			seen[got] = true
			reported := -1
			if m := c05_execEnvErr.FindStringSubmatch(got); m != nil {
				for j := range keys {
					if tys[j] == m[1] {
						reported = j
						break
					}
				}
			}
			var perm []int
			if reported >= 0 {
				perm = append(perm, reported)
			}
			for j := range keys {
				if j != reported {
					perm = append(perm, j)
				}
			}
			want := e.O.Ask("C05", "firstFailure", c05_permField(perm), strings.Join(flags, ","))
			if !(reported >= 0 && flags[reported] == want) {
				agree = false
				e.R.Mismatch(src, got, "first failure "+want, "exec() env map against firstFailure")
				break
			}
		}
		if len(seen) > 1 {
			finding := ""
			if len(kinds) >= 2 && agree {
				finding = c05_fExec
			}
			e.R.Spec(src, fmt.Sprintf("exec(): the error names a different env value from one evaluation to the next: %d different messages in %d evaluations", len(seen), reps), finding)
		}
	}
	// ---- exec(): the order of the environment handed to the child process (configureCommand 1, success path)
	for i := 0; i < max(2, n/8); i++ {
		r := rng.Fork()
		k := 1 + r.Intn(6)
		var lines []string
		var sb strings.Builder
		sb.WriteString("en := {}\n")
		for j := 0; j < k; j++ {
			key := fmt.Sprintf("V%d", (j*5+r.Intn(3)*7)%23)
			dup := false
			for _, l := range lines {
				if strings.HasPrefix(l, key+"=") {
					dup = true
				}
			}
			if dup {
				continue
			}
			val := Pick(r, []string{"1", "x", "", "a b"})
			fmt.Fprintf(&sb, "en[%q] = %q\n", key, val)
			lines = append(lines, key+"="+val)
		}
		sb.WriteString("exec(\"env\", [], {\"env\": en}).stdout\n")
		src := sb.String()
		e.R.Case("exec-env-order\n"+src, len(lines) >= 2)
		seen := map[string]bool{}
		ran := true
		for rep := 0; rep < reps; rep++ {
			out := EvalSrc(src, 10*time.Second)
			if out.Err != "" || out.Obj == nil {
				ran = false // no `env` program here: nothing to observe
				break
			}
			got := strings.TrimRight(func() string {
				switch o := out.Obj.(type) {
				case *object.ByteSlice:
					return string(o.Value())
				case *object.String:
					return o.Value()
				case *object.Buffer:
					return o.Value().String()
				}
				return out.Value
			}(), "\n")
			seen[got] = true
			gl := strings.Split(got, "\n")
			if got == "" {
				gl = nil
			}
			a, b := append([]string{}, gl...), append([]string{}, lines...)
			sort.Strings(a)
			sort.Strings(b)
			if strings.Join(a, "\n") != strings.Join(b, "\n") {
				e.R.Mismatch(src, got, strings.Join(lines, "\n"), "exec(): the child's environment must be a permutation of the env map (inVisitingOrder)")
				break
			}
		}
		if !ran {
			e.R.H("walk_exec_env_order", "child program not runnable (not observed)")
			continue
		}
		e.R.H("walk_exec_env_order", fmt.Sprintf("%d orders", min(len(seen), 4)))
		if len(seen) > 1 {
			finding := ""
			if len(lines) >= 2 {
				finding = c05_fExec
			}
			e.R.Spec(src, fmt.Sprintf("exec(): the child process receives its environment in a different order from one evaluation to the next: %d orders in %d evaluations", len(seen), reps), finding)
		}
	}
	// ---- http.request: header names that differ only in case are filed under one canonical name
	names := []string{"a", "A", "x-id", "X-Id", "X-ID", "host", "Host", "HOST", "b", "accept", "Accept"}
	for i := 0; i < n; i++ {
		r := rng.Fork()
		k := 1 + r.Intn(5)
		var keys, vals []string
		used := map[string]bool{}
		for j := 0; j < k; j++ {
			nm := Pick(r, names)
			if used[nm] {
				continue
			}
			used[nm] = true
			keys, vals = append(keys, nm), append(vals, fmt.Sprintf("v%d", j))
		}
		var sb strings.Builder
		sb.WriteString("h := {}\n")
		for j := range keys {
			fmt.Fprintf(&sb, "h[%q] = %q\n", keys[j], vals[j])
		}
		sb.WriteString("http.request(\"http://localhost:1/x\", {\"headers\": h}).header\n")
		src := sb.String()
		canon := map[string][]int{}
		collide := false
		for j, kk := range keys {
			c := strings.ToLower(kk)
			canon[c] = append(canon[c], j)
			collide = collide || len(canon[c]) > 1
		}
		e.R.Case("http-headers\n"+src, collide)
		e.R.H("walk_http_header_collision", strconv.FormatBool(collide))
		seen := map[string]bool{}
		agree := true
		for rep := 0; rep < reps && agree; rep++ {
			out := EvalSrc(src, 5*time.Second)
			seen[out.Value+"|"+out.Err] = true
			hm, ok := out.Obj.(*object.Map)
			if !ok {
				agree = false
				e.R.Mismatch(src, out.Value+"|"+out.Err, "a map of header values", "http.request(...).header")
				break
			}
			// a visiting order consistent with what was observed: within each name, the observed order of the values
			var perm []int
			observed := map[string][]string{}
			for name, lv := range hm.Value() {
				l, _ := lv.(*object.List)
				if l == nil {
					continue
				}
				for _, it := range l.Value() {
					s, _ := it.(*object.String)
					if s == nil {
						continue
					}
					observed[name] = append(observed[name], s.Value())
					for j := range vals {
						if vals[j] == s.Value() {
							perm = append(perm, j)
						}
					}
				}
			}
			if len(perm) != len(keys) {
				agree = false
				e.R.Mismatch(src, out.Value, fmt.Sprintf("%d header values", len(keys)), "http.request(...).header lists every value once")
				break
			}
			var ents []string
			for j := range keys {
				ents = append(ents, Hex(keys[j])+":"+Hex(vals[j]))
			}
			for name, obs := range observed {
				want := c05_unhexList(e.O.Ask("C05", "headerValues", c05_permField(perm), Hex(name), strings.Join(ents, ",")))
				if want != strings.Join(obs, ";") {
					agree = false
					e.R.Mismatch(src, name+": "+strings.Join(obs, ";"), want, "http.request headers against headerValues")
					break
				}
			}
		}
		if len(seen) > 1 {
			finding := ""
			if collide && agree {
				finding = c05_fHeader
			}
			var texts []string
			for s := range seen {
				texts = append(texts, s)
			}
			sort.Strings(texts)
			e.R.Spec(src, "http.request: the header values filed under one name come in a different order from one evaluation to the next: "+strings.Join(texts, " / "), finding)
		} else if !collide {
			e.R.H("walk_http_header_outcomes", "1")
		}
		if !collide && len(seen) > 1 && agree {
			e.R.Mismatch(src, fmt.Sprintf("%d outcomes", len(seen)), "1 outcome", "headerValues with pairwise distinct canonical names (headerValues_perm_invariant)")
		}
	}
}
