package main

// C16 extension: (1) the functions TRANSLATED from object/list.go on every run
// (`ResolveIntSlice`, `(*List).Insert`) against the real functions; (2) lists WITH Go backing
// arrays (Lean `Risor.C16.Alias`: slice headers, in-place append) against the real list objects,
// plus the invariant the refinement theorem rests on -- no two live list objects use one
// backing array -- observed on the real objects through `List.Value()`.

import (
	"fmt"
	"math"
	"strconv"
	"strings"
	"unsafe"

	"github.com/risor-io/risor/object"
	"github.com/risor-io/risor/op"
)

func c16s_bound(rng *RNG, n int64) (string, object.Object) {
	switch r := rng.Intn(100); {
	case r < 18:
		return "_", nil
	case r < 78:
		v := int64(rng.Intn(int(2*n+7))) - n - 3
		return "i" + strconv.FormatInt(v, 10), object.NewInt(v)
	case r < 88:
		ext := []int64{math.MinInt64, math.MaxInt64, math.MinInt64 + 1, math.MaxInt64 - 1, -n, n, n - 1, -n - 1, 0}
		v := ext[rng.Intn(len(ext))]
		return "i" + strconv.FormatInt(v, 10), object.NewInt(v)
	case r < 92:
		return "s61", object.NewString("a")
	case r < 95:
		return "n", object.Nil
	case r < 98:
		return "d4", object.NewFloat(2.0)
	default:
		return "t", object.True
	}
}

// backing array of a real list: address of cell 0 and capacity (0, 0 for cap 0)
func c16s_backing(l *object.List) (uintptr, int) {
	items := l.Value()
	c := cap(items)
	if c == 0 {
		return 0, 0
	}
	full := items[:c]
	return uintptr(unsafe.Pointer(&full[0])), c
}

func c16s_render(lists []*object.List) string {
	parts := make([]string, len(lists))
	for i, l := range lists {
		xs := make([]string, 0, len(l.Value()))
		for _, it := range l.Value() {
			if iv, ok := it.(*object.Int); ok {
				xs = append(xs, "i"+strconv.FormatInt(iv.Value(), 10))
			} else {
				xs = append(xs, "?"+it.Inspect())
			}
		}
		parts[i] = strings.Join(xs, ",")
	}
	return strings.Join(parts, "/")
}

func c16s_shared(lists []*object.List) string {
	const cell = unsafe.Sizeof(object.Object(nil))
	for i := range lists {
		pi, ci := c16s_backing(lists[i])
		if ci == 0 {
			continue
		}
		for j := i + 1; j < len(lists); j++ {
			pj, cj := c16s_backing(lists[j])
			if cj == 0 {
				continue
			}
			if pi < pj+uintptr(cj)*cell && pj < pi+uintptr(ci)*cell {
				return fmt.Sprintf("lists %d and %d", i, j)
			}
		}
	}
	return ""
}

func c16SliceStreams(e *Env) {
	// ---- (1a) ResolveIntSlice: real function vs the translated one ----
	nSl := 6000
	nIns := 1500
	nAl := 1500
	if !e.Quick {
		nSl, nIns, nAl = 120000, 20000, 30000
	}
	type slCase struct {
		key    string
		goOut  string
		n      int64
		a, b   int64
		ok     bool
		sa, sb string
	}
	var reqs []string
	var scs []slCase
	for i := 0; i < nSl; i++ {
		rng := e.Rng.Fork()
		n := int64(rng.Intn(9))
		if rng.Chance(5) {
			n = int64(rng.Intn(1000))
		}
		sa, oa := c16s_bound(rng, n)
		sb, ob := c16s_bound(rng, n)
		st, sp, err := object.ResolveIntSlice(object.Slice{Start: oa, Stop: ob}, n)
		c := slCase{key: fmt.Sprintf("slicego %s:%s len=%d", sa, sb, n), n: n, a: st, b: sp, ok: err == nil, sa: sa, sb: sb}
		if err == nil {
			c.goOut = fmt.Sprintf("ok\t%d\t%d", st, sp)
			e.R.H("slicego_outcome", "ok")
		} else {
			cls := "other:" + err.Error()
			if strings.HasPrefix(err.Error(), "type error") {
				cls = "type"
			} else if strings.HasPrefix(err.Error(), "slice error") {
				cls = "slice"
			}
			c.goOut = "err\t" + cls
			e.R.H("slicego_outcome", "err-"+cls)
		}
		e.R.Case("C16s|"+c.key, sa != "_" || sb != "_")
		scs = append(scs, c)
		reqs = append(reqs, "C16\tslicego\t"+sa+"\t"+sb+"\t"+strconv.FormatInt(n, 10))
	}
	for i, rep := range e.O.AskBatch(reqs) {
		c := scs[i]
		if rep != c.goOut {
			e.R.Mismatch(c.key, c.goOut, rep, "object.ResolveIntSlice differs from the function translated from its source (resolveIntSliceGo)")
		}
		if c.ok && !(0 <= c.a && c.a <= c.b && c.b <= c.n) {
			e.R.Spec(c.key, fmt.Sprintf("ResolveIntSlice accepted bounds outside the container: start=%d stop=%d len=%d", c.a, c.b, c.n), "")
		}
	}
	// ---- (1b) (*List).Insert: where the new item lands vs the translated choice ----
	reqs = reqs[:0]
	type insCase struct {
		key string
		pos int
	}
	var ics []insCase
	for i := 0; i < nIns; i++ {
		rng := e.Rng.Fork()
		n := rng.Intn(7)
		var idx int64
		if rng.Chance(85) {
			idx = int64(rng.Intn(2*n+7)) - int64(n) - 3
		} else {
			idx = []int64{math.MinInt64, math.MaxInt64, math.MinInt64 + 1, -int64(n), int64(n)}[rng.Intn(5)]
		}
		items := make([]object.Object, n)
		for k := range items {
			items[k] = object.NewInt(int64(k))
		}
		l := object.NewList(items)
		l.Insert(idx, object.NewInt(-1))
		pos := -1
		for k, it := range l.Value() {
			if iv, ok := it.(*object.Int); ok && iv.Value() == -1 {
				pos = k
			}
		}
		if len(l.Value()) != n+1 {
			pos = -2
		}
		key := fmt.Sprintf("insact idx=%d len=%d", idx, n)
		e.R.Case("C16s|"+key, true)
		ics = append(ics, insCase{key, pos})
		reqs = append(reqs, "C16\tinsact\t"+strconv.FormatInt(idx, 10)+"\t"+strconv.Itoa(n))
	}
	for i, rep := range e.O.AskBatch(reqs) {
		if rep != strconv.Itoa(ics[i].pos) {
			e.R.Mismatch(ics[i].key, strconv.Itoa(ics[i].pos), rep, "position chosen by (*List).Insert differs from the function translated from its source (insertAct)")
		}
	}
	// ---- (2) lists with backing arrays ----
	reqs = reqs[:0]
	type alCase struct {
		key   string
		steps []string
	}
	var acs []alCase
	directed := [][2]string{
		{"Li1,i2,i3", "sl,0,i0,i2;a,1,i9;s,0,-1,i7;a,1,i8"},
		{"Li1,i2,i3", "p,0,-1;sl,0,_,_;a,1,i9;a,0,i5;c,0;a,2,i6;a,0,i4"},
		{"Li1,i2;Li3", "k,0,1;a,2,i9;e,0,1;a,0,i5;p,0,0;e,1,0;x,0;a,0,i1"},
	}
	for i := 0; i < nAl+len(directed); i++ {
		rng := e.Rng.Fork()
		var lists []*object.List
		var lspec, ospec []string
		var steps []string
		build := func(spec string) {
			var items []object.Object
			for _, t := range strings.Split(strings.TrimPrefix(spec, "L"), ",") {
				if t != "" {
					v, _ := strconv.ParseInt(t[1:], 10, 64)
					items = append(items, object.NewInt(v))
				}
			}
			lists = append(lists, object.NewList(items))
			lspec = append(lspec, spec)
		}
		var fixedOps []string
		if i < len(directed) {
			for _, s := range strings.Split(directed[i][0], ";") {
				build(s)
			}
			fixedOps = strings.Split(directed[i][1], ";")
		} else {
			for k := 0; k < 1+rng.Intn(3); k++ {
				n := rng.Intn(5)
				xs := make([]string, n)
				for j := range xs {
					xs[j] = "i" + strconv.Itoa(rng.Intn(10))
				}
				build("L" + strings.Join(xs, ","))
			}
		}
		nOps := 3 + rng.Intn(22)
		if fixedOps != nil {
			nOps = len(fixedOps)
		}
		afterSlice := 0
		for k := 0; k < nOps; k++ {
			var o string
			if fixedOps != nil {
				o = fixedOps[k]
			} else {
				l := rng.Intn(len(lists))
				n := len(lists[l].Value())
				idx := func() string { return strconv.Itoa(rng.Intn(2*n+5) - n - 2) }
				optb := func() string {
					if rng.Chance(25) {
						return "_"
					}
					return "i" + idx()
				}
				switch r := rng.Intn(100); {
				case r < 34:
					o = fmt.Sprintf("a,%d,i%d", l, rng.Intn(100))
				case r < 46:
					o = fmt.Sprintf("s,%d,%s,i%d", l, idx(), rng.Intn(100))
				case r < 60:
					o = fmt.Sprintf("p,%d,%s", l, idx())
				case r < 76 && len(lists) < 12:
					o = fmt.Sprintf("sl,%d,%s,%s", l, optb(), optb())
				case r < 82 && len(lists) < 12:
					o = fmt.Sprintf("c,%d", l)
				case r < 90:
					o = fmt.Sprintf("e,%d,%d", l, rng.Intn(len(lists)))
				case r < 96 && len(lists) < 12:
					o = fmt.Sprintf("k,%d,%d", l, rng.Intn(len(lists)))
				default:
					o = fmt.Sprintf("x,%d", l)
				}
			}
			f := strings.Split(o, ",")
			l, _ := strconv.Atoi(f[1])
			tag := "o"
			ival := func(s string) int64 { v, _ := strconv.ParseInt(strings.TrimPrefix(s, "i"), 10, 64); return v }
			bnd := func(s string) object.Object {
				if s == "_" {
					return nil
				}
				return object.NewInt(ival(s))
			}
			func() {
				defer func() {
					if r := recover(); r != nil {
						tag = fmt.Sprintf("panic:%v", r)
					}
				}()
				switch f[0] {
				case "a":
					lists[l].Append(object.NewInt(ival(f[2])))
				case "s":
					if err := lists[l].SetItem(object.NewInt(ival(f[2])), object.NewInt(ival(f[3]))); err != nil {
						tag = "e"
					}
				case "p":
					if object.IsError(lists[l].Pop(ival(f[2]))) {
						tag = "e"
					}
				case "sl":
					r, err := lists[l].GetSlice(object.Slice{Start: bnd(f[2]), Stop: bnd(f[3])})
					if err != nil {
						tag = "e"
					} else {
						lists = append(lists, r.(*object.List))
						afterSlice++
					}
				case "c":
					lists = append(lists, lists[l].Copy())
				case "e":
					o2, _ := strconv.Atoi(f[2])
					lists[l].Extend(lists[o2])
				case "k":
					o2, _ := strconv.Atoi(f[2])
					r := lists[l].RunOperation(op.Add, lists[o2])
					if rl, ok := r.(*object.List); ok {
						lists = append(lists, rl)
					} else {
						tag = "e"
					}
				case "x":
					lists[l].Clear()
				}
			}()
			sh := "distinct"
			if w := c16s_shared(lists); w != "" {
				sh = "SHARED"
				e.R.Mismatch(fmt.Sprintf("alias %s | %s", strings.Join(lspec, ";"), strings.Join(append(ospec, o), ";")), "backing array shared by "+w, "distinct (Alias.Inv)",
					"two live list objects of the real code use one backing array: the model's invariant (AliasProps.Inv) does not hold for the code")
			}
			e.R.H("alias_op", f[0]+"-"+tag)
			ospec = append(ospec, o)
			steps = append(steps, tag+";"+c16s_render(lists)+";"+sh)
		}
		key := fmt.Sprintf("alias %s | %s", strings.Join(lspec, ";"), strings.Join(ospec, ";"))
		e.R.Case("C16s|"+key, afterSlice > 0)
		if afterSlice > 0 {
			e.R.H("alias_case", "has-slice-then-later-ops")
		} else {
			e.R.H("alias_case", "no-slice")
		}
		acs = append(acs, alCase{key, steps})
		reqs = append(reqs, "C16\talias\t"+cleanField(strings.Join(lspec, ";"))+"\t"+cleanField(strings.Join(ospec, ";")))
	}
	for i, rep := range e.O.AskBatch(reqs) {
		want := "ok\t" + strings.Join(acs[i].steps, "|")
		if rep != want {
			got := strings.Split(strings.TrimPrefix(rep, "ok\t"), "|")
			k := 0
			for k < len(got) && k < len(acs[i].steps) && got[k] == acs[i].steps[k] {
				k++
			}
			g, m := "<none>", "<none>"
			if k < len(acs[i].steps) {
				g = acs[i].steps[k]
			}
			if k < len(got) {
				m = got[k]
			}
			e.R.Mismatch(acs[i].key, g, m, fmt.Sprintf("real lists differ from the lists-with-backing-arrays model (Risor.C16.Alias) at step %d", k))
		}
	}
}
