package main

// C05, streams H and I (added after two seeded changes the check did not see).
//
//  H. loops that CHOOSE one entry of a Go map — VirtualOS.findMount.  Generated mount tables
//     (1-6 mount points, mostly NESTED: "/", "/data", "/data/sub", "/data/sub/deep", with and
//     without a trailing slash, string-prefix-but-not-path-prefix neighbours such as "/data2"),
//     working directories at and below mount points, paths below the innermost mount, exactly on a
//     mount point, relative, with "..", "." and a trailing slash.  Every mount's Source is a
//     recording filesystem, so WHICH mount served the access and the relative path it was handed
//     are observed for the script-level operations (os.read_file, os.write_file, os.stat,
//     os.remove, os.remove_all, os.mkdir, os.mkdir_all, os.read_dir, os.rename, os.symlink) and for the methods of VirtualOS called by
//     the host.  Each access is compared with the Lean model (Risor.C05.findMount) and repeated
//     with a freshly built host map and a fresh VirtualOS (both re-roll Go's iteration seed): all
//     repetitions must be served by the same mount.  A quarter of the tables registers mounts
//     under a Target that is not spelled like the key (empty, trailing slash, mixed).  These were
//     the cases of finding C05-findmount-target-length (the loop compared len(key) with
//     len(candidate.Target)); the loop has been repaired in /repo ("fix: choose the longest mount
//     point in findMount by the length of its key") and they are ordinary cases now: the model
//     (findMount, key length against key length) gives ONE answer for every visiting order and
//     every repetition must show it.  A table that is served in two ways again is an unlisted
//     violation (the replay of the old defect is findings/known/FIXED-C05-findmount-target-length.replay).
//
//  I. the hash key of a value is a function of the value: for sets whose members include LONG
//     byte slices and strings (33-200 bytes, many sharing their first 32-40 bytes, lengths around
//     16/32/64), bytes 0-255, large ints, floats, bools, nil: HashKey() of every member against
//     the model (HV.key), SortedItems/Iter/Inspect/List against setListing, the law "a set lists
//     its members in ascending order of their VALUES" evaluated on the real listing, and the set
//     built, printed, iterated, converted and marshalled by a SCRIPT evaluated repeatedly
//     in-process and in fresh child processes (a per-process hash seed shows only there).

import (
	"bytes"
	"context"
	"crypto/sha256"
	"fmt"
	"io"
	"io/fs"
	"path/filepath"
	"sort"
	"strconv"
	"strings"
	"time"

	"github.com/risor-io/risor"
	"github.com/risor-io/risor/object"
	ros "github.com/risor-io/risor/os"
)

// ------------------------------------------------------------------ stream H: findMount

type c05_recEntry struct {
	id    int
	op    string
	paths []string
}

// c05_recFS is the Source of one mount: it records every call and answers reads with a text
// that names the mount, so the script's own result shows which filesystem served it.
type c05_recFS struct {
	id  int
	log *[]c05_recEntry
}

type c05_recFile struct {
	*bytes.Reader
	name string
}

func (f *c05_recFile) Stat() (fs.FileInfo, error)  { return nil, fs.ErrInvalid }
func (f *c05_recFile) Close() error                { return nil }
func (f *c05_recFile) Write(p []byte) (int, error) { return len(p), nil }

func (f c05_recFS) rec(op string, paths ...string) {
	*f.log = append(*f.log, c05_recEntry{f.id, op, paths})
}
func (f c05_recFS) content(name string) []byte {
	return []byte(fmt.Sprintf("mount#%d:%s", f.id, name))
}
func (f c05_recFS) Create(name string) (ros.File, error) {
	f.rec("create", name)
	return &c05_recFile{bytes.NewReader(nil), name}, nil
}
func (f c05_recFS) Mkdir(name string, perm ros.FileMode) error    { f.rec("mkdir", name); return nil }
func (f c05_recFS) MkdirAll(path string, perm ros.FileMode) error { f.rec("mkdirall", path); return nil }
func (f c05_recFS) Open(name string) (ros.File, error) {
	f.rec("open", name)
	return &c05_recFile{bytes.NewReader(f.content(name)), name}, nil
}
func (f c05_recFS) OpenFile(name string, flag int, perm ros.FileMode) (ros.File, error) {
	f.rec("openfile", name)
	return &c05_recFile{bytes.NewReader(f.content(name)), name}, nil
}
func (f c05_recFS) ReadFile(name string) ([]byte, error) {
	f.rec("readfile", name)
	return f.content(name), nil
}
func (f c05_recFS) Remove(name string) error    { f.rec("remove", name); return nil }
func (f c05_recFS) RemoveAll(path string) error { f.rec("removeall", path); return nil }
func (f c05_recFS) Rename(o, n string) error    { f.rec("rename", o, n); return nil }
func (f c05_recFS) Stat(name string) (ros.FileInfo, error) {
	f.rec("stat", name)
	return nil, fmt.Errorf("stat mount#%d:%s: %w", f.id, name, fs.ErrNotExist)
}
func (f c05_recFS) Symlink(o, n string) error { f.rec("symlink", o, n); return nil }
func (f c05_recFS) WriteFile(name string, data []byte, perm ros.FileMode) error {
	f.rec("writefile", name)
	return nil
}
func (f c05_recFS) ReadDir(name string) ([]ros.DirEntry, error) {
	f.rec("readdir", name)
	return nil, fmt.Errorf("readdir mount#%d:%s: %w", f.id, name, fs.ErrNotExist)
}
func (f c05_recFS) WalkDir(root string, fn ros.WalkDirFunc) error { f.rec("walkdir", root); return nil }

var _ io.Reader = (*c05_recFile)(nil)

type c05_mountOp struct {
	name   string
	two    bool
	script string // format with %s (and a second %s when two); "" = host call only
	call   func(v *ros.VirtualOS, p, q string) error
}

var c05_mountOps = []c05_mountOp{
	{"read_file", false, "os.read_file(%s)", func(v *ros.VirtualOS, p, q string) error { _, err := v.ReadFile(p); return err }},
	{"write_file", false, "os.write_file(%s, \"data\")", func(v *ros.VirtualOS, p, q string) error { return v.WriteFile(p, []byte("data"), 0o644) }},
	{"stat", false, "try(func() { return os.stat(%s) }, func(e) { return string(e) })", func(v *ros.VirtualOS, p, q string) error { _, err := v.Stat(p); return err }},
	{"remove", false, "os.remove(%s)", func(v *ros.VirtualOS, p, q string) error { return v.Remove(p) }},
	{"remove_all", false, "os.remove_all(%s)", func(v *ros.VirtualOS, p, q string) error { return v.RemoveAll(p) }},
	{"mkdir_all", false, "os.mkdir_all(%s)", func(v *ros.VirtualOS, p, q string) error { return v.MkdirAll(p, 0o755) }},
	{"mkdir", false, "os.mkdir(%s)", func(v *ros.VirtualOS, p, q string) error { return v.Mkdir(p, 0o755) }},
	{"read_dir", false, "try(func() { return os.read_dir(%s) }, func(e) { return string(e) })", func(v *ros.VirtualOS, p, q string) error { _, err := v.ReadDir(p); return err }},
	{"open", false, "", func(v *ros.VirtualOS, p, q string) error { _, err := v.Open(p); return err }},
	{"open_file", false, "", func(v *ros.VirtualOS, p, q string) error { _, err := v.OpenFile(p, 0, 0); return err }},
	{"create", false, "", func(v *ros.VirtualOS, p, q string) error { _, err := v.Create(p); return err }},
	{"walk_dir", false, "", func(v *ros.VirtualOS, p, q string) error { return v.WalkDir(p, nil) }},
	{"rename", true, "os.rename(%s, %s)", func(v *ros.VirtualOS, p, q string) error { return v.Rename(p, q) }},
	{"symlink", true, "os.symlink(%s, %s)", func(v *ros.VirtualOS, p, q string) error { return v.Symlink(p, q) }},
}

// c05_mountKeyPath is the string findMount matches against the table (the first lines of
// VirtualOS.findMount: join with the working directory, Clean, keep a trailing slash).
func c05_mountKeyPath(cwd, p string) string {
	ends := strings.HasSuffix(p, "/")
	if !filepath.IsAbs(p) {
		p = filepath.Join(cwd, p)
	}
	p = filepath.Clean(p)
	if ends && p != "/" {
		p += "/"
	}
	return p
}

var c05_mountChains = [][]string{
	{"/", "/data", "/data/sub", "/data/sub/deep"},
	{"/", "/srv", "/srv/app"},
	{"/data", "/data/sub"},
	{"/tmp", "/tmp/work", "/tmp/work/x"},
	{"/", "/data/"},
	{"/data", "/data/", "/data/sub/"},
	{"/a", "/a/b", "/a/b/c", "/a/b/c/d", "/a/b/c/d/e"},
}

var c05_mountExtras = []string{"/data2", "/dat", "/d", "/other", "/srv2", "/tmpx", "/a/bb", "/data/sub2"}

type c05_mountEnt struct{ key, target string }

// c05_genMountTable draws a table: a prefix of one of the nested chains (most tables have >= 2
// mount points that are path prefixes of one another) plus neighbours that are string prefixes
// or siblings.  spelled = how the Targets are spelled ("key", "empty", "slash", "mixed").
func c05_genMountTable(r *RNG) (ents []c05_mountEnt, spelled string) {
	chain := Pick(r, c05_mountChains)
	n := 1 + r.Intn(len(chain))
	if r.Chance(85) && n < 2 {
		n = 2 + r.Intn(len(chain)-1)
	}
	// any n members of the chain (not only a prefix of it: "/" + "/data/sub" without "/data")
	seen := map[string]bool{}
	for _, i := range c05_randPerm(r, len(chain))[:n] {
		seen[chain[i]] = true
	}
	for r.Chance(35) && len(seen) < 6 {
		seen[Pick(r, c05_mountExtras)] = true
	}
	keys := sortedKeys(seen)
	// the host registers the mounts in an order of its own
	perm := c05_randPerm(r, len(keys))
	spelled = "key"
	if r.Chance(25) {
		spelled = Pick(r, []string{"empty", "slash", "mixed"})
	}
	for _, i := range perm {
		k := keys[i]
		t := k
		switch spelled {
		case "empty":
			t = ""
		case "slash":
			if !strings.HasSuffix(k, "/") {
				t = k + "/"
			}
		case "mixed":
			if r.Bool() {
				t = ""
			}
		}
		ents = append(ents, c05_mountEnt{k, t})
	}
	return ents, spelled
}

func c05_genMountPath(r *RNG, ents []c05_mountEnt, cwd string) string {
	mp := Pick(r, ents).key
	if r.Chance(60) { // mostly below the innermost mount point: every mount point above it qualifies too
		for _, en := range ents {
			if len(en.key) > len(mp) {
				mp = en.key
			}
		}
	}
	mp = strings.TrimSuffix(mp, "/")
	leaf := Pick(r, []string{"f.txt", "a/b.txt", "x", "sub/f.txt", "deep/down/file", "data", "sub", ".hidden", "f.txt/"})
	switch r.Intn(12) {
	case 0:
		return Pick(r, ents).key // exactly a mount point
	case 1:
		return mp + "x/" + leaf // string prefix, not a path prefix
	case 2:
		return leaf // relative to the working directory
	case 3:
		return "../" + leaf
	case 4:
		return mp + "/./" + leaf
	case 5:
		return mp + "/sub/../" + leaf
	case 6:
		return mp + "/"
	case 7:
		return "/nowhere/" + leaf
	default:
		return mp + "/" + leaf
	}
}

type c05_mountObs struct {
	served string // "some <pos> <rel hex>[ <rel2 hex>]" | "none" | "split …"
	shown  string // the same, readable
	out    string // what the script / the host call returned
}

// c05_observeMount builds a fresh host map (inserted in the order `order`) and a fresh VirtualOS
// and performs one access.
func c05_observeMount(ents []c05_mountEnt, order []int, cwd string, op c05_mountOp, viaScript bool, p, q string) (o c05_mountObs) {
	var log []c05_recEntry
	mounts := map[string]*ros.Mount{}
	for _, i := range order {
		mounts[ents[i].key] = &ros.Mount{Source: c05_recFS{id: i, log: &log}, Target: ents[i].target, Type: "rec"}
	}
	defer func() {
		if rec := recover(); rec != nil {
			o.served, o.shown, o.out = "panic", "panic", fmt.Sprintf("PANIC %v", rec)
		}
	}()
	vos := ros.NewVirtualOS(context.Background(), ros.WithMounts(mounts), ros.WithCwd(cwd))
	if viaScript {
		src := fmt.Sprintf(op.script, strconv.Quote(p))
		if op.two {
			src = fmt.Sprintf(op.script, strconv.Quote(p), strconv.Quote(q))
		}
		ctx, cancel := context.WithTimeout(context.Background(), 5*time.Second)
		res, err := risor.Eval(ctx, src, risor.WithOS(vos))
		cancel()
		switch {
		case err != nil:
			o.out = "error: " + err.Error()
		case res != nil:
			o.out = res.Inspect()
		}
	} else if err := op.call(vos, p, q); err != nil {
		o.out = "error: " + err.Error()
	}
	switch {
	case len(log) == 0:
		o.served, o.shown = "none", "no mount"
	case len(log) > 1:
		var parts []string
		for _, l := range log {
			parts = append(parts, fmt.Sprintf("%s:%s%q", ents[l.id].key, l.op, l.paths))
		}
		o.served = "several " + strings.Join(parts, " ")
		o.shown = o.served
	default:
		l := log[0]
		hx := make([]string, len(l.paths))
		for i, pp := range l.paths {
			hx[i] = c05_hexField(pp)
		}
		o.served = fmt.Sprintf("some %d %s", l.id, strings.Join(hx, " "))
		o.shown = fmt.Sprintf("mount %q handed %q", ents[l.id].key, l.paths)
	}
	return o
}

// c05SiteMounts: stream H.
func c05SiteMounts(e *Env, n, reps int) {
	rng := e.Rng.Fork()
	for i := 0; i < n; i++ {
		r := rng.Fork()
		ents, spelled := c05_genMountTable(r)
		cwd := "/"
		if r.Chance(50) {
			cwd = strings.TrimSuffix(Pick(r, ents).key, "/") + Pick(r, []string{"", "", "/sub", "/x/y"})
			if cwd == "" {
				cwd = "/"
			}
		}
		op := Pick(r, c05_mountOps)
		p := c05_genMountPath(r, ents, cwd)
		q := ""
		if op.two {
			q = c05_genMountPath(r, ents, cwd)
			if r.Chance(60) { // mostly a sibling of p (the same mount serves both)
				q = strings.TrimSuffix(p, "/") + ".new"
			}
		}
		viaScript := op.script != "" && r.Chance(55)
		if i == 0 { // directed: the smallest nested table, the script-level read
			ents, spelled, cwd, op, p, q, viaScript = []c05_mountEnt{{"/", "/"}, {"/data", "/data"}}, "key", "/", c05_mountOps[0], "/data/f.txt", "", true
		}
		if i == 1 { // directed: Targets left empty (the witness of the repaired finding C05-findmount-target-length)
			ents, spelled, cwd, op, p, q, viaScript = []c05_mountEnt{{"/", ""}, {"/data", ""}}, "empty", "/", c05_mountOps[0], "/data/f.txt", "", true
		}
		if i == 2 { // directed: "/data" and "/data/" both registered with Target "/data/" (the other spelling of that finding)
			ents, spelled, cwd, op, p, q, viaScript = []c05_mountEnt{{"/data", "/data/"}, {"/data/", "/data/"}}, "slash", "/", c05_mountOps[0], "/data/f.txt", "", true
		}
		var shownEnts, fields []string
		ownTargets := true // every mount registered under its own Target (Risor.C05.targetsAreKeys)
		for _, en := range ents {
			if en.target == en.key {
				shownEnts = append(shownEnts, en.key)
			} else {
				shownEnts = append(shownEnts, fmt.Sprintf("%s(Target=%q)", en.key, en.target))
				ownTargets = false
			}
			fields = append(fields, c05_hexField(en.key)+":"+c05_hexField(en.target))
		}
		route := "VirtualOS." + op.name
		if viaScript {
			route = "script " + fmt.Sprintf(op.script, strconv.Quote(p))
			if op.two {
				route = "script " + fmt.Sprintf(op.script, strconv.Quote(p), strconv.Quote(q))
			}
		} else if op.two {
			route += fmt.Sprintf("(%q, %q)", p, q)
		} else {
			route += fmt.Sprintf("(%q)", p)
		}
		caseKey := fmt.Sprintf("VirtualOS mounts=[%s] cwd=%q: %s", strings.Join(shownEnts, " "), cwd, route)
		// how many mount points qualify for the path (what makes the choice non-trivial)
		kp := c05_mountKeyPath(cwd, p)
		qualify := 0
		for _, en := range ents {
			k := en.key
			if k == kp || strings.HasPrefix(kp, k) && (strings.HasSuffix(k, "/") || len(kp) > len(k) && kp[len(k)] == '/') {
				qualify++
			}
		}
		e.R.Case(caseKey, qualify >= 2)
		e.R.H("site_mounts_qualifying_mount_points", strconv.Itoa(min(qualify, 5)))
		e.R.H("site_mounts_target_spelling", spelled)
		e.R.H("site_mounts_op", op.name+map[bool]string{true: "/script", false: "/host"}[viaScript])

		// the model: ONE answer, whatever the Targets are (asked under three visiting orders)
		askMode := func(mode string, perm []int, path string) string {
			return e.O.Ask("C05", "findMount", mode, c05_permField(perm), c05_hexField(path), strings.Join(fields, ","))
		}
		// the answer for one path under one visiting order: "some <pos> <rel>" | "none"
		one := func(perm []int, path string) string { return strings.Split(askMode("impl", perm, path), "\t")[0] }
		// a two-path operation looks both paths up (two separate ranges over the map, so two
		// independent visiting orders) and forwards only when one mount serves both
		combine := func(a1, a2 string) string {
			w1, w2 := strings.Fields(a1), strings.Fields(a2)
			if len(w1) == 3 && len(w2) == 3 && w1[1] == w2[1] {
				return "some " + w1[1] + " " + w1[2] + " " + w2[2]
			}
			return "none"
		}
		kq := c05_mountKeyPath(cwd, q)
		expect := func(perm, perm2 []int) string {
			if !op.two {
				return one(perm, kp)
			}
			return combine(one(perm, kp), one(perm2, kq))
		}
		allowed := map[string]bool{}
		w := expect(nil, nil)
		allowed[w] = true
		for t := 0; t < 2; t++ {
			if w2 := expect(c05_randPerm(r, len(ents)), c05_randPerm(r, len(ents))); w2 != w {
				e.R.Mismatch(caseKey, w2, w, "model: findMount under two visiting orders")
			}
		}
		if !ownTargets && len(ents) <= 4 { // small tables: the model under EVERY visiting order
			for _, pm := range c05_permsOf(len(ents)) {
				if w2 := expect(pm, pm); w2 != w {
					e.R.Mismatch(caseKey, w2, w, "model: findMount under every visiting order of a table with Targets unlike the keys")
					break
				}
			}
		}
		seen := map[string]c05_mountObs{}
		agree := true
		for rep := 0; rep < reps; rep++ {
			o := c05_observeMount(ents, c05_randPerm(r, len(ents)), cwd, op, viaScript, p, q)
			if _, ok := seen[o.served+"|"+o.out]; !ok {
				seen[o.served+"|"+o.out] = o
			}
			if !allowed[o.served] && agree {
				agree = false
				e.R.Mismatch(caseKey, o.served+" ("+o.shown+")", strings.Join(sortedKeys(allowed), " / "), "which mount serves the access, and the path it is handed, against findMount")
			}
		}
		if len(seen) > 1 {
			var texts []string
			for _, o := range seen {
				texts = append(texts, o.shown+" → "+o.out)
			}
			sort.Strings(texts)
			// never attributed to a known finding: finding C05-findmount-target-length is FIXED.  When
			// every observation is an answer of the loop as it was before the repair, say so.
			note := ""
			if !ownTargets && len(ents) <= 4 && !op.two {
				old := map[string]bool{}
				for _, pm := range c05_permsOf(len(ents)) {
					old[strings.Split(askMode("prefix", pm, kp), "\t")[0]] = true
				}
				recurs := len(old) > 1
				for _, o := range seen {
					recurs = recurs && old[o.served]
				}
				if recurs {
					note = "; every observation is an answer of the loop as it was BEFORE its repair (Risor.C05.preFixFindMount: len(key) compared with len(candidate.Target)) — the repair of C05-findmount-target-length (recorded as fixed) is missing from this tree"
				}
			}
			e.R.Spec(caseKey, fmt.Sprintf("the same access was served in %d different ways in %d evaluations (fresh mount map and fresh VirtualOS each time): %s%s",
				len(seen), reps, strings.Join(texts[:min(3, len(texts))], " | "), note), "")
		}
	}
}

// ------------------------------------------------------------------ stream I: hash keys of big values

// c05_bytesSrc is a script expression for a byte slice.
func c05_bytesSrc(b []byte) string {
	plain := true
	for _, c := range b {
		if c < 0x20 || c > 0x7e || c == '"' || c == '\\' || c == '{' || c == '}' || c == '$' {
			plain = false
		}
	}
	if plain {
		return "byte_slice(" + strconv.Quote(string(b)) + ")"
	}
	nums := make([]string, len(b))
	for i, c := range b {
		nums[i] = strconv.Itoa(int(c))
	}
	return "byte_slice([" + strings.Join(nums, ", ") + "])"
}

func c05_bytesItem(b []byte) c05_item {
	tok := "y:" + Hex(string(b))
	if len(b) == 0 {
		tok = "y:-"
	}
	desc := fmt.Sprintf("byte_slice(%q)", b)
	if len(b) > 48 { // the whole value is named by its length, its ends and a digest
		h := sha256.Sum256(b)
		desc = fmt.Sprintf("byte_slice(%d bytes %q…%q sha256 %x)", len(b), b[:12], b[len(b)-8:], h[:4])
	}
	return c05_item{obj: object.NewByteSlice(append([]byte{}, b...)), tok: tok, src: c05_bytesSrc(b), desc: desc, ty: "byte_slice"}
}

func c05_byteItem(b byte) c05_item {
	return c05_item{obj: object.NewByte(b), tok: "b:" + strconv.Itoa(int(b)), src: fmt.Sprintf("byte(%d)", b), desc: fmt.Sprintf("byte(%d)", b), ty: "byte"}
}

// c05_longBytes draws the contents of a long value: a stem shared by the whole case (so that
// members agree on their first 32-40 bytes) followed by a short distinguishing tail, or
// contents that differ from the first byte on; lengths cluster around 16, 32, 33, 64 and 65.
func c05_longBytes(r *RNG, stem []byte, printable bool) []byte {
	n := Pick(r, []int{15, 16, 17, 31, 32, 33, 34, 40, 48, 63, 64, 65, 100, 200})
	if r.Chance(30) {
		n = 33 + r.Intn(60)
	}
	out := make([]byte, 0, n)
	if r.Chance(70) {
		out = append(out, stem[:min(len(stem), n-1)]...)
	}
	for len(out) < n {
		if printable {
			out = append(out, "abcxyzABC019-_. "[r.Intn(16)])
		} else {
			out = append(out, byte(r.Intn(256)))
		}
	}
	return out
}

// c05_genBigItems draws k pairwise distinct hashable values, at least two of them long byte
// slices or long strings.
func c05_genBigItems(r *RNG, k int) []c05_item {
	stemP := make([]byte, 48)
	stemB := make([]byte, 48)
	for i := range stemP {
		stemP[i] = "stem-of-the-case/"[i%17]
		stemB[i] = byte(r.Intn(256))
	}
	seen := map[string]bool{}
	var out []c05_item
	kindOf := Pick(r, []int{0, 0, 1, 2, 3}) // 0 long byte slices mostly, 1 long strings mostly, 2 both, 3 every type
	for tries := 0; len(out) < k && tries < 40*k+40; tries++ {
		var it c05_item
		kind := r.Intn(10)
		if len(out) < 2 {
			kind = r.Intn(4) // the first two are long
		}
		switch {
		case kind <= 3 && (kindOf == 0 || kindOf >= 2 && kind%2 == 0):
			it = c05_bytesItem(c05_longBytes(r, Pick(r, [][]byte{stemP, stemP, stemB}), r.Chance(60)))
		case kind <= 3:
			it = c05_strItem(string(c05_longBytes(r, stemP, true)))
		case kind == 4:
			it = c05_bytesItem([]byte(Pick(r, []string{"", "a", "ab", "b", "\x00", "\xff", "stem"})))
		case kind == 5:
			it = c05_byteItem(byte(Pick(r, []int{0, 1, 7, 127, 128, 200, 255})))
		case kind == 6:
			it = c05_intItem(Pick(r, []int64{-3, 0, 1, 2, 33, 1 << 40, -(1 << 40)}), true)
		case kind == 7 && kindOf == 3:
			f := Pick(r, c05_scriptFloats)
			it = c05_fltItem(f.f, f.src)
		case kind == 8 && kindOf == 3:
			b := r.Bool()
			it = c05_item{obj: object.NewBool(b), tok: map[bool]string{true: "t", false: "f"}[b], src: strconv.FormatBool(b), desc: strconv.FormatBool(b), ty: "bool"}
		case kind == 9 && kindOf == 3:
			it = c05_item{obj: object.Nil, tok: "n", src: "nil", desc: "nil", ty: "nil"}
		default:
			it = c05_strItem(Pick(r, c05_itemWords))
		}
		if seen[it.tok] {
			continue
		}
		seen[it.tok] = true
		out = append(out, it)
	}
	return out
}

// c05_valueLess is the order of VALUES the property promises for a set's listing: by type name,
// within a type by the natural order of the values (evaluated on the Go values, no hash key).
func c05_valueLess(a, b object.Object) (less, comparable bool) {
	if a.Type() != b.Type() {
		return string(a.Type()) < string(b.Type()), true
	}
	switch x := a.(type) {
	case *object.Int:
		return x.Value() < b.(*object.Int).Value(), true
	case *object.Byte:
		return x.Value() < b.(*object.Byte).Value(), true
	case *object.String:
		return x.Value() < b.(*object.String).Value(), true
	case *object.ByteSlice:
		return bytes.Compare(x.Value(), b.(*object.ByteSlice).Value()) < 0, true
	case *object.Float:
		y := b.(*object.Float).Value()
		if x.Value() != x.Value() || y != y {
			return false, false
		}
		return x.Value() < y, true
	case *object.Bool:
		return !x.Value() && b.(*object.Bool).Value(), true
	}
	return false, false
}

func c05_goHashKey(it c05_item) string {
	h, ok := it.obj.(object.Hashable)
	if !ok {
		return "not hashable"
	}
	k := h.HashKey()
	flt, nan := int64(0), k.FltValue != k.FltValue
	if !nan {
		flt = c05_fltOrd(k.FltValue)
	}
	return fmt.Sprintf("%s %d %s %d %v", k.Type, k.IntValue, c05_hexField(k.StrValue), flt, nan)
}

// c05_bigSetScript builds the set in a script and reads it by every route a script has.
func c05_bigSetScript(items []c05_item) string {
	srcs := make([]string, len(items))
	for j, it := range items {
		srcs[j] = it.src
	}
	var sb strings.Builder
	sb.WriteString("s := {" + strings.Join(srcs, ", ") + "}\n")
	sb.WriteString("for i, x := range s { print(i, x) }\n")
	sb.WriteString("print(s)\n")
	sb.WriteString("[string(s), list(s), json.marshal(s), sprintf(\"%v\", s), len(s)]\n")
	return sb.String()
}

// c05HashKeys: stream I.
func c05HashKeys(e *Env, n, reps, kids int) {
	rng := e.Rng.Fork()
	type scripted struct {
		src, want string
		items     []c05_item
	}
	var scripts []scripted
	for i := 0; i < n; i++ {
		r := rng.Fork()
		k := 2 + r.Intn(6)
		if r.Chance(12) {
			k = 13 + r.Intn(20)
		}
		items := c05_genBigItems(r, k)
		if i == 0 { // directed: two byte slices of 40 bytes that differ in their last byte only
			a := bytes.Repeat([]byte("k"), 40)
			b := append(bytes.Repeat([]byte("k"), 39), 'j')
			items = []c05_item{c05_bytesItem(a), c05_bytesItem(b)}
		}
		if len(items) < 2 {
			continue
		}
		caseKey := "object.NewSet{" + c05_itemDescs(items) + "}: HashKey/SortedItems/Inspect/Iter/List"
		long := 0
		for _, it := range items {
			switch v := it.obj.(type) {
			case *object.ByteSlice:
				if len(v.Value()) > 32 {
					long++
					e.R.H("site_hashKeys_long_member", "byte_slice")
				}
			case *object.String:
				if len(v.Value()) > 32 {
					long++
					e.R.H("site_hashKeys_long_member", "string")
				}
			}
		}
		e.R.Case(caseKey, long >= 2)
		e.R.H("site_hashKeys_long_members_per_set", strconv.Itoa(min(long, 6)))
		e.R.H("site_hashKeys_size", fmt.Sprintf("%02d", min(len(items), 20)))
		agree := true
		mismatch := func(got, want, what string) {
			if agree {
				e.R.Mismatch(caseKey, got, want, what)
			}
			agree = false
		}
		// 1. HashKey() of every member against HV.key
		reqs := make([]string, len(items))
		for j, it := range items {
			reqs[j] = "C05\thashKey\t" + it.tok
		}
		for j, want := range e.O.AskBatch(reqs) {
			if got := c05_goHashKey(items[j]); got != want {
				mismatch(items[j].desc+": "+got, want, "HashKey() against HV.key (type, IntValue, StrValue hex, float position, NaN)")
			}
		}
		// 2. the listing against setListing (values) and sortedItems (keys): two visiting orders, one answer
		toks := c05_itemToks(items)
		want := e.O.Ask("C05", "listing", "-", toks)
		if w2 := e.O.Ask("C05", "listing", c05_permField(c05_randPerm(r, len(items))), toks); w2 != want {
			e.R.Mismatch(caseKey, w2, want, "model: setListing under two visiting orders")
		}
		if w3 := e.O.Ask("C05", "setOrder", c05_permField(c05_randPerm(r, len(items))), toks); w3 != want {
			e.R.Mismatch(caseKey, w3, want, "model: sortedItems over the keys against setListing over the values")
		}
		seen := map[c05_setObs]bool{}
		for rep := 0; rep < reps; rep++ {
			o, err := c05_observeSet(items)
			if err != "" {
				mismatch(err, "a set", "set construction")
				break
			}
			seen[o] = true
			if o.pos != want || o.iter != want {
				mismatch("["+c05_inspectAt(items, o.pos)+"] iter ["+c05_inspectAt(items, o.iter)+"]", "["+c05_inspectAt(items, want)+"]", "Set.SortedItems/Iter against setListing")
			}
			if wantIns := "{" + c05_inspectAt(items, o.pos) + "}"; o.ins != wantIns {
				mismatch(o.ins, wantIns, "Set.Inspect against SortedItems")
			}
			if wantList := "[" + c05_inspectAt(items, o.iter) + "]"; o.list != wantList {
				mismatch(o.list, wantList, "Set.List against the iterator")
			}
		}
		if len(seen) > 1 {
			var texts []string
			for o := range seen {
				texts = append(texts, c05_short(fmt.Sprintf("SortedItems [%s] Inspect %s Iter [%s]", c05_inspectAt(items, o.pos), o.ins, c05_inspectAt(items, o.iter))))
			}
			sort.Strings(texts)
			e.R.Spec(caseKey, fmt.Sprintf("the same set is listed in %d different ways in %d readings: %s", len(seen), reps, strings.Join(texts[:min(3, len(texts))], " / ")), "")
		}
		// 3. the law on the real listing: ascending in the order of the VALUES
		objs := make([]object.Object, len(items))
		for j, it := range items {
			objs[j] = it.obj
		}
		if set, ok := object.NewSet(objs).(*object.Set); ok {
			listed := set.SortedItems()
			for j := 0; j+1 < len(listed); j++ {
				less, cmp := c05_valueLess(listed[j], listed[j+1])
				if cmp && !less {
					report := items
					// the smallest witness: the two members themselves, if they alone are out of order too
					var pair []c05_item
					for _, it := range items {
						if it.obj == listed[j] || it.obj == listed[j+1] {
							pair = append(pair, it)
						}
					}
					if len(pair) == 2 {
						if s2, ok := object.NewSet([]object.Object{pair[0].obj, pair[1].obj}).(*object.Set); ok {
							l2 := s2.SortedItems()
							if lt, c := c05_valueLess(l2[0], l2[1]); c && !lt {
								report = pair
							}
						}
					}
					key := "object.NewSet{" + c05_itemDescs(report) + "}: HashKey/SortedItems/Inspect/Iter/List"
					e.R.Spec(key, fmt.Sprintf("the set does not list its members in sorted order: %s comes before %s (listing: %s)",
						c05_short(listed[j].Inspect()), c05_short(listed[j+1].Inspect()), c05_short(set.Inspect())), "")
					break
				}
			}
		}
		// 4. the same set built and read by a script (every member has a script expression)
		scriptable := true
		for _, it := range items {
			scriptable = scriptable && it.src != ""
		}
		if scriptable && len(items) <= 12 && (i < 4 || r.Chance(60)) {
			listing := c05_inspectAt(items, want)
			scripts = append(scripts, scripted{src: c05_bigSetScript(items), want: listing, items: items})
		}
	}
	// the scripts: in-process against the model's listing, then in fresh processes against the
	// in-process observation
	if len(scripts) == 0 {
		return
	}
	srcs := make([]string, len(scripts))
	first := make([]c05Obs, len(scripts))
	for j, sc := range scripts {
		srcs[j] = sc.src
		e.R.Case(sc.src, true)
		e.R.H("site_hashKeys_script", "evaluated")
		seen := map[c05Obs]bool{}
		for rep := 0; rep < max(2, reps/4); rep++ {
			o := c05Observe(sc.src)
			if rep == 0 {
				first[j] = o
			}
			seen[o] = true
		}
		o := first[j]
		// string(s) and list(s) lead the result: they must show the model's listing
		wantPrefix := "[" + strconv.Quote("{"+sc.want+"}") + ", [" + sc.want + "], "
		if o.Err != "" || !strings.HasPrefix(o.Value, wantPrefix) {
			e.R.Mismatch(sc.src, c05_short(o.Value+o.Err), c05_short(wantPrefix+"…"), "a set of long values built and read by a script against setListing")
		}
		wantOut := "{" + sc.want + "}\n"
		if !strings.HasSuffix(o.Stdout, wantOut) {
			e.R.Mismatch(sc.src, c05_short(o.Stdout), c05_short("…"+wantOut), "print(set) against setListing")
		}
		if len(seen) > 1 {
			e.R.Spec(sc.src, fmt.Sprintf("in-process: %d different observations (bytecode, result, error or stdout) in %d evaluations", len(seen), max(2, reps/4)), "")
		}
	}
	all := c05RunChildren(srcs, kids)
	for c, obs := range all {
		if obs == nil {
			e.R.Note("hash-key stream: child process %d failed", c)
			e.R.H("site_hashKeys_children", "failed")
			continue
		}
		e.R.H("site_hashKeys_children", "ran")
	}
	for j, sc := range scripts {
		var differs []string
		for _, obs := range all {
			if obs == nil {
				continue
			}
			if obs[j] != first[j] {
				o := obs[j]
				var what []string
				if o.Code != first[j].Code {
					what = append(what, "bytecode")
				}
				if o.Value != first[j].Value {
					what = append(what, fmt.Sprintf("result %s vs %s", c05_short(o.Value), c05_short(first[j].Value)))
				}
				if o.Err != first[j].Err {
					what = append(what, fmt.Sprintf("error %q vs %q", o.Err, first[j].Err))
				}
				if o.Stdout != first[j].Stdout {
					what = append(what, fmt.Sprintf("stdout %s vs %s", c05_short(o.Stdout), c05_short(first[j].Stdout)))
				}
				differs = append(differs, strings.Join(what, "; "))
			}
		}
		if len(differs) > 0 {
			e.R.Spec(sc.src, fmt.Sprintf("fresh processes: %d of %d child processes observe something else than this process: %s", len(differs), len(all), differs[0]), "")
		}
	}
}

func c05_short(s string) string {
	if len(s) > 300 {
		return s[:150] + " … " + s[len(s)-140:]
	}
	return s
}
