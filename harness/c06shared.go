package main

// C06 — SEVERAL evaluations that share host-supplied channel objects.
//
// The host creates channel objects (object.NewChan) and hands the SAME objects to several
// evaluations as globals: risor.Eval calls, a vm.Call on a VM whose earlier run left a
// goroutine parked on the channel, evaluations whose main code returns and leaves a worker
// behind.  Every evaluation has its own context (cancel function or own deadline), cancelled at
// its own time, in a generated order.  The consumers block on the shared channels in every way
// the language offers: `for … range c`, `<-c`, `c.receive()`, `c <- v` / `c.send(v)` on a full
// channel.  Nobody ever feeds or drains the channels, so without cancellation every consumer
// stays parked for ever.
//
// Model: RisorModel/C06/Shared.lean through the oracle (`C06 shared <chans> <consumers>
// <cancellations>`): which consumers have ended after the start and after every cancellation
// under the code as it is (a blocked primitive waits for the channel OR its own context) and
// under the contrast in which Chan.Next takes a lock of the channel object before it waits.
// Spec (SharedProps.C06_shared_own_context_suffices): a consumer whose OWN context is done has
// ended — the evaluation has returned — whatever the others do.
//
// Verdicts are logical: did the call return / did the worker reach its `ended(i)` call after
// the cancellation of its own context.  The time limit only bounds the waiting ("did not
// return within the limit").

import (
	"context"
	"errors"
	"fmt"
	"sort"
	"strconv"
	"strings"
	"sync/atomic"
	"time"

	"github.com/risor-io/risor"
	"github.com/risor-io/risor/compiler"
	"github.com/risor-io/risor/object"
	"github.com/risor-io/risor/parser"
	"github.com/risor-io/risor/vm"
)

type c06ShOp struct {
	op   string // range | arrow | receive | send
	ch   int
	form int // send: 0 `c <- 1`, 1 `c.send(1)`
}

// one consumer = one evaluation
type c06ShCon struct {
	ctx   int    // index of the context the evaluation is given (usually its own)
	entry string // eval: risor.Eval, main code blocks | call: vm.Call of a function, it blocks |
	// worker: risor-style Run whose main code starts a goroutine that blocks, and returns
	vmOf int // call: index of the worker consumer whose VM the function is called on, -1 = a VM of its own
	ops  []c06ShOp
}

type c06ShCase struct {
	chans [][2]int // len (prefilled by the host), cap
	cons  []c06ShCon
	kinds []string // per context: cancel | deadline (deadline: only the context of the last consumer, cancelled first)
	order []int    // the order in which the contexts fire
}

func (c c06ShCase) chansText() string {
	var out []string
	for _, ch := range c.chans {
		out = append(out, fmt.Sprintf("%d/%d", ch[0], ch[1]))
	}
	return strings.Join(out, ",")
}

func (c c06ShCase) consText() string {
	var out []string
	for _, x := range c.cons {
		var ops []string
		for _, o := range x.ops {
			ops = append(ops, o.op+"@"+strconv.Itoa(o.ch))
		}
		t := strings.Join(ops, "+")
		if t == "" {
			t = "-"
		}
		out = append(out, strconv.Itoa(x.ctx)+":"+t)
	}
	return strings.Join(out, ",")
}

func (c c06ShCase) orderText() string {
	var out []string
	for _, k := range c.order {
		out = append(out, strconv.Itoa(k))
	}
	if len(out) == 0 {
		return "-"
	}
	return strings.Join(out, ",")
}

func (c c06ShCase) key() string {
	var ents []string
	for i, x := range c.cons {
		e := x.entry
		if x.entry == "call" && x.vmOf >= 0 {
			e += fmt.Sprintf("(on the VM of consumer %d)", x.vmOf)
		}
		forms := ""
		for _, o := range x.ops {
			forms += strconv.Itoa(o.form)
		}
		ents = append(ents, fmt.Sprintf("%d=%s/f%s", i, e, forms))
	}
	return "shared channels: chans(len/cap)=" + c.chansText() + " consumers(ctx:ops)=" + c.consText() + " entries=" + strings.Join(ents, ",") +
		" context kinds=" + strings.Join(c.kinds, ",") + " cancellation order=" + c.orderText()
}

func c06ShRenderOps(i int, ops []c06ShOp, ind string) []string {
	lines := []string{ind + "mark(" + strconv.Itoa(i) + ")"}
	for _, o := range ops {
		c := "c" + strconv.Itoa(o.ch)
		switch o.op {
		case "range":
			lines = append(lines, ind+"for _, v := range "+c+" { v }")
		case "arrow":
			lines = append(lines, ind+"<-"+c)
		case "receive":
			lines = append(lines, ind+c+".receive()")
		default:
			if o.form == 1 {
				lines = append(lines, ind+c+".send(1)")
			} else {
				lines = append(lines, ind+c+" <- 1")
			}
		}
	}
	return lines
}

// source of the code consumer i's VM is loaded with
func (c c06ShCase) source(i int) string {
	x := c.cons[i]
	var lines []string
	fn := func(j int) {
		lines = append(lines, "func f"+strconv.Itoa(j)+"() {")
		lines = append(lines, c06ShRenderOps(j, c.cons[j].ops, "  ")...)
		lines = append(lines, "}", "reg("+strconv.Itoa(j)+", f"+strconv.Itoa(j)+")")
	}
	switch x.entry {
	case "eval":
		lines = c06ShRenderOps(i, x.ops, "")
	case "call":
		fn(i)
	default: // worker
		for j, y := range c.cons {
			if y.entry == "call" && y.vmOf == i {
				fn(j)
			}
		}
		lines = append(lines, "go func() {", "  try(func() {")
		lines = append(lines, c06ShRenderOps(i, x.ops, "    ")...)
		lines = append(lines, "  })", "  ended("+strconv.Itoa(i)+")", "}()")
	}
	return strings.Join(lines, "\n")
}

var c06ShHangs int

func c06ShLimit() time.Duration {
	if c06ShHangs >= 2 {
		return 1500 * time.Millisecond
	}
	return 4 * time.Second
}

type c06ShObs struct {
	skipped  string
	harness  string     // a problem of the harness / of loading the code, not of the property
	ended    [][]int    // consumers seen ended: after the start, after every cancellation
	late     [][]string // per event: consumers that did not end within the limit although the model says they end
	cls      []string   // per consumer: how its call returned (nil | ctx | msg | other | - for workers / not returned)
	errText  []string
	leftover []int // consumers that had not ended after EVERY context was cancelled
	srcs     []string
}

// c06ShRun runs one case on the real code.  want[e] = the consumers the model lets end by
// event e (0 = all started, e = after the e-th cancellation).
func c06ShRun(c c06ShCase, want [][]int) (obs c06ShObs) {
	n := len(c.cons)
	obs.cls = make([]string, n)
	obs.errText = make([]string, n)
	obs.srcs = make([]string, n)
	for i := range obs.cls {
		obs.cls[i] = "-"
	}
	chans := make([]*object.Chan, len(c.chans))
	globals := map[string]any{}
	for k, ch := range c.chans {
		chans[k] = object.NewChan(ch[1])
		for j := 0; j < ch[0]; j++ {
			if err := chans[k].Send(context.Background(), object.NewInt(int64(j))); err != nil {
				obs.harness = "prefill: " + err.Error()
				return
			}
		}
		globals["c"+strconv.Itoa(k)] = chans[k]
	}
	marks := make([]int64, n)
	endedFlag := make([]int32, n)
	fns := make([]*object.Function, n)
	idx := func(args []object.Object) int {
		if len(args) >= 1 {
			if i, ok := args[0].(*object.Int); ok && i.Value() >= 0 && int(i.Value()) < n {
				return int(i.Value())
			}
		}
		return 0
	}
	globals["mark"] = object.NewBuiltin("mark", func(ctx context.Context, args ...object.Object) object.Object {
		atomic.AddInt64(&marks[idx(args)], 1)
		return object.Nil
	})
	globals["ended"] = object.NewBuiltin("ended", func(ctx context.Context, args ...object.Object) object.Object {
		atomic.StoreInt32(&endedFlag[idx(args)], 1)
		return object.Nil
	})
	globals["reg"] = object.NewBuiltin("reg", func(ctx context.Context, args ...object.Object) object.Object {
		if len(args) == 2 {
			if f, ok := args[1].(*object.Function); ok {
				fns[idx(args)] = f
			}
		}
		return object.Nil
	})
	opts := []risor.Option{risor.WithConcurrency(), risor.WithGlobals(globals)}
	cfg := risor.NewConfig(opts...)

	// contexts: one per index; a deadline context is created when its (last) consumer starts
	nCtx := len(c.kinds)
	ctxs := make([]context.Context, nCtx)
	cancels := make([]context.CancelFunc, nCtx)
	for k, kind := range c.kinds {
		if kind != "deadline" {
			ctxs[k], cancels[k] = context.WithCancel(context.Background())
		}
	}
	ctxLoad, cancelLoad := context.WithCancel(context.Background())
	type result struct{ err error }
	results := make([]chan result, n)
	returned := make([]bool, n)
	machines := make([]*vm.VirtualMachine, n)
	defer func() {
		// release everything: every context is cancelled; whatever has still not ended is waited
		// for briefly so that no case disturbs the next one
		for k := range cancels {
			if cancels[k] != nil {
				cancels[k]()
			}
		}
		cancelLoad()
		limit := time.Now().Add(3 * time.Second)
		for i := range c.cons {
			if results[i] != nil && !returned[i] {
				select {
				case <-results[i]:
				case <-time.After(time.Until(limit)):
				}
			}
		}
	}()

	call := func(f func() error) chan result {
		done := make(chan result, 1)
		go func() {
			var err error
			func() {
				defer func() {
					if r := recover(); r != nil {
						err = fmt.Errorf("PANIC: %v", r)
					}
				}()
				err = f()
			}()
			done <- result{err}
		}()
		return done
	}
	load := func(i int) (*vm.VirtualMachine, *compiler.Code, error) {
		obs.srcs[i] = c.source(i)
		ast, err := parser.Parse(context.Background(), obs.srcs[i])
		if err != nil {
			return nil, nil, fmt.Errorf("parse: %v", err)
		}
		code, err := compiler.Compile(ast, cfg.CompilerOpts()...)
		if err != nil {
			return nil, nil, fmt.Errorf("compile: %v", err)
		}
		return vm.New(code, cfg.VMOpts()...), code, nil
	}
	waitFor := func(cond func() bool, limit time.Duration) bool {
		end := time.Now().Add(limit)
		for !cond() {
			if time.Now().After(end) {
				return false
			}
			time.Sleep(200 * time.Microsecond)
		}
		return true
	}
	poll := func(i int) { // has the call of consumer i returned?
		if results[i] != nil && !returned[i] {
			select {
			case r := <-results[i]:
				returned[i] = true
				if c.cons[i].entry != "worker" {
					ctx := ctxs[c.cons[i].ctx]
					switch {
					case r.err == nil:
						obs.cls[i] = "nil"
					case ctx.Err() != nil && errors.Is(r.err, ctx.Err()):
						obs.cls[i] = "ctx"
					case ctx.Err() != nil && strings.Contains(r.err.Error(), ctx.Err().Error()):
						obs.cls[i] = "msg"
					default:
						obs.cls[i] = "other"
					}
					if r.err != nil {
						obs.errText[i] = fmt.Sprintf("%T %q", r.err, r.err.Error())
					}
				} else if r.err != nil {
					obs.harness = fmt.Sprintf("the main code of worker consumer %d failed: %v", i, r.err)
				}
			default:
			}
		}
	}
	hasEnded := func(i int) bool {
		poll(i)
		if c.cons[i].entry == "worker" {
			return atomic.LoadInt32(&endedFlag[i]) == 1
		}
		return returned[i]
	}
	snapshot := func() []int {
		var out []int
		for i := range c.cons {
			if hasEnded(i) {
				out = append(out, i)
			}
		}
		return out
	}

	// start the consumers one after the other; each is parked before the next one starts
	for i, x := range c.cons {
		k := x.ctx
		if c.kinds[k] == "deadline" && ctxs[k] == nil {
			ctxs[k], cancels[k] = context.WithTimeout(context.Background(), 150*time.Millisecond)
		}
		ctx := ctxs[k]
		switch x.entry {
		case "eval":
			m, _, err := load(i)
			if err != nil {
				obs.harness = err.Error()
				return
			}
			machines[i] = m
			results[i] = call(func() error { return m.Run(ctx) })
		case "worker":
			m, _, err := load(i)
			if err != nil {
				obs.harness = err.Error()
				return
			}
			machines[i] = m
			results[i] = call(func() error { return m.Run(ctx) })
			// the main code returns by itself (the worker stays behind)
			if !waitFor(func() bool { poll(i); return returned[i] }, 5*time.Second) {
				obs.harness = fmt.Sprintf("the main code of worker consumer %d did not return", i)
				return
			}
			if obs.harness != "" {
				return
			}
		default: // call
			m := (*vm.VirtualMachine)(nil)
			if x.vmOf >= 0 {
				m = machines[x.vmOf]
			} else {
				var err error
				m, _, err = load(i)
				if err != nil {
					obs.harness = err.Error()
					return
				}
				if err := m.Run(ctxLoad); err != nil {
					obs.harness = "loading the function of a call consumer: " + err.Error()
					return
				}
			}
			machines[i] = m
			if m == nil || fns[i] == nil {
				obs.harness = fmt.Sprintf("the function of call consumer %d was not registered", i)
				return
			}
			fn := fns[i]
			results[i] = call(func() error { _, err := m.Call(ctx, fn, nil); return err })
		}
		if !waitFor(func() bool { return atomic.LoadInt64(&marks[i]) > 0 || ctx.Err() != nil }, 5*time.Second) || atomic.LoadInt64(&marks[i]) == 0 {
			if ctx.Err() != nil {
				obs.skipped = "the deadline passed before the last consumer reached its channel operation"
			} else {
				obs.harness = fmt.Sprintf("consumer %d did not reach its channel operation", i)
			}
			return
		}
		// from the mark() call to the inside of the primitive: a few instructions
		time.Sleep(15 * time.Millisecond)
	}
	if c.kinds[len(c.kinds)-1] == "deadline" && ctxs[len(c.kinds)-1].Err() != nil {
		obs.skipped = "the deadline passed before the observation started"
		return
	}
	obs.ended = append(obs.ended, snapshot())
	obs.late = append(obs.late, nil)

	in := func(xs []int, i int) bool {
		for _, x := range xs {
			if x == i {
				return true
			}
		}
		return false
	}
	for e, k := range c.order {
		if c.kinds[k] == "deadline" {
			<-ctxs[k].Done()
		} else {
			cancels[k]()
		}
		var late []string
		limit := c06ShLimit()
		start := time.Now()
		for _, i := range want[e+1] {
			i := i
			rest := limit - time.Since(start)
			if rest < 50*time.Millisecond {
				rest = 50 * time.Millisecond
			}
			if !waitFor(func() bool { return hasEnded(i) }, rest) {
				late = append(late, strconv.Itoa(i))
			}
		}
		if len(late) > 0 {
			c06ShHangs++
		}
		snap := snapshot()
		obs.ended = append(obs.ended, snap)
		obs.late = append(obs.late, late)
		_ = in
	}
	// every context is done now: everything must have ended
	for k := range cancels {
		if cancels[k] != nil {
			cancels[k]()
		}
	}
	for i := range c.cons {
		i := i
		if !waitFor(func() bool { return hasEnded(i) }, 1500*time.Millisecond) {
			obs.leftover = append(obs.leftover, i)
		}
	}
	return obs
}

func c06ShIds(xs []int) string {
	if len(xs) == 0 {
		return "-"
	}
	s := append([]int(nil), xs...)
	sort.Ints(s)
	var out []string
	for _, x := range s {
		out = append(out, strconv.Itoa(x))
	}
	return strings.Join(out, ",")
}

func c06ShParseSets(s string) [][]int {
	var out [][]int
	for _, part := range strings.Split(s, ";") {
		var set []int
		if part != "-" {
			for _, f := range strings.Split(part, ",") {
				if v, err := strconv.Atoi(f); err == nil {
					set = append(set, v)
				}
			}
		}
		out = append(out, set)
	}
	return out
}

func c06ShEval(e *Env, c c06ShCase, family string) {
	key := c.key()
	rep := e.O.Ask("C06", "shared", c.chansText(), c.consText(), c.orderText())
	f := strings.Split(rep, "\t")
	if len(f) != 3 || f[0] != "ok" || !strings.HasPrefix(f[1], "impl=") || !strings.HasPrefix(f[2], "lock=") {
		e.R.Mismatch(key, "-", rep, "oracle rejected the shared-channel case")
		return
	}
	impl := c06ShParseSets(strings.TrimPrefix(f[1], "impl="))
	lock := c06ShParseSets(strings.TrimPrefix(f[2], "lock="))
	if len(impl) != len(c.order)+1 || len(lock) != len(impl) {
		e.R.Mismatch(key, "-", rep, "oracle reply of the wrong length (shared)")
		return
	}
	sensitive := false
	for i := range impl {
		if c06ShIds(impl[i]) != c06ShIds(lock[i]) {
			sensitive = true
		}
	}
	obs := c06ShRun(c, impl)
	if obs.skipped != "" {
		e.R.H("shared_cases_skipped", obs.skipped)
		return
	}
	srcs := strings.ReplaceAll(strings.Join(obs.srcs, " ;; "), "\n", " ⏎ ")
	if obs.harness != "" {
		e.R.Mismatch(key+" :: "+srcs, obs.harness, rep, "shared channels: the case could not be set up on the real code")
		return
	}
	e.R.Case(key, len(c.cons) >= 2)
	e.R.H("shared_family", family)
	e.R.H("shared_evaluations_per_case", strconv.Itoa(len(c.cons)))
	perCh := map[int]int{}
	ctxOfCh := map[int]map[int]bool{}
	for i, x := range c.cons {
		e.R.H("shared_entry", x.entry+map[bool]string{true: " on the VM of an earlier run whose worker is parked", false: ""}[x.entry == "call" && x.vmOf >= 0])
		for j, o := range x.ops {
			name := o.op
			if o.op == "send" {
				name += map[int]string{0: " (c <- v)", 1: " (c.send(v))"}[o.form]
			}
			e.R.H("shared_blocking_operation", name)
			if j == 0 {
				perCh[o.ch]++
				if ctxOfCh[o.ch] == nil {
					ctxOfCh[o.ch] = map[int]bool{}
				}
				ctxOfCh[o.ch][x.ctx] = true
			}
		}
		e.R.H("shared_context_kind", c.kinds[x.ctx])
		_ = i
	}
	for ch, k := range perCh {
		e.R.H("shared_consumers_parked_on_one_channel_object", fmt.Sprintf("%d consumer(s) under %d context(s)", k, len(ctxOfCh[ch])))
	}
	e.R.H("shared_outcome_depends_on_waiting_for_the_context (lock-first contrast differs)", map[bool]string{true: "yes", false: "no"}[sensitive])

	// real code against the Impl model, event by event
	evName := func(ev int) string {
		if ev == 0 {
			return "after all consumers were started"
		}
		return fmt.Sprintf("after cancellation #%d (context %d, %s)", ev, c.order[ev-1], c.kinds[c.order[ev-1]])
	}
	bad := false
	for ev := range impl {
		got, want := c06ShIds(obs.ended[ev]), c06ShIds(impl[ev])
		if got == want {
			continue
		}
		bad = true
		what := "shared channels: which consumers have ended " + evName(ev) + " (real code against the Impl model)"
		e.R.Mismatch(key+" :: "+srcs, "ended="+got+" late="+strings.Join(obs.late[ev], ","), "ended="+want+" ("+rep+")", what)
		// Spec on the real result: a consumer whose OWN context is done must have ended
		for _, ls := range obs.late[ev] {
			i, _ := strconv.Atoi(ls)
			x := c.cons[i]
			contrast := "the lock-first contrast would let it end here"
			if !c06ShHas(lock[ev], i) {
				contrast = "this is exactly what the contrast of the model does (Risor.C06.Shared.stepLock / lockFirst_not_stopped: a primitive that first waits for a lock of the channel object, which looks at no context, is held up by the consumer parked before it until THAT consumer's context is done)"
			}
			others := []string{}
			for j, y := range c.cons {
				if j != i && !c06ShHas(obs.ended[ev], j) {
					others = append(others, fmt.Sprintf("consumer %d (%s, context %d, %s)", j, y.entry, y.ctx, c06ShOpsText(y.ops)))
				}
			}
			e.R.Spec(key+" :: "+srcs,
				fmt.Sprintf("consumer %d (%s, blocked in %s) did not return within the limit %s: its OWN context %d is done, so the evaluation must return whatever the other evaluations sharing the channel objects do "+
					"(Risor.C06.Shared.C06_shared_own_context_suffices); still parked under live contexts: %s; %s", i, x.entry, c06ShOpsText(x.ops), evName(ev), x.ctx, strings.Join(others, "; "), contrast), "")
		}
		break
	}
	if !bad && len(obs.leftover) > 0 {
		e.R.Spec(key+" :: "+srcs, "after EVERY context was cancelled consumer(s) "+c06ShIds(obs.leftover)+" had still not ended within the limit", "")
		e.R.Mismatch(key+" :: "+srcs, "not ended: "+c06ShIds(obs.leftover), rep, "shared channels: after every context was cancelled")
		bad = true
	}
	for i, cls := range obs.cls {
		if c.cons[i].entry == "worker" {
			continue
		}
		e.R.H("shared_returned_error", c.cons[i].ops[0].op+": "+cls)
		if cls == "other" {
			e.R.Mismatch(key+" :: "+srcs, fmt.Sprintf("consumer %d returned %s", i, obs.errText[i]), "nil or the error of its own context", "shared channels: the error a cancelled evaluation returns")
		}
	}
	e.R.H("shared_real_result", map[bool]string{false: "every evaluation returned once its own context was done, the others stayed parked", true: "differs from the model"}[bad])
}

func c06ShHas(xs []int, i int) bool {
	for _, x := range xs {
		if x == i {
			return true
		}
	}
	return false
}

func c06ShOpsText(ops []c06ShOp) string {
	var out []string
	for _, o := range ops {
		out = append(out, fmt.Sprintf("%s on c%d", o.op, o.ch))
	}
	return strings.Join(out, " then ")
}

// ---- generation ----

// own contexts, every one a cancel() context, cancelled in the given order
func c06ShSimple(chans [][2]int, order []int, cons ...c06ShCon) c06ShCase {
	c := c06ShCase{chans: chans, cons: cons, order: order}
	for i := range cons {
		c.cons[i].ctx = i
		c.kinds = append(c.kinds, "cancel")
	}
	return c
}

func c06ShC(entry string, vmOf int, ops ...c06ShOp) c06ShCon {
	return c06ShCon{entry: entry, vmOf: vmOf, ops: ops}
}

func c06ShRandom(r *RNG) c06ShCase {
	var c c06ShCase
	// channel 0: receivers park on it (empty); channel 1 (if any): receivers or, full, senders
	c.chans = append(c.chans, [2]int{0, Pick(r, []int{0, 0, 1, 3})})
	sendCh := -1
	if r.Chance(60) {
		if r.Chance(60) {
			k := 1 + r.Intn(2)
			c.chans = append(c.chans, [2]int{k, k})
			sendCh = len(c.chans) - 1
		} else {
			c.chans = append(c.chans, [2]int{0, Pick(r, []int{0, 2})})
		}
	}
	n := 2 + r.Intn(3)
	workerFree := map[int]bool{}
	for i := 0; i < n; i++ {
		x := c06ShCon{vmOf: -1, ctx: i}
		switch {
		case r.Chance(25):
			x.entry = "worker"
		case r.Chance(35):
			x.entry = "call"
			for w := range c.cons {
				if workerFree[w] && r.Chance(70) {
					x.vmOf = w
					workerFree[w] = false
					break
				}
			}
		default:
			x.entry = "eval"
		}
		nOps := 1
		if r.Chance(25) {
			nOps = 2
		}
		for j := 0; j < nOps; j++ {
			ch := 0
			if len(c.chans) > 1 && r.Chance(30) {
				ch = 1
			}
			if ch == sendCh {
				x.ops = append(x.ops, c06ShOp{op: "send", ch: ch, form: r.Intn(2)})
			} else {
				x.ops = append(x.ops, c06ShOp{op: Pick(r, []string{"range", "range", "range", "arrow", "receive"}), ch: ch})
			}
		}
		c.cons = append(c.cons, x)
		if x.entry == "worker" {
			workerFree[i] = true
		}
		c.kinds = append(c.kinds, "cancel")
	}
	// sometimes two evaluations are given the SAME context
	if n >= 3 && r.Chance(20) {
		c.cons[n-2].ctx = c.cons[0].ctx
	}
	used := map[int]bool{}
	var ctxIds []int
	for _, x := range c.cons {
		if !used[x.ctx] {
			used[x.ctx] = true
			ctxIds = append(ctxIds, x.ctx)
		}
	}
	// cancellation order: mostly the consumer started last first (the ones parked before it stay)
	switch r.Intn(4) {
	case 0: // random permutation
		for i := len(ctxIds) - 1; i > 0; i-- {
			j := r.Intn(i + 1)
			ctxIds[i], ctxIds[j] = ctxIds[j], ctxIds[i]
		}
	case 1: // start order
	default:
		for i, j := 0, len(ctxIds)-1; i < j; i, j = i+1, j-1 {
			ctxIds[i], ctxIds[j] = ctxIds[j], ctxIds[i]
		}
	}
	// the last consumer's own context may be a deadline: it fires first
	if last := c.cons[n-1].ctx; last == n-1 && r.Chance(35) {
		c.kinds[last] = "deadline"
		rest := []int{last}
		for _, k := range ctxIds {
			if k != last {
				rest = append(rest, k)
			}
		}
		ctxIds = rest
	}
	// sometimes some contexts are never cancelled during the observation
	if len(ctxIds) > 1 && r.Chance(25) {
		ctxIds = ctxIds[:1+r.Intn(len(ctxIds)-1)]
	}
	c.order = ctxIds
	return c
}

func c06RunShared(e *Env, rng *RNG) {
	rg, ar, rc := c06ShOp{op: "range"}, c06ShOp{op: "arrow"}, c06ShOp{op: "receive"}
	sd := func(form int) c06ShOp { return c06ShOp{op: "send", ch: 1, form: form} }
	empty := [][2]int{{0, 0}}
	fixed := []c06ShCase{
		// two risor evaluations range over the same channel object; the second one is cancelled
		c06ShSimple(empty, []int{1, 0}, c06ShC("eval", -1, rg), c06ShC("eval", -1, rg)),
		c06ShSimple([][2]int{{0, 2}}, []int{1}, c06ShC("eval", -1, rg), c06ShC("eval", -1, rg)),
		// a worker of an earlier run is parked under a long-lived context; a vm.Call on the same VM
		c06ShSimple(empty, []int{1, 0}, c06ShC("worker", -1, rg), c06ShC("call", 0, rg)),
		c06ShSimple(empty, []int{2, 1, 0}, c06ShC("worker", -1, rg), c06ShC("eval", -1, rg), c06ShC("call", -1, rg)),
		// every way of blocking, one channel object (+ a full one for the sender)
		c06ShSimple([][2]int{{0, 0}, {1, 1}}, []int{3, 2, 1, 0}, c06ShC("eval", -1, rg), c06ShC("eval", -1, ar), c06ShC("eval", -1, rc), c06ShC("eval", -1, sd(0))),
		c06ShSimple([][2]int{{0, 1}, {2, 2}}, []int{0, 2, 1, 3}, c06ShC("eval", -1, ar), c06ShC("call", -1, rg), c06ShC("eval", -1, sd(1)), c06ShC("worker", -1, rc)),
		c06ShSimple([][2]int{{0, 0}, {1, 1}}, []int{1, 2, 0}, c06ShC("eval", -1, sd(0)), c06ShC("eval", -1, sd(1)), c06ShC("call", -1, sd(0))),
		// the consumer parked first is cancelled first, the later ones stay and are cancelled later
		c06ShSimple(empty, []int{0, 2, 1}, c06ShC("eval", -1, rg), c06ShC("eval", -1, rg), c06ShC("eval", -1, rg, ar)),
	}
	// the vm.Call with its own deadline
	dl := c06ShSimple(empty, []int{1, 0}, c06ShC("worker", -1, rg), c06ShC("call", 0, rg))
	dl.kinds[1] = "deadline"
	fixed = append(fixed, dl)
	dl2 := c06ShSimple(empty, []int{2, 0}, c06ShC("eval", -1, rg), c06ShC("eval", -1, rc), c06ShC("eval", -1, rg))
	dl2.kinds[2] = "deadline"
	fixed = append(fixed, dl2)
	for _, c := range fixed {
		c06ShEval(e, c, "fixed witness")
	}
	nRand := 22
	if !e.Quick {
		nRand = 400
	}
	for i := 0; i < nRand; i++ {
		c06ShEval(e, c06ShRandom(rng), "random")
	}
}
