package main

// C04 on C01's proved CLOSURE fragment F5 (lean/RisorModel/C04/CloCert*.lean).  The theorem
// `clo_compile_balanced` says: for EVERY program p of the fragment (with operand nesting within the
// frame's limit) the verified checker `check` accepts EVERY code object of `compClo p` — the main
// code, one per function of the main code and one per literal nested in a function body — with the
// certificate `certClo p` computes from the syntax tree alone (`CloC.hts`, `CloC.htsFn`): a literal
// with k captures is k times MAKE_CELL (each pushes one cell) and LOAD_CLOSURE fn k (pops the k
// cells, pushes one closure), LOAD_FREE pushes one value, STORE_FREE pops one, a closure's body
// starts at height 0 and ends only in RETURN_VALUE.  This file ties the objects of that theorem to
// the real compiler and the real VM, on every program of the shared generator that lies in the
// fragment, on C01's directed closure programs and on programs of C01's closure-fragment generator
// (makers: functions whose bodies create closures over their parameters and locals):
//
//   (A) each real code object with the operands `check` never reads erased (pool index of
//       LOAD_CONST / LOAD_CLOSURE, table index of LOAD_GLOBAL / STORE_GLOBAL, slot index of
//       LOAD_FAST / STORE_FAST / MAKE_CELL, free index of LOAD_FREE / STORE_FREE; theorem
//       `check_eraseIdxC`) must BE `toC04` of the model's code object, slot for slot; the real
//       compiler must have produced exactly the code objects `compClo p` has, and the tree of code
//       objects reached through function constants must be `funsOf p` in its order;
//   (B) the certificate computed by Lean from the SYNTAX TREE is laid over the bytecode the REAL
//       compiler emitted for each code object and must be accepted by `check` on those
//       instructions; the certificate the (unverified) inference finds on the real bytecode must
//       agree with it; the proved statement itself, evaluated, must hold;
//   (C) every program is RUN on the real VM with the height hook (vm.VerifTrace): at every
//       instruction the real VM dispatches, in every frame — the maker's, the closure's, the frame
//       of a function that received the closure as an argument —, the real operand-stack height
//       (sp relative to the frame's entry) must equal the SYNTAX-TREE certificate's entry for that
//       slot (not the inferred one: `certClo` itself is what is compared).
//
// Any difference is a correspondence mismatch (e.R.Mismatch): the theorem would no longer be
// about the code.

import (
	"fmt"
	"strconv"
	"strings"
	"time"

	"github.com/risor-io/risor/compiler"
	"github.com/risor-io/risor/op"
	"github.com/risor-io/risor/vm"
)

var c04cloRuleDone = false
var c04cloRng *RNG
var c04cloCalls = 0

// c04CloClass classifies a code object for the histograms
func c04CloClass(text string) string {
	var tags []string
	if strings.Contains(text, "MAKE_CELL") {
		tags = append(tags, "makes-closure")
	}
	if strings.Contains(text, "LOAD_FREE") || strings.Contains(text, "STORE_FREE") {
		tags = append(tags, "closure-body")
	}
	if strings.Contains(text, "JUMP_BACKWARD") {
		tags = append(tags, "loop")
	}
	if len(tags) == 0 {
		return "plain"
	}
	return strings.Join(tags, "+")
}

func c04CloHasClosureOp(text string) bool {
	return strings.Contains(text, "MAKE_CELL") || strings.Contains(text, "LOAD_CLOSURE") ||
		strings.Contains(text, "LOAD_FREE") || strings.Contains(text, "STORE_FREE")
}

// c04CloOne checks ties (A) and (B) on one program; it returns (inside the fragment, every
// certificate accepted, the syntax-tree certificates per code id, the compiled code).
func c04CloOne(e *Env, p *N, src, origin string) (bool, bool, map[string][]int, *compiler.Code) {
	code, err := CompileSrc(src)
	if err != nil {
		// whether fragment programs compile is C01's link A; here there is nothing to check
		e.R.H("clocert", origin+":does-not-compile")
		return false, false, nil, nil
	}
	codes, ccs := c04FunCodes(code)
	if len(ccs) == 0 {
		return false, false, nil, nil
	}
	rep := e.O.Ask("C04", "clocert", Sexp(p), c01Globals, codes)
	f := strings.Split(rep, "\t")
	if f[0] == "out" {
		return false, false, nil, nil
	}
	if f[0] != "in" || len(f) != 5+len(ccs) {
		e.R.Mismatch(src, codes, rep[:min(len(rep), 300)], "C04 clocert: malformed oracle reply")
		return false, false, nil, nil
	}
	fits, peak, tree := f[1], f[2], f[4]
	e.R.H("clocert", origin+":"+fits)
	var pk, nModel int
	fmt.Sscanf(peak, "%d", &pk)
	fmt.Sscanf(f[3], "%d", &nModel)
	e.R.H("clocert_peak", fmt.Sprintf("%02d", min(pk, 40)))
	e.R.H("clocert_code_objects", fmt.Sprintf("%d", min(len(ccs), 10)))
	if nModel != len(ccs) {
		e.R.Mismatch(src, fmt.Sprintf("%d code objects", len(ccs)), fmt.Sprintf("%d code objects", nModel),
			"closure fragment: the real compiler and compClo p produce different numbers of code objects")
	}
	if tree != "tree" {
		e.R.Mismatch(src, codes, tree, "closure fragment: the code objects reached from the main code through function constants are not funsOf p in its order — clo_compile_balanced would quantify over other code objects than the compiler makes")
	}
	if fits != "fits" {
		e.R.Note("closure-fragment program nests operands deeper than the frame's limit (guard fitsClo of clo_compile_balanced): peak %s", peak)
	}
	allOK := fits == "fits" && nModel == len(ccs) && tree == "tree"
	certs := map[string][]int{}
	for i, cc := range ccs {
		text := CodeText(cc)
		e.R.Case("clo:"+text, c04NonTrivial(text) || c04CloHasClosureOp(text))
		g := strings.SplitN(f[5+i], ":", 6)
		what := "code object " + cc.ID()
		if len(g) != 6 || g[0] != cc.ID() {
			allOK = false
			e.R.Mismatch(src, what+": "+text, f[5+i], "closure fragment: compClo p has no code object with this id, or its instructions do not decode")
			continue
		}
		realOK, same, modelOK, inferred := g[1], g[2], g[3], g[4]
		e.R.H("clocert_code_class", c04CloClass(text))
		if k := strings.Index(text, "LOAD_CLOSURE:"); k >= 0 {
			// the largest number of cells one LOAD_CLOSURE of this code object pops
			mx := 0
			for _, tok := range strings.Fields(text) {
				if strings.HasPrefix(tok, "LOAD_CLOSURE:") {
					parts := strings.Split(tok, ":")
					if len(parts) == 3 {
						if v, err := strconv.Atoi(parts[2]); err == nil && v > mx {
							mx = v
						}
					}
				}
			}
			e.R.H("clocert_cells_per_closure", fmt.Sprintf("%02d", min(mx, 30)))
		}
		if same != "same" {
			allOK = false
			e.R.Mismatch(src, what+": "+text, f[5+i][:min(len(f[5+i]), 200)], "closure fragment (A): the real code object with pool/table/slot/free indices erased is not toC04 of compClo p's code object — clo_compile_balanced is not about this bytecode")
		}
		if fits == "fits" {
			if realOK != "accept" {
				allOK = false
				e.R.Mismatch(src, what+": "+text, f[5+i][:min(len(f[5+i]), 200)], "closure fragment (B): the certificate computed from the syntax tree (certClo: CloC.hts / htsFn) is refused by the verified checker on the REAL compiler's bytecode")
			}
			if modelOK != "accept" {
				allOK = false
				e.R.Mismatch(src, what+": "+text, f[5+i][:min(len(f[5+i]), 200)], "closure fragment: check (code object) (its certificate in certClo p) evaluates to false although clo_main_cert_accepted / clo_fn_cert_accepted prove it (inconsistent build)")
			}
			if inferred != "agree" {
				allOK = false
				e.R.Mismatch(src, what+": "+text, f[5+i][:min(len(f[5+i]), 200)], "closure fragment: the certificate inferred from the real bytecode disagrees with the syntax tree's certificate")
			}
		}
		var hs []int
		for _, x := range strings.Split(g[5], ",") {
			if x == "-" {
				hs = append(hs, -1)
			} else {
				v, _ := strconv.Atoi(x)
				hs = append(hs, v)
			}
		}
		certs[cc.ID()] = hs
	}
	return true, allOK, certs, code
}

// c04CloHeights (tie C) runs a program on the real VM and compares, at every instruction the VM
// dispatches in every frame, the real operand-stack height with the SYNTAX-TREE certificate.
func c04CloHeights(e *Env, src string, certs map[string][]int, timeout time.Duration) {
	type ent struct {
		id     string
		ip, fp int
		op     op.Code
	}
	base := map[int]int{}
	var prev *ent
	mismatch := ""
	n, frames := 0, 0
	cloOps := map[op.Code]int{}
	vm.VerifTrace = func(_ *vm.VirtualMachine, id string, ip int, opc op.Code, sp int, fp int) {
		if mismatch != "" {
			return
		}
		n++
		// a frame starts at slot 0 (the only other way to reach slot 0 is a backward jump in the same frame)
		if ip == 0 && !(prev != nil && prev.fp == fp && prev.id == id && prev.op == op.JumpBackward) {
			base[fp] = sp + 1
			frames++
		}
		cur := ent{id, ip, fp, opc}
		prev = &cur
		switch opc {
		case op.MakeCell, op.LoadClosure, op.LoadFree, op.StoreFree:
			cloOps[opc]++
		}
		cert, ok := certs[id]
		b, okb := base[fp]
		if !ok || !okb {
			mismatch = fmt.Sprintf("instruction #%d: code %s slot %d in frame %d: no certificate for this code object", n, id, ip, fp)
			return
		}
		h := sp + 1 - b
		want := -1
		if ip < len(cert) {
			want = cert[ip]
		}
		if want != h {
			mismatch = fmt.Sprintf("instruction #%d: code %s slot %d (%s) in frame %d: real height %d, certClo %d", n, id, ip, op.GetInfo(opc).Name, fp, h, want)
		}
	}
	out := EvalSrc(src, timeout)
	vm.VerifTrace = nil
	_ = out
	bucket := func(k int) string {
		switch {
		case k == 0:
			return "0"
		case k <= 3:
			return "1-3"
		case k <= 20:
			return "4-20"
		default:
			return ">20"
		}
	}
	switch {
	case n == 0:
		e.R.H("clo_real_heights", "not-run")
	case mismatch == "":
		e.R.H("clo_real_heights", "agree")
		switch {
		case frames > 20:
			e.R.H("clo_real_heights_frames", ">20")
		case frames > 1:
			e.R.H("clo_real_heights_frames", "2-20")
		default:
			e.R.H("clo_real_heights_frames", "1")
		}
		e.R.H("clo_traced_MAKE_CELL", bucket(cloOps[op.MakeCell]))
		e.R.H("clo_traced_LOAD_CLOSURE", bucket(cloOps[op.LoadClosure]))
		e.R.H("clo_traced_LOAD_FREE", bucket(cloOps[op.LoadFree]))
		e.R.H("clo_traced_STORE_FREE", bucket(cloOps[op.StoreFree]))
	default:
		e.R.H("clo_real_heights", "differ")
		e.R.Mismatch(src, mismatch, "certClo (clo_compile_balanced + check_sound)", "closure fragment (C): real operand-stack height at a dispatched instruction vs the height the syntax-tree certificate gives for that slot")
	}
}

// c04CloTie is called once per program of the shared generator.
func c04CloTie(e *Env, p *N) {
	if !c04cloRuleDone {
		c04cloRuleDone = true
		c04cloRng = NewRNG(e.Seed*0x9E3779B9 + 0xC04C10) // own stream: the other generators' streams are untouched
		e.R.Rule += "; proved closure fragment (clo_compile_balanced): every generated program that lies in C01's closure fragment F5 (inClo), " +
			"C01's directed closure programs (counter, adder, accumulator, shared variable, writes after the capture, immediate calls, literals as callee / " +
			"argument / in loops and if blocks, free variables in every position) and one program of C01's closure-fragment generator per generated program " +
			"(makers with 1-3 inner literals capturing parameters and locals, closures returned, stored, passed to helpers, called in interleaved order): for EVERY " +
			"code object (main + one per function literal at any depth) the certificate certClo computes from the syntax tree must be accepted by the verified " +
			"checker on the real compiler's bytecode, that bytecode with pool/table/slot/free indices erased must equal toC04 of compClo p's code object, and at every " +
			"instruction the real VM dispatches in every frame the real height must equal certClo's entry; a closure-fragment case is one code object (key clo:<instruction text>), " +
			"non-trivial when it has a break/continue/return inside a loop or contains MAKE_CELL / LOAD_CLOSURE / LOAD_FREE / STORE_FREE"
		for _, q := range c01cloDirected() {
			src := c01funSrc(q)
			in, ok, certs, _ := c04CloOne(e, q, src, "c01-directed")
			if !in {
				e.R.Mismatch(src, "-", "out", "closure fragment: a directed program of C01's closure fragment is outside the fragment")
				continue
			}
			if ok {
				c04CloHeights(e, src, certs, 5*time.Second)
			}
		}
	}
	// 1. the shared generator's program, when it lies in the fragment
	if Kinds(p)["func"] > 0 {
		src := Src(p)
		in, ok, certs, _ := c04CloOne(e, p, src, "shared:whole")
		if !in {
			e.R.H("clocert", "shared:outside")
		} else if ok {
			c04CloHeights(e, src, certs, 5*time.Second)
		}
	}
	// 2. a fragment-only program: certificates, and the certified heights against the real VM
	// (quick: one per generated program = 2 500; thorough: one per three = 20 000, which keeps the
	// added time of the thorough tier near two minutes)
	c04cloCalls++
	if !e.Quick && c04cloCalls%3 != 0 {
		return
	}
	q, _ := c01cloProgram(c04cloRng.Fork())
	qsrc := c01funSrc(q)
	in, ok, certs, _ := c04CloOne(e, q, qsrc, "own")
	if !in {
		e.R.H("clocert", "own:outside")
		return
	}
	if ok {
		c04CloHeights(e, qsrc, certs, 5*time.Second)
	}
}

// development aid (not a registered check): `harness C04clo -oracle …` runs only the closure
// fragment's directed and generated programs
func init() {
	commands["C04clo"] = func(e *Env) {
		e.R.Rule = "closure fragment only (development aid)"
		nProg := 300
		if !e.Quick {
			nProg = 3000
		}
		for i := 0; i < nProg; i++ {
			c04CloTie(e, n("prog"))
		}
	}
}
