package main

// Shared plumbing of the correspondence harness: PRNG, oracle pipe, result file.
// Every random choice derives from one splitmix64 state seeded by VERIF_SEED.

import (
	"bufio"
	"crypto/sha256"
	"encoding/hex"
	"encoding/json"
	"fmt"
	"io"
	"os"
	"os/exec"
	"sort"
	"strings"
	"sync"
	"time"
)

type RNG struct{ s uint64 }

func NewRNG(seed uint64) *RNG { return &RNG{s: seed*0x9E3779B97F4A7C15 + 0x1234567} }
func (r *RNG) Next() uint64 {
	r.s += 0x9E3779B97F4A7C15
	z := r.s
	z = (z ^ (z >> 30)) * 0xBF58476D1CE4E5B9
	z = (z ^ (z >> 27)) * 0x94D049BB133111EB
	return z ^ (z >> 31)
}
func (r *RNG) Intn(n int) int {
	if n <= 0 {
		return 0
	}
	return int(r.Next() % uint64(n))
}
func (r *RNG) Bool() bool          { return r.Next()&1 == 1 }
func (r *RNG) Chance(pct int) bool { return r.Intn(100) < pct }
func (r *RNG) Fork() *RNG          { return NewRNG(r.Next()) }
func Pick[T any](r *RNG, xs []T) T { return xs[r.Intn(len(xs))] }

// Oracle is the compiled Lean model behind the line protocol.
type Oracle struct {
	cmd *exec.Cmd
	in  *bufio.Writer
	out *bufio.Reader
	mu  sync.Mutex
	N   int
}

func StartOracle(path string) (*Oracle, error) {
	cmd := exec.Command(path)
	stdin, err := cmd.StdinPipe()
	if err != nil {
		return nil, err
	}
	stdout, err := cmd.StdoutPipe()
	if err != nil {
		return nil, err
	}
	cmd.Stderr = os.Stderr
	if err := cmd.Start(); err != nil {
		return nil, err
	}
	o := &Oracle{cmd: cmd, in: bufio.NewWriterSize(stdin, 1<<20), out: bufio.NewReaderSize(stdout, 1<<20)}
	if r := o.Ask("PING"); r != "PONG" {
		return nil, fmt.Errorf("oracle does not answer PING: %q", r)
	}
	return o, nil
}

func cleanField(s string) string {
	if s == "" {
		return "-"
	}
	return s
}

// Ask sends one request (fields joined by TAB) and returns the reply line.
func (o *Oracle) Ask(fields ...string) string {
	o.mu.Lock()
	defer o.mu.Unlock()
	o.N++
	for i := range fields {
		fields[i] = cleanField(fields[i])
	}
	o.in.WriteString(strings.Join(fields, "\t"))
	o.in.WriteByte('\n')
	o.in.Flush()
	line, err := o.out.ReadString('\n')
	if err != nil {
		return "error\toracle-died:" + err.Error()
	}
	return strings.TrimRight(line, "\r\n")
}

// AskBatch pipelines many requests (each already TAB-joined).
func (o *Oracle) AskBatch(reqs []string) []string {
	o.mu.Lock()
	defer o.mu.Unlock()
	o.N += len(reqs)
	done := make(chan struct{})
	go func() {
		for _, r := range reqs {
			o.in.WriteString(r)
			o.in.WriteByte('\n')
		}
		o.in.Flush()
		close(done)
	}()
	out := make([]string, len(reqs))
	for i := range reqs {
		line, err := o.out.ReadString('\n')
		if err != nil {
			out[i] = "error\toracle-died:" + err.Error()
			continue
		}
		out[i] = strings.TrimRight(line, "\r\n")
	}
	<-done
	return out
}

func (o *Oracle) Close() {
	o.in.Flush()
	if c, ok := o.cmd.Stdin.(io.Closer); ok {
		c.Close()
	}
	o.cmd.Process.Kill()
	o.cmd.Wait()
}

func Hex(s string) string {
	if s == "" {
		return "-"
	}
	return hex.EncodeToString([]byte(s))
}
func UnHex(s string) string {
	if s == "-" {
		return ""
	}
	b, err := hex.DecodeString(s)
	if err != nil {
		return "<bad-hex:" + s + ">"
	}
	return string(b)
}

type Mismatch struct {
	Case  string `json:"case"`
	Go    string `json:"go"`
	Model string `json:"model"`
	What  string `json:"what,omitempty"`
}
type SpecViolation struct {
	Case    string `json:"case"`
	Detail  string `json:"detail"`
	Finding string `json:"finding"` // id of the known-finding guard the case falls under, "" if none
}

// Result is what a harness sub-command hands to the ./check driver.
type Result struct {
	Property           string                    `json:"property"`
	Tier               string                    `json:"tier"`
	Seed               uint64                    `json:"seed"`
	Evaluations        int                       `json:"evaluations"`
	DistinctNontrivial int                       `json:"distinct_nontrivial"`
	Rule               string                    `json:"rule"`
	Samples            []string                  `json:"samples"`
	Hist               map[string]map[string]int `json:"histograms"`
	Mismatches         []Mismatch                `json:"corr_mismatches"`
	SpecViolations     []SpecViolation           `json:"spec_violations"`
	FindingsConfirmed  map[string]string         `json:"findings_confirmed"` // id -> the concrete input that reproduced it
	Exhaustive         bool                      `json:"exhaustive"`
	OracleRequests     int                       `json:"oracle_requests"`
	Notes              []string                  `json:"notes"`
	WallS              float64                   `json:"wall_s"`

	mu       sync.Mutex
	distinct map[[16]byte]struct{}
	start    time.Time
	nMis     int
	nSpec    int
}

func NewResult(prop, tier string, seed uint64) *Result {
	return &Result{Property: prop, Tier: tier, Seed: seed, Hist: map[string]map[string]int{},
		FindingsConfirmed: map[string]string{}, distinct: map[[16]byte]struct{}{}, start: time.Now(),
		Samples: []string{}, Mismatches: []Mismatch{}, SpecViolations: []SpecViolation{}, Notes: []string{}}
}

// Case counts one evaluated case; key is its canonical form.
func (r *Result) Case(key string, nontrivial bool) {
	r.mu.Lock()
	defer r.mu.Unlock()
	r.Evaluations++
	if nontrivial {
		h := sha256.Sum256([]byte(key))
		var k [16]byte
		copy(k[:], h[:16])
		if _, ok := r.distinct[k]; !ok {
			r.distinct[k] = struct{}{}
			r.DistinctNontrivial++
		}
	}
	if len(r.Samples) < 8 || (len(r.Samples) < 24 && r.Evaluations%997 == 0) {
		if len(key) > 400 {
			key = key[:400] + "…"
		}
		r.Samples = append(r.Samples, key)
	}
}
func (r *Result) H(hist, key string) {
	r.mu.Lock()
	defer r.mu.Unlock()
	r.h(hist, key)
}
func (r *Result) h(hist, key string) {
	m := r.Hist[hist]
	if m == nil {
		m = map[string]int{}
		r.Hist[hist] = m
	}
	m[key]++
}
func (r *Result) Mismatch(c, goOut, model, what string) {
	r.mu.Lock()
	defer r.mu.Unlock()
	r.nMis++
	if len(r.Mismatches) < 50 {
		r.Mismatches = append(r.Mismatches, Mismatch{c, goOut, model, what})
	}
}
func (r *Result) Spec(c, detail, finding string) {
	r.mu.Lock()
	defer r.mu.Unlock()
	r.nSpec++
	if finding != "" {
		if _, ok := r.FindingsConfirmed[finding]; !ok {
			r.FindingsConfirmed[finding] = c
		}
		r.h("known_finding_hits", finding)
		// keep only a few attributed cases; unattributed ones are all kept (up to a cap)
		n := 0
		for _, v := range r.SpecViolations {
			if v.Finding == finding {
				n++
			}
		}
		if n >= 3 {
			return
		}
	}
	if len(r.SpecViolations) < 200 {
		r.SpecViolations = append(r.SpecViolations, SpecViolation{c, detail, finding})
	}
}
func (r *Result) Note(format string, a ...any) {
	r.mu.Lock()
	defer r.mu.Unlock()
	r.Notes = append(r.Notes, fmt.Sprintf(format, a...))
}
func (r *Result) Write(path string, o *Oracle) error {
	r.WallS = time.Since(r.start).Seconds()
	if o != nil {
		r.OracleRequests = o.N
	}
	r.Hist["totals"] = map[string]int{"corr_mismatches": r.nMis, "spec_violations": r.nSpec}
	b, err := json.MarshalIndent(r, "", " ")
	if err != nil {
		return err
	}
	return os.WriteFile(path, b, 0o644)
}

func sortedKeys[V any](m map[string]V) []string {
	ks := make([]string, 0, len(m))
	for k := range m {
		ks = append(ks, k)
	}
	sort.Strings(ks)
	return ks
}
