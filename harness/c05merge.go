package main

// C05, streams J and K (added after two seeded changes the check did not see).
//
//  J. several tables merged into one map in the FIXED order of a slice — risor.DefaultGlobals (the
//     top-level builtin tables of builtins, http, fmt, os, dns; `sprintf` is defined by two of
//     them).  For every name that more than one table defines (and a sample of the others) the
//     global of a fresh DefaultGlobals() is probed (called with 0 and with 65 arguments) next to
//     the entry of every table that defines it; which table it behaves like is compared with the
//     Lean model (Risor.C05.mergeTables, asked under random visiting orders inside each table;
//     merge_tables_last_wins: the last table of the slice) and repeated with fresh maps; scripts
//     that call a shared name with 0 / 1 / 64 / 65 / 66 arguments, bare and under try, are
//     evaluated repeatedly with default globals: one outcome.
//
//  K. candidates probed in a priority order — importer.FSImporter.readFileWithExtensions.
//     Generated extension lists (the default one, custom lists of 1-4), module names for which
//     0-4 candidate files exist (mostly >= 2), every file defining a different module body, on an
//     in-memory filesystem that records every Open and delays the answer for chosen files (the
//     adversary: latency per file).  `import m` in a script and Import() called by the host: the
//     file that is read against the model (Risor.C05.pickExtension: the first extension of the
//     list whose file exists), repeated under different latencies: one outcome.

import (
	"context"
	"fmt"
	"io/fs"
	"sort"
	"strconv"
	"strings"
	"sync"
	"testing/fstest"
	"time"

	"github.com/risor-io/risor"
	"github.com/risor-io/risor/builtins"
	"github.com/risor-io/risor/importer"
	modDns "github.com/risor-io/risor/modules/dns"
	modFmt "github.com/risor-io/risor/modules/fmt"
	modHTTP "github.com/risor-io/risor/modules/http"
	modOs "github.com/risor-io/risor/modules/os"
	"github.com/risor-io/risor/object"
)

// ------------------------------------------------------------------ stream J: DefaultGlobals

var c05_tableNames = []string{"builtins", "http", "fmt", "os", "dns"}

// the tables in the order of the slice in DefaultGlobals (read at the pinned commit)
func c05_builtinTables() []map[string]object.Object {
	return []map[string]object.Object{builtins.Builtins(), modHTTP.Builtins(), modFmt.Builtins(), modOs.Builtins(), modDns.Builtins()}
}

// c05_probeCallable: what a callable does with 0 and with 65 arguments (the text of the result)
func c05_probeCallable(o object.Object) string {
	b, ok := o.(*object.Builtin)
	if !ok {
		return "not-a-builtin:" + string(o.Type())
	}
	show := func(res object.Object) (s string) {
		defer func() {
			if p := recover(); p != nil {
				s = fmt.Sprintf("panic:%v", p)
			}
		}()
		if res == nil {
			return "<nil>"
		}
		if er, ok := res.(*object.Error); ok {
			return fmt.Sprintf("error(raised=%v): %s", er.IsRaised(), er.Value().Error())
		}
		return string(res.Type()) + ": " + res.Inspect()
	}
	call := func(args ...object.Object) (s string) {
		defer func() {
			if p := recover(); p != nil {
				s = fmt.Sprintf("panic:%v", p)
			}
		}()
		return show(b.Call(context.Background(), args...))
	}
	many := []object.Object{object.NewString(strings.Repeat("%d.", 64))}
	for i := 0; i < 64; i++ {
		many = append(many, object.NewInt(int64(i)))
	}
	return "0 args → " + call() + " ; 65 args → " + call(many...)
}

func c05DefaultGlobalsMerge(e *Env, reps int) {
	r := e.Rng.Fork()
	tabs := c05_builtinTables()
	definedBy := map[string][]int{}
	for i, t := range tabs {
		for k := range t {
			definedBy[k] = append(definedBy[k], i)
		}
	}
	var shared, single []string
	for _, k := range sortedKeys(definedBy) {
		if len(definedBy[k]) > 1 {
			shared = append(shared, k)
		} else {
			single = append(single, k)
		}
	}
	e.R.H("default_globals_names_defined_by_several_tables", strconv.Itoa(len(shared)))
	e.R.Note("DefaultGlobals: names defined by more than one builtin table: %v", shared)
	// calling these with no arguments has effects on the process
	danger := map[string]bool{"exit": true, "cd": true, "setenv": true, "unsetenv": true, "fetch": true, "nslookup": true, "print": true, "printf": true, "println": true}
	names := append([]string{}, shared...)
	for i := 0; i < 6 && len(single) > 0; i++ {
		if n := Pick(r, single); !danger[n] {
			names = append(names, n)
		}
	}
	// the model: tables in slice order, entries name=<table index>, visited in a random order inside each table
	var fields []string
	for i, t := range tabs {
		var es []string
		for _, k := range sortedKeys(t) {
			es = append(es, k+"="+strconv.Itoa(i))
		}
		if len(es) == 0 {
			es = []string{"-"}
		}
		fields = append(fields, strings.Join(es, ","))
	}
	ask := func() string {
		var perms []string
		for _, t := range tabs {
			perms = append(perms, c05_permField(c05_randPerm(r, len(t))))
		}
		return e.O.Ask("C05", "mergeTables", "impl", "-", strings.Join(perms, "/"), strings.Join(fields, ";"), strings.Join(names, ","))
	}
	ans := strings.Split(ask(), "\t")
	for t := 0; t < 2; t++ {
		if a2 := ask(); a2 != strings.Join(ans, "\t") {
			e.R.Mismatch("DefaultGlobals: merge of the builtin tables", a2, strings.Join(ans, "\t"), "model: mergeTables under two choices of visiting orders inside the tables")
		}
	}
	if len(ans) != 2 || ans[0] != ans[1] {
		e.R.Mismatch("DefaultGlobals: merge of the builtin tables", ans[0], fmt.Sprint(ans), "model: mergeTables against its Spec lastDefining")
	}
	want := strings.Split(ans[0], ",")
	if len(want) != len(names) {
		e.R.Mismatch("DefaultGlobals: merge of the builtin tables", fmt.Sprint(names), ans[0], "model answer does not cover the names")
		return
	}
	for ni, name := range names {
		if danger[name] {
			continue
		}
		caseKey := fmt.Sprintf("risor.DefaultGlobals()[%q] (defined by the builtin tables of %s)", name, c05_tablesShown(definedBy[name]))
		e.R.Case(caseKey, len(definedBy[name]) >= 2)
		wi, _ := strconv.Atoi(want[ni])
		probes := map[int]string{}
		for _, ti := range definedBy[name] {
			probes[ti] = c05_probeCallable(tabs[ti][name])
		}
		seen := map[string]bool{}
		reported := false
		for rep := 0; rep < reps; rep++ {
			opt := risor.DefaultGlobalsOpts{ListenersAllowed: rep%2 == 1}
			g, _ := risor.DefaultGlobals(opt)[name].(object.Object)
			got := "absent"
			if g != nil {
				got = c05_probeCallable(g)
			}
			seen[got] = true
			if got != probes[wi] && !reported {
				reported = true
				like := "none of them"
				for _, ti := range definedBy[name] {
					if probes[ti] == got {
						like = c05_tableNames[ti]
					}
				}
				e.R.Mismatch(caseKey, "behaves like the entry of "+like+": "+got, "the entry of "+c05_tableNames[wi]+" (last table of the slice that defines it): "+probes[wi],
					"which table's function a default global is bound to, against mergeTables")
			}
		}
		if len(seen) > 1 {
			e.R.Spec(caseKey, fmt.Sprintf("%d calls of DefaultGlobals() bound the name to functions that behave in %d different ways: %s", reps, len(seen), strings.Join(sortedKeys(seen), " | ")), "")
		}
	}
	// scripts under default globals
	for _, name := range shared {
		if danger[name] {
			continue
		}
		for _, k := range []int{0, 1, 2, 64, 65, 66, 100} {
			for _, try := range []bool{false, true} {
				args := []string{}
				if k > 0 {
					args = append(args, strconv.Quote(strings.Repeat("%d.", k-1)))
				}
				for i := 1; i < k; i++ {
					args = append(args, strconv.Itoa(i))
				}
				src := fmt.Sprintf("%s(%s)", name, strings.Join(args, ", "))
				if try {
					src = fmt.Sprintf("try(func() { return %s }, func(e) { return \"caught: \" + string(e) })", src)
				}
				caseKey := "default globals: " + c05_short(src)
				e.R.Case(caseKey, true)
				e.R.H("default_globals_script_args", strconv.Itoa(k)+map[bool]string{true: "/try", false: ""}[try])
				seen := map[string]bool{}
				for rep := 0; rep < reps; rep++ {
					res, err := risor.Eval(context.Background(), src)
					out := ""
					if err != nil {
						out = "error: " + err.Error()
					} else if res != nil {
						out = string(res.Type()) + ": " + res.Inspect()
					}
					seen[c05_short(out)] = true
				}
				if len(seen) > 1 {
					e.R.Spec(caseKey, fmt.Sprintf("%d evaluations of the same script under default globals gave %d outcomes: %s", reps, len(seen), strings.Join(sortedKeys(seen), " | ")), "")
				}
			}
		}
	}
}

func c05_tablesShown(is []int) string {
	var s []string
	for _, i := range is {
		s = append(s, c05_tableNames[i])
	}
	return strings.Join(s, "+")
}

// ------------------------------------------------------------------ stream K: extension priority

// c05_slowFS: an in-memory filesystem that records every Open and answers after a delay per file
type c05_slowFS struct {
	files fstest.MapFS
	delay map[string]time.Duration
	mu    *sync.Mutex
	opens *[]string
}

func (f c05_slowFS) Open(name string) (fs.File, error) {
	f.mu.Lock()
	*f.opens = append(*f.opens, name)
	f.mu.Unlock()
	if d := f.delay[name]; d > 0 {
		time.Sleep(d)
	}
	return f.files.Open(name)
}

func c05ImportExtensions(e *Env, n, reps int) {
	rng := e.Rng.Fork()
	allExts := []string{".risor", ".rsr", ".rs", ".mod", ".txt"}
	globalNames := sortedKeys(risor.DefaultGlobals())
	for i := 0; i < n; i++ {
		r := rng.Fork()
		var exts []string // nil: the importer's default list
		listed := []string{".risor", ".rsr"}
		if r.Chance(45) {
			p := c05_randPerm(r, len(allExts))
			k := 1 + r.Intn(4)
			if r.Chance(70) {
				k = 2 + r.Intn(3)
			}
			exts = nil
			for _, j := range p[:k] {
				exts = append(exts, allExts[j])
			}
			listed = exts
		}
		name := Pick(r, []string{"which", "lib/util", "a", "conf", "pkg/sub/m"})
		present := make([]bool, len(listed))
		np := 0
		for j := range listed {
			present[j] = r.Chance(70)
			if present[j] {
				np++
			}
		}
		if i == 0 { // directed: which.risor next to which.rsr, default list
			exts, listed, name, present, np = nil, []string{".risor", ".rsr"}, "which", []bool{true, true}, 2
		}
		files := fstest.MapFS{"other.risor": &fstest.MapFile{Data: []byte("func which() { return \"other\" }\n")}}
		var bits, shownFiles []string
		for j, x := range listed {
			bits = append(bits, map[bool]string{true: "1", false: "0"}[present[j]])
			if present[j] {
				files[name+x] = &fstest.MapFile{Data: []byte(fmt.Sprintf("func which() { return %q }\n", name+x))}
				shownFiles = append(shownFiles, name+x)
			}
		}
		viaScript := r.Chance(60) && !strings.Contains(name, "/")
		route := "FSImporter.Import(" + strconv.Quote(name) + ")"
		src := ""
		if viaScript {
			src = fmt.Sprintf("import %s\n%s.which()", name, name)
			route = "script " + strconv.Quote(src)
		}
		extsShown := "default"
		if exts != nil {
			extsShown = strings.Join(exts, ",")
		}
		caseKey := fmt.Sprintf("FSImporter extensions=[%s] files=[%s]: %s", extsShown, strings.Join(shownFiles, " "), route)
		e.R.Case(caseKey, np >= 2)
		e.R.H("import_candidate_files_present", strconv.Itoa(np))
		e.R.H("import_extension_list", map[bool]string{true: "default", false: "custom/" + strconv.Itoa(len(listed))}[exts == nil])
		e.R.H("import_route", map[bool]string{true: "script", false: "host"}[viaScript])

		want := e.O.Ask("C05", "pickExt", "impl", "-", strings.Join(listed, ","), strings.Join(bits, ","))
		wantFile := "none"
		var wantOpens []string
		if f := strings.Fields(want); len(f) == 2 && f[0] == "some" {
			wantFile = name + f[1]
		}
		for _, x := range listed { // the probes the code makes: in list order, up to the first hit
			wantOpens = append(wantOpens, name+x)
			if name+x == wantFile {
				break
			}
		}
		seen := map[string]bool{}
		reported := false
		for rep := 0; rep < reps; rep++ {
			// the adversary: latency per file; half of the time the file the model picks answers late
			delay := map[string]time.Duration{}
			switch rep % 4 {
			case 1:
				delay[wantFile] = time.Duration(1+r.Intn(3)) * time.Millisecond
			case 2:
				for _, x := range listed {
					delay[name+x] = time.Duration(r.Intn(1500)) * time.Microsecond
				}
			case 3:
				for j, x := range listed {
					delay[name+x] = time.Duration(len(listed)-j) * 700 * time.Microsecond
				}
			}
			var opens []string
			sfs := c05_slowFS{files, delay, &sync.Mutex{}, &opens}
			imp := importer.NewFSImporter(importer.FSImporterOptions{GlobalNames: globalNames, SourceFS: sfs, Extensions: exts})
			got := ""
			ctx, cancel := context.WithTimeout(context.Background(), 10*time.Second)
			if viaScript {
				res, err := risor.Eval(ctx, src, risor.WithImporter(imp))
				if err != nil {
					got = "none" // import error: module not found
					if !strings.Contains(err.Error(), "not found") {
						got = "error: " + err.Error()
					}
				} else {
					got = strings.Trim(res.Inspect(), "\"")
				}
			} else {
				m, err := imp.Import(ctx, name)
				if err != nil {
					got = "none"
					if !strings.Contains(err.Error(), "not found") {
						got = "error: " + err.Error()
					}
				} else {
					got = "?"
					if code := m.Code(); code != nil {
						// the module's source names its file
						for _, f := range shownFiles {
							if strings.Contains(code.Source(), strconv.Quote(f)) {
								got = f
							}
						}
					}
				}
			}
			cancel()
			time.Sleep(50 * time.Microsecond)
			sfs.mu.Lock()
			sort.Strings(opens)
			openedSet := strings.Join(opens, " ")
			sfs.mu.Unlock()
			seen[got] = true
			if reported {
				continue
			}
			if got != wantFile {
				reported = true
				e.R.Mismatch(caseKey, "module read from "+got, "module read from "+wantFile+" (the first extension of the list whose file exists)", "which candidate file an import reads, against pickExtension")
			} else {
				wo := append([]string{}, wantOpens...)
				sort.Strings(wo)
				if openedSet != strings.Join(wo, " ") {
					reported = true
					e.R.Mismatch(caseKey, "files probed: "+openedSet, "files probed: "+strings.Join(wo, " "), "the candidates an import probes (in list order, up to the first that exists)")
				}
			}
		}
		if len(seen) > 1 {
			e.R.Spec(caseKey, fmt.Sprintf("%d imports of the same name over the same files (only the latency of the filesystem differs) read %d different files: %s", reps, len(seen), strings.Join(sortedKeys(seen), " | ")), "")
		}
	}
}
