package main

// C09 — evaluations on separate VMs are safe to run concurrently.
//
// The parent (this binary) generates schedules = (program set, GOMAXPROCS, seed) from e.Rng,
// computes every program's result ALONE (sequentially, in-process), asks the Lean oracle what
// the Impl VM model says for the model-covered programs, and then runs the same program set
// CONCURRENTLY in a child process that is a `-race` build of this same harness (built here,
// because the driver builds only the plain binary).  From the child it gets every
// evaluation's result and the race detector's reports (GORACE log_path).  A report is mapped
// to the inventory (oracle `table`) through the function names on its two stacks and judged
// by the oracle (`pair`): "ordered" = the model says these two cannot race → Mismatch;
// "racy <finding>" = known finding (only if the unlocked side really is the recorded one);
// anything else = Spec violation.  A concurrent result that differs from the sequential one is
// a Spec violation.  A first-use path is exercised once per process, hence one child per
// schedule.
//
// "hold" schedules (c09HoldOps / c09RunHold) look at values an evaluation KEEPS while the others
// run: every evaluation has its own payload, produces values from it, parks at a barrier (or
// yields / sleeps / goes on), and then observes what it holds.  A result that aliases pooled or
// scratch storage shared between evaluations comes back as another evaluation's payload.  A
// failing schedule is re-run in its smallest form (2 evaluations, the one operation, one round,
// barrier, one P) and that is reported first.

import (
	"bytes"
	"context"
	"encoding/json"
	"fmt"
	"os"
	"os/exec"
	"path/filepath"
	"regexp"
	"runtime"
	"sort"
	"strconv"
	"strings"
	"sync"
	"time"

	"github.com/risor-io/risor"
	"github.com/risor-io/risor/compiler"
	"github.com/risor-io/risor/importer"
	"github.com/risor-io/risor/object"
	"github.com/risor-io/risor/parser"
	"github.com/risor-io/risor/vm"
)

// set to false to drop the scenario behind the (borderline) finding C09-clone-during-rerun
const c09CloneRerunScenario = true

func init() {
	commands["C09"] = c09_runC09
	childCommands["C09-child"] = c09Child
}

// ---------------------------------------------------------------------------------------
// Go values handed to the scripts.  Each M<k> has a parameter type no other method has, so
// its converter is created on first use (typeConverters / GoType.converter / goTypeRegistry).

type c09Point struct{ X, Y int }

type c09Svc struct{ id int }

func c09fin(sum uint64, ty int) int { return int(sum%1000) + ty + 1 }

func (s *c09Svc) M0(x []int) int {
	var t uint64
	for _, v := range x {
		t += uint64(v)
	}
	return c09fin(t, 0)
}
func (s *c09Svc) M1(x []int64) int {
	var t uint64
	for _, v := range x {
		t += uint64(v)
	}
	return c09fin(t, 1)
}
func (s *c09Svc) M2(x []int32) int {
	var t uint64
	for _, v := range x {
		t += uint64(v)
	}
	return c09fin(t, 2)
}
func (s *c09Svc) M3(x []uint32) int {
	var t uint64
	for _, v := range x {
		t += uint64(v)
	}
	return c09fin(t, 3)
}
func (s *c09Svc) M4(x []uint64) int {
	var t uint64
	for _, v := range x {
		t += v
	}
	return c09fin(t, 4)
}
func (s *c09Svc) M5(x []uint) int {
	var t uint64
	for _, v := range x {
		t += uint64(v)
	}
	return c09fin(t, 5)
}
func (s *c09Svc) M6(x [][]int64) int {
	var t uint64
	for _, r := range x {
		for _, v := range r {
			t += uint64(v)
		}
	}
	return c09fin(t, 6)
}
func (s *c09Svc) M7(x [][]int32) int {
	var t uint64
	for _, r := range x {
		for _, v := range r {
			t += uint64(v)
		}
	}
	return c09fin(t, 7)
}
func (s *c09Svc) M8(x map[string]int32) int {
	var t uint64
	for _, v := range x {
		t += uint64(v)
	}
	return c09fin(t, 8)
}
func (s *c09Svc) M9(x map[string]int64) int {
	var t uint64
	for _, v := range x {
		t += uint64(v)
	}
	return c09fin(t, 9)
}
func (s *c09Svc) M10(x map[string][]uint64) int {
	var t uint64
	for _, r := range x {
		for _, v := range r {
			t += v
		}
	}
	return c09fin(t, 10)
}
func (s *c09Svc) M11(x map[string][]int) int {
	var t uint64
	for _, r := range x {
		for _, v := range r {
			t += uint64(v)
		}
	}
	return c09fin(t, 11)
}
func (s *c09Svc) M12(x [1]int64) int  { return c09fin(uint64(x[0]), 12) }
func (s *c09Svc) M13(x [1]uint32) int { return c09fin(uint64(x[0]), 13) }

// not covered by the Lean VM model (results compared with the sequential run only)
func (s *c09Svc) R0() []int16              { return []int16{1, 2, 3} }
func (s *c09Svc) R1() map[string]float32   { return map[string]float32{"a": 1.5} }
func (s *c09Svc) R2() [][]uint8            { return [][]uint8{{1, 2}, {3}} }
func (s *c09Svc) P(p c09Point) int         { return p.X + p.Y }
func (s *c09Svc) Q() c09Point              { return c09Point{3, 4} }
func (s *c09Svc) S(x []c09Point) int       { return len(x) }
func (s *c09Svc) T(x map[string]*int8) int { return len(x) }

const c09NTypes = 14

func c09ConvArg(ty int, e string) string {
	switch {
	case ty == 6 || ty == 7:
		return "[[" + e + "]]"
	case ty == 8 || ty == 9:
		return `{"a": ` + e + `}`
	case ty == 10 || ty == 11:
		return `{"a": [` + e + `]}`
	default:
		return "[" + e + "]"
	}
}

// ---------------------------------------------------------------------------------------
// model-covered programs (RisorModel/C09/Model.lean: Expr/Stmt)

type c09Expr struct {
	k    byte // L G A C I
	n    int
	a, b *c09Expr
}

func c09GenExpr(r *RNG, depth, ng int) *c09Expr {
	p := r.Intn(100)
	if depth <= 0 && p >= 55 {
		p = r.Intn(55)
	}
	switch {
	case p < 25:
		return &c09Expr{k: 'L', n: r.Intn(400)}
	case p < 50:
		return &c09Expr{k: 'G', n: r.Intn(ng)}
	case p < 55:
		return &c09Expr{k: 'I', n: r.Intn(4)}
	case p < 75:
		return &c09Expr{k: 'A', a: c09GenExpr(r, depth-1, ng), b: c09GenExpr(r, depth-1, ng)}
	default:
		return &c09Expr{k: 'C', n: r.Intn(c09NTypes), a: c09GenExpr(r, depth-1, ng)}
	}
}

func (x *c09Expr) tokens() string {
	switch x.k {
	case 'A':
		return "A " + x.a.tokens() + " " + x.b.tokens()
	case 'C':
		return "C" + strconv.Itoa(x.n) + " " + x.a.tokens()
	}
	return string(x.k) + strconv.Itoa(x.n)
}

func (x *c09Expr) risor(imports map[int]bool) string {
	switch x.k {
	case 'L':
		return strconv.Itoa(x.n)
	case 'G':
		return "g" + strconv.Itoa(x.n)
	case 'I':
		imports[x.n] = true
		return "m" + strconv.Itoa(x.n) + ".value"
	case 'A':
		return "(" + x.a.risor(imports) + " + " + x.b.risor(imports) + ")"
	default:
		return "svc.M" + strconv.Itoa(x.n) + "(" + c09ConvArg(x.n, x.a.risor(imports)) + ")"
	}
}

type c09Prog struct {
	ng     int
	tgt    []int
	rhs    []*c09Expr
	tokens string
	src    string
}

func c09GenProg(r *RNG) *c09Prog {
	p := &c09Prog{ng: 2 + r.Intn(3)}
	n := 3 + r.Intn(8)
	var toks, lines []string
	for i := 0; i < p.ng; i++ {
		lines = append(lines, fmt.Sprintf("g%d := 0", i))
	}
	for i := 0; i < n; i++ {
		t := r.Intn(p.ng)
		e := c09GenExpr(r, 3, p.ng)
		p.tgt = append(p.tgt, t)
		p.rhs = append(p.rhs, e)
		toks = append(toks, strconv.Itoa(t)+"="+e.tokens())
		imps := map[int]bool{}
		rs := e.risor(imps)
		var ks []int
		for k := range imps {
			ks = append(ks, k)
		}
		sort.Ints(ks)
		for _, k := range ks {
			lines = append(lines, fmt.Sprintf("import m%d", k))
		}
		lines = append(lines, fmt.Sprintf("g%d = %s", t, rs))
	}
	var gs []string
	for i := 0; i < p.ng; i++ {
		gs = append(gs, fmt.Sprintf("g%d", i))
	}
	lines = append(lines, "["+strings.Join(gs, ", ")+"]")
	p.tokens = strings.Join(toks, ";")
	p.src = strings.Join(lines, "\n")
	return p
}

// programs touching the other pieces of package-level state; only compared with their
// sequential result
var c09Snippets = []struct{ tag, src string }{
	{"conv-result", `svc.R0()`},
	{"conv-result", `svc.R1()`},
	{"conv-result", `svc.R2()`},
	{"struct-param", `svc.P({"X": 3, "Y": 4})`},
	{"struct-result", `svc.Q().X`},
	{"struct-slice", `svc.S([])`},
	{"ptr-map", `svc.T({})`},
	{"conv", `svc.M0([1, 2]) + svc.M6([[3]]) + svc.M10({"a": [4]})`},
	{"conv", `svc.M3([7]) + svc.M12([9]) + svc.M8({"k": 2})`},
	{"codec", `encode("hello", "base64")`},
	{"codec", `string(decode("aGVsbG8=", "base64"))`},
	{"codec", `encode("hi", "hex") + encode("a b", "urlquery")`},
	{"codec", `encode([1, 2, {"a": 3}], "json")`},
	{"codec", `string(decode(encode("abc", "gzip"), "gzip"))`},
	{"codec", `decode("a,b\nc,d", "csv")`},
	{"codec-miss", `try(func() { encode("x", "nope") }, "no-codec")`},
	{"intcache", `[1 + 2, 255 + 1, 100 * 2, len("abc"), 7 % 4]`},
	{"intcache", `[1, 2, 3, 300].map(func(x) { return x * 2 })`},
	{"bytecache", `[byte(7), byte(200) + byte(1), bytes("ab")[0]]`},
	{"bool-nil", `[1 == 1, nil == nil, !true, [1] == [1], "a" in "abc"]`},
	{"typeerror", `try(func() { return 1 + "a" }, "type-error")`},
	{"typeerror", `try(func() { return svc.M0("x") }, "conv-error")`},
	{"os-args", `len(os.args()) >= 0`},
	{"import", "import m1\nimport m2\nm1.value + m2.value"},
	{"import", "import m3\nm3.twice(21)"},
	{"closure", `func mk(n) { return func(x) { return x + n } }; [mk(1)(2), mk(10)(20)]`},
	{"loop", `s := 0; for i := 0; i < 300; i++ { s += i }; s`},
	{"strings", `strings.to_upper("abc") + strconv.itoa(42)`},
	{"math", `[math.abs(-3), math.max(2, 9)]`},
	{"json", `json.unmarshal("{\"a\": [1, 2]}")`},
	{"fmt", `sprintf("%d-%s", 7, "x")`},
}

// ---------------------------------------------------------------------------------------
// the job a child process runs

type c09Job struct {
	Kind    string     `json:"kind"` // evals | clones | clone-rerun
	Srcs    []string   `json:"srcs"` // one per evaluation (evals); Srcs[0] defines functions (clones)
	Share   bool       `json:"share"`
	ModDir  string     `json:"mod_dir"`
	Procs   int        `json:"procs"`
	Threads int        `json:"threads"`
	Calls   []int      `json:"calls"`          // clones: argument of each concurrent call
	Sync    string     `json:"sync"`           // hold: barrier | yield | sleep | none (what hold_sync() does in the concurrent run)
	PayLen  int        `json:"pay_len"`        // hold: length of every evaluation's own payload
	Plain   bool       `json:"plain"`          // run the child without the race detector (undisturbed scheduling and sync.Pool behaviour)
	Reqs    [][]c09Req `json:"reqs,omitempty"` // serve: per worker, the requests it issues back to back (c09srv.go)
	Only    int        `json:"only,omitempty"` // registry: k+1 = run evaluation k only, alone in this process; 0 = all
	Seq     bool       `json:"seq,omitempty"`  // registry: run the evaluations one after the other in this process
	Groups  []c09CtxGroup `json:"groups,omitempty"` // ctxshare: groups of evaluations under one context each (c09wide.go)
	Cfgs    []c09CfgEval  `json:"cfgs,omitempty"`   // config: the risor options of every evaluation (c09wide.go)
}

type c09Out struct {
	Results []string `json:"results"`
}

func c09Show(obj object.Object, err error) string {
	if err != nil {
		return "error: " + err.Error()
	}
	if obj == nil {
		return "<nil>"
	}
	return string(obj.Type()) + ":" + obj.Inspect()
}

func c09Options(imp importer.Importer, id int) []risor.Option {
	opts := []risor.Option{risor.WithGlobal("svc", &c09Svc{id: id})}
	if imp != nil {
		opts = append(opts, risor.WithImporter(imp))
	}
	return opts
}

func c09Compile(src string, opts []risor.Option) (*compiler.Code, error) {
	cfg := risor.NewConfig(opts...)
	ast, err := parser.Parse(context.Background(), src)
	if err != nil {
		return nil, err
	}
	return compiler.Compile(ast, cfg.CompilerOpts()...)
}

func c09Importer(dir string, opts []risor.Option) importer.Importer {
	cfg := risor.NewConfig(opts...)
	return importer.NewLocalImporter(importer.LocalImporterOptions{SourceDir: dir, GlobalNames: cfg.GlobalNames(), Extensions: []string{".risor"}})
}

// c09RunEvals runs the job's evaluations; concurrently when conc is set, else one by one.
func c09RunEvals(job *c09Job, conc bool) []string {
	ctx := context.Background()
	n := len(job.Srcs)
	res := make([]string, n)
	base := []risor.Option{risor.WithGlobal("svc", &c09Svc{})}
	var imp importer.Importer
	if job.ModDir != "" {
		imp = c09Importer(job.ModDir, base) // one importer shared by all evaluations
	}
	var shared *compiler.Code
	var sharedErr error
	if job.Share {
		shared, sharedErr = c09Compile(job.Srcs[0], base)
	}
	one := func(i int) {
		defer func() {
			if r := recover(); r != nil {
				res[i] = fmt.Sprintf("panic: %v", r)
			}
		}()
		opts := c09Options(imp, i) // every evaluation has its own globals
		if job.Share {
			if sharedErr != nil {
				res[i] = "error: " + sharedErr.Error()
				return
			}
			res[i] = c09Show(risor.EvalCode(ctx, shared, opts...))
			return
		}
		res[i] = c09Show(risor.Eval(ctx, job.Srcs[i], opts...))
	}
	if !conc {
		for i := 0; i < n; i++ {
			one(i)
		}
		return res
	}
	var wg sync.WaitGroup
	start := make(chan struct{})
	for i := 0; i < n; i++ {
		wg.Add(1)
		go func(i int) {
			defer wg.Done()
			<-start
			one(i)
		}(i)
	}
	close(start)
	wg.Wait()
	return res
}

// c09RunClones: one VM runs Srcs[0] (which defines `f`), then clones of it call f(k).
func c09RunClones(job *c09Job, conc bool) []string {
	ctx := context.Background()
	res := make([]string, len(job.Calls))
	opts := c09Options(nil, 0)
	code, err := c09Compile(job.Srcs[0], opts)
	if err != nil {
		for i := range res {
			res[i] = "error: " + err.Error()
		}
		return res
	}
	cfg := risor.NewConfig(opts...)
	machine := vm.New(code, cfg.VMOpts()...)
	if err := machine.Run(ctx); err != nil {
		for i := range res {
			res[i] = "error: " + err.Error()
		}
		return res
	}
	fobj, err := machine.Get("f")
	fn, _ := fobj.(*object.Function)
	one := func(i int) {
		defer func() {
			if r := recover(); r != nil {
				res[i] = fmt.Sprintf("panic: %v", r)
			}
		}()
		if fn == nil {
			res[i] = fmt.Sprintf("error: no function f (%v)", err)
			return
		}
		clone, err := machine.Clone()
		if err != nil {
			res[i] = "error: " + err.Error()
			return
		}
		res[i] = c09Show(clone.Call(ctx, fn, []object.Object{object.NewInt(int64(job.Calls[i]))}))
	}
	if !conc {
		for i := range res {
			one(i)
		}
		return res
	}
	var wg sync.WaitGroup
	start := make(chan struct{})
	for i := range res {
		wg.Add(1)
		go func(i int) { defer wg.Done(); <-start; one(i) }(i)
	}
	close(start)
	wg.Wait()
	return res
}

// c09RunCloneRerun: goroutine A re-runs code on one VM (RunCode twice or more → resetForNewCode),
// goroutines B clone that VM meanwhile and call f on the clone.
func c09RunCloneRerun(job *c09Job, conc bool) []string {
	ctx := context.Background()
	opts := c09Options(nil, 0)
	res := make([]string, len(job.Calls)+1)
	c1, err1 := c09Compile(job.Srcs[0], opts)
	c2, err2 := c09Compile(job.Srcs[1], opts)
	if err1 != nil || err2 != nil {
		for i := range res {
			res[i] = fmt.Sprintf("error: %v %v", err1, err2)
		}
		return res
	}
	cfg := risor.NewConfig(opts...)
	machine := vm.New(c1, cfg.VMOpts()...)
	if err := machine.Run(ctx); err != nil {
		res[0] = "error: " + err.Error()
		return res
	}
	fobj, _ := machine.Get("f")
	fn, _ := fobj.(*object.Function)
	rerun := func() {
		var last string
		for k := 0; k < 30; k++ {
			code := c2
			if k%2 == 1 {
				code = c1
			}
			last = c09Show(vm.RunCodeOnVM(ctx, machine, code))
		}
		res[0] = last
	}
	call := func(i int) {
		defer func() {
			if r := recover(); r != nil {
				res[i+1] = fmt.Sprintf("panic: %v", r)
			}
		}()
		var out string
		for k := 0; k < 30; k++ {
			clone, err := machine.Clone()
			if err != nil {
				out = "error: " + err.Error()
				break
			}
			out = c09Show(clone.Call(ctx, fn, []object.Object{object.NewInt(int64(job.Calls[i]))}))
		}
		res[i+1] = out
	}
	if !conc {
		rerun()
		for i := range job.Calls {
			call(i)
		}
		return res
	}
	var wg sync.WaitGroup
	start := make(chan struct{})
	wg.Add(1)
	go func() { defer wg.Done(); <-start; rerun() }()
	for i := range job.Calls {
		wg.Add(1)
		go func(i int) { defer wg.Done(); <-start; call(i) }(i)
	}
	close(start)
	wg.Wait()
	return res
}

// ---------------------------------------------------------------------------------------
// "hold" schedules: results of earlier operations must not change when other evaluations run.
//
// Every evaluation k has its OWN payload (global `payload`, same length for all, different
// content), produces values from it with a set of builtins/module functions, keeps them in
// variables, lets the other evaluations run (hold_sync(): an all-arrived barrier, a yield, a
// short sleep or nothing), and only then observes what it holds – twice, with another
// hold_sync() in between.  Alone, hold_sync() does nothing.  A result that aliases storage
// shared between evaluations (a package-level pool / scratch buffer / cache handed out without
// copying) shows up as another evaluation's payload, a decode error, or a race report outside
// the inventory.

var c09HoldOps = []struct{ tag, prod, obs string }{
	{"gzip", `encode($P, "gzip")`, `string(decode($H, "gzip"))`},
	{"gzip-raw", `encode($P, "gzip")`, `$H`},
	{"gunzip", `decode(encode($P, "gzip"), "gzip")`, `string($H)`},
	{"base64", `encode($P, "base64")`, `string(decode($H, "base64"))`},
	{"unbase64", `decode(encode($P, "base64"), "base64")`, `string($H)`},
	{"base32", `encode($P, "base32")`, `string(decode($H, "base32"))`},
	{"hex", `encode($P, "hex")`, `string(decode($H, "hex"))`},
	{"unhex", `decode(encode($P, "hex"), "hex")`, `string($H)`},
	{"json", `encode([$P, pid], "json")`, `decode($H, "json")`},
	{"urlquery", `encode($P, "urlquery")`, `decode($H, "urlquery")`},
	{"csv", `encode([[$P, "x"], ["y", $P]], "csv")`, `decode($H, "csv")`},
	{"byte_slice", `byte_slice($P)`, `string($H)`},
	{"buffer", `buffer($P)`, `string($H)`},
	{"bytes-list", `list(byte_slice($P))`, `$H`},
	{"float_slice", `float_slice([pid, len($P), r])`, `$H`},
	{"sprintf", `sprintf("%s/%d", $P, pid)`, `$H`},
	{"fmt.sprintf", `fmt.sprintf("%v|%v", $P, [pid])`, `$H`},
	{"to_upper", `strings.to_upper($P)`, `$H`},
	{"repeat", `strings.repeat($P, 2)`, `$H`},
	{"split", `strings.split($P, ":")`, `$H`},
	{"fields", `strings.fields(strings.replace_all($P, ":", " "))`, `$H`},
	{"trim", `strings.trim_space("  " + $P + " ")`, `$H`},
	{"concat", `$P[1:5] + $P`, `$H`},
	{"json.marshal", `json.marshal({"p": $P, "k": pid})`, `json.unmarshal($H)`},
	{"chars", `$P.split("")`, `"".join($H)`},
	{"sorted", `sorted($P.split(""))`, `$H`},
	{"reversed", `reversed($P.split(""))`, `$H`},
	{"chunk", `chunk($P.split(""), 3)`, `$H`},
	{"list.map", `[$P, pid].map(func(x) { return string(x) })`, `$H`},
	{"map", `{"p": $P, "k": pid}`, `[$H["p"], $H["k"]]`},
	{"set", `set($P.split(""))`, `len($H)`},
	{"sha256", `hash($P, "sha256")`, `encode($H, "hex")`},
	{"md5", `hash($P, "md5")`, `encode($H, "hex")`},
	{"base64.encode", `base64.encode($P)`, `string(base64.decode($H))`},
	{"bytes.repeat", `bytes.repeat(byte_slice($P), 2)`, `string($H)`},
	{"regexp", `regexp.compile("[a-z]+").find_all($P)`, `$H`},
	{"filepath.join", `filepath.join($P, "a", "b")`, `$H`},
	{"error-value", `try(func() { error($P) }, func(e) { return e })`, `string($H)`},
	{"closure", `func() { v := $P + "!"; return func() { return v } }()`, `$H()`},
}

func c09HoldTag(tag string) int {
	for i, o := range c09HoldOps {
		if o.tag == tag {
			return i
		}
	}
	return -1
}

// the program every evaluation of a hold schedule runs
func c09HoldSrc(ops []int, rounds int) string {
	var b strings.Builder
	fmt.Fprintf(&b, "out := []\nfor r := 0; r < %d; r++ {\n\tp := sprintf(\"%%s#%%d\", payload, r)\n", rounds)
	for i, o := range ops {
		fmt.Fprintf(&b, "\th%d := %s\n", i, strings.ReplaceAll(c09HoldOps[o].prod, "$P", "p"))
	}
	b.WriteString("\thold_sync()\n")
	for i, o := range ops {
		fmt.Fprintf(&b, "\ta%d := %s\n", i, strings.ReplaceAll(c09HoldOps[o].obs, "$H", fmt.Sprintf("h%d", i)))
	}
	b.WriteString("\thold_sync()\n")
	for i, o := range ops {
		fmt.Fprintf(&b, "\tout.append([%q, a%d, %s])\n", "<"+c09HoldOps[o].tag+">", i, strings.ReplaceAll(c09HoldOps[o].obs, "$H", fmt.Sprintf("h%d", i)))
	}
	b.WriteString("}\nout")
	return b.String()
}

func c09HoldPayload(k, n int) string {
	if n < 1 {
		n = 1
	}
	return fmt.Sprintf("ev%02d:", k) + strings.Repeat(string(rune('a'+k%26)), n)
}

type c09HoldSpec struct {
	n, procs, rounds, payLen int
	ops                      []int
	sync                     string
	share, plain             bool
}

func (h c09HoldSpec) job() (*c09Job, string) {
	var tags []string
	for _, o := range h.ops {
		tags = append(tags, c09HoldOps[o].tag)
	}
	job := &c09Job{Kind: "hold", Srcs: []string{c09HoldSrc(h.ops, h.rounds)}, Share: h.share, Procs: h.procs, Threads: h.n, Sync: h.sync, PayLen: h.payLen, Plain: h.plain}
	key := fmt.Sprintf("hold n=%d procs=%d sync=%s rounds=%d paylen=%d share=%v race-detector=%v ops=%s: every evaluation k runs, with its own global payload=\"ev<k>:\"+%d x letter k: %s",
		h.n, h.procs, h.sync, h.rounds, h.payLen, h.share, !h.plain, strings.Join(tags, ","), h.payLen, strings.ReplaceAll(job.Srcs[0], "\n", " ; "))
	return job, key
}

// reusable all-arrived barrier; an evaluation that ends (normally or not) leaves it
type c09Barrier struct {
	mu      sync.Mutex
	cond    *sync.Cond
	n, wait int
	gen     int
}

func c09NewBarrier(n int) *c09Barrier {
	b := &c09Barrier{n: n}
	b.cond = sync.NewCond(&b.mu)
	return b
}

func (b *c09Barrier) arrive() {
	b.mu.Lock()
	defer b.mu.Unlock()
	g := b.gen
	b.wait++
	if b.wait >= b.n {
		b.gen++
		b.wait = 0
		b.cond.Broadcast()
		return
	}
	for g == b.gen {
		b.cond.Wait()
	}
}

func (b *c09Barrier) leave() {
	b.mu.Lock()
	defer b.mu.Unlock()
	b.n--
	if b.n > 0 && b.wait >= b.n {
		b.gen++
		b.wait = 0
		b.cond.Broadcast()
	}
}

func c09RunHold(job *c09Job, conc bool) []string {
	ctx := context.Background()
	n := job.Threads
	res := make([]string, n)
	bar := c09NewBarrier(n)
	syncFn := func() {}
	if conc {
		switch job.Sync {
		case "barrier":
			syncFn = bar.arrive
		case "yield":
			syncFn = func() {
				for i := 0; i < 3; i++ {
					runtime.Gosched()
				}
			}
		case "sleep":
			syncFn = func() { time.Sleep(200 * time.Microsecond) } // a scheduling perturbation, never a verdict
		}
	}
	options := func(k int) []risor.Option {
		if job.Kind == "config" { // own configuration options: in-place edits of the modules its Config holds
			return c09CfgOptions(job.Cfgs[k], k, syncFn)
		}
		if job.Kind == "registry" { // own Go object behind a proxy; the Go TYPE (and its registry entry) is shared
			return append(c09RegGlobals(k),
				risor.WithGlobal("pid", k),
				risor.WithGlobal("hold_sync", object.NewBuiltin("hold_sync", func(ctx context.Context, args ...object.Object) object.Object {
					syncFn()
					return object.Nil
				})))
		}
		return []risor.Option{
			risor.WithGlobal("payload", c09HoldPayload(k, job.PayLen)),
			risor.WithGlobal("pid", k),
			risor.WithGlobal("hold_sync", object.NewBuiltin("hold_sync", func(ctx context.Context, args ...object.Object) object.Object {
				syncFn()
				return object.Nil
			})),
		}
	}
	var shared *compiler.Code
	var sharedErr error
	if job.Share {
		shared, sharedErr = c09Compile(job.Srcs[0], options(0))
	}
	one := func(k int) {
		defer bar.leave()
		defer func() {
			if r := recover(); r != nil {
				res[k] = fmt.Sprintf("panic: %v", r)
			}
		}()
		opts := options(k) // own globals
		if job.Kind == "config" {
			res[k] = c09CfgRun(ctx, job.Cfgs[k].API, job.Srcs[0], opts)
			return
		}
		if job.Share {
			if sharedErr != nil {
				res[k] = "error: " + sharedErr.Error()
				return
			}
			res[k] = c09Show(risor.EvalCode(ctx, shared, opts...))
			return
		}
		res[k] = c09Show(risor.Eval(ctx, job.Srcs[0], opts...))
	}
	if job.Only > 0 {
		if job.Only <= n {
			one(job.Only - 1)
		}
		return res
	}
	if !conc {
		for k := 0; k < n; k++ {
			one(k)
		}
		return res
	}
	var wg sync.WaitGroup
	start := make(chan struct{})
	for k := 0; k < n; k++ {
		wg.Add(1)
		go func(k int) { defer wg.Done(); <-start; one(k) }(k)
	}
	close(start)
	wg.Wait()
	return res
}

// c09HoldDiffTags: the operations (tags of c09HoldOps) whose observed values differ
func c09HoldDiffTags(conc, alone string) []string {
	var tags []string
	seen := map[string]bool{}
	add := func(s string, i int) {
		if i > len(s) {
			i = len(s)
		}
		j := strings.LastIndex(s[:i], `"<`)
		if j < 0 {
			return
		}
		e := strings.Index(s[j:], `>"`)
		if e < 0 {
			return
		}
		t := s[j+2 : j+e]
		if !seen[t] && (c09HoldTag(t) >= 0 || c09RegTag(t) >= 0) {
			seen[t] = true
			tags = append(tags, t)
		}
	}
	// walk the two texts entry by entry ("<tag>" starts an entry)
	ca, aa := strings.Split(conc, `["<`), strings.Split(alone, `["<`)
	for i := 1; i < len(ca) && i < len(aa); i++ {
		if ca[i] != aa[i] {
			add(`"<`+aa[i], 3)
		}
	}
	if len(tags) == 0 {
		i := 0
		for i < len(conc) && i < len(alone) && conc[i] == alone[i] {
			i++
		}
		add(alone, i)
	}
	return tags
}

func c09RunJob(job *c09Job, conc bool) []string {
	switch job.Kind {
	case "clones":
		return c09RunClones(job, conc)
	case "clone-rerun":
		return c09RunCloneRerun(job, conc)
	case "hold", "registry", "config":
		return c09RunHold(job, conc)
	case "ctxshare":
		return c09RunCtxShare(job, conc)
	case "serve":
		return c09RunServe(job, conc)
	}
	return c09RunEvals(job, conc)
}

// child: harness C09-child <job.json>   → JSON c09Out on stdout
func c09Child(args []string) {
	if len(args) < 1 {
		os.Exit(2)
	}
	b, err := os.ReadFile(args[0])
	if err != nil {
		fmt.Fprintln(os.Stderr, err)
		os.Exit(2)
	}
	var job c09Job
	if err := json.Unmarshal(b, &job); err != nil {
		fmt.Fprintln(os.Stderr, err)
		os.Exit(2)
	}
	if job.Procs > 0 {
		runtime.GOMAXPROCS(job.Procs)
	}
	out := c09Out{Results: c09RunJob(&job, !job.Seq && job.Only == 0)}
	json.NewEncoder(os.Stdout).Encode(out)
}

// ---------------------------------------------------------------------------------------
// race reports

type c09Stack struct {
	write  bool
	frames []string // table-style names, innermost first (runtime frames dropped)
	raw    []string
}

type c09Race struct{ a, b c09Stack }

var c09FuncSuffix = regexp.MustCompile(`(\.func\d+|\.gowrap\d+|\.\d+)+$`)

func c09TableName(sym string) string {
	sym = strings.TrimSuffix(strings.TrimSpace(sym), "()")
	const mod = "github.com/risor-io/risor/"
	if !strings.HasPrefix(sym, mod) {
		if strings.HasPrefix(sym, "main.") {
			return sym
		}
		return "" // runtime / stdlib
	}
	sym = strings.TrimPrefix(sym, mod)
	sym = strings.ReplaceAll(strings.ReplaceAll(sym, "(*", ""), ")", "")
	sym = c09FuncSuffix.ReplaceAllString(sym, "")
	return sym
}

func c09ParseRaces(text string) []c09Race {
	var out []c09Race
	for _, block := range strings.Split(text, "==================") {
		if !strings.Contains(block, "WARNING: DATA RACE") {
			continue
		}
		var stacks []c09Stack
		var cur *c09Stack
		for _, line := range strings.Split(block, "\n") {
			t := strings.TrimSpace(line)
			low := strings.ToLower(t)
			if (strings.HasPrefix(low, "write at") || strings.HasPrefix(low, "read at") || strings.HasPrefix(low, "previous write at") ||
				strings.HasPrefix(low, "previous read at") || strings.HasPrefix(low, "atomic") || strings.HasPrefix(low, "previous atomic")) && strings.Contains(t, " by ") {
				stacks = append(stacks, c09Stack{write: strings.Contains(low, "write")})
				cur = &stacks[len(stacks)-1]
				continue
			}
			if strings.HasPrefix(t, "Goroutine ") || t == "" {
				cur = nil
				continue
			}
			if cur != nil && strings.HasPrefix(line, "  ") && !strings.HasPrefix(line, "      ") {
				cur.raw = append(cur.raw, t)
				if n := c09TableName(t); n != "" {
					cur.frames = append(cur.frames, n)
				}
			}
		}
		if len(stacks) >= 2 {
			out = append(out, c09Race{stacks[0], stacks[1]})
		}
	}
	return out
}

type c09Site struct {
	loc, fn string
	write   bool
}

type c09Table struct {
	byFn map[string][]c09Site
	locs map[string]bool
}

func c09LoadTable(e *Env) *c09Table {
	t := &c09Table{byFn: map[string][]c09Site{}, locs: map[string]bool{}}
	for _, row := range strings.Split(e.O.Ask("C09", "table"), ";") {
		f := strings.Split(row, "|")
		if len(f) < 6 {
			continue
		}
		s := c09Site{loc: f[0], fn: f[1], write: f[2] == "1"}
		t.byFn[s.fn] = append(t.byFn[s.fn], s)
		t.locs[s.loc] = true
	}
	return t
}

func c09Has(frames []string, names ...string) bool {
	for _, f := range frames {
		for _, n := range names {
			if f == n {
				return true
			}
		}
	}
	return false
}

// c09Judge maps one race report to the inventory and records the verdict.
func c09Judge(e *Env, tab *c09Table, caseKey string, rc c09Race) {
	inner := func(s c09Stack) string {
		for _, f := range s.frames {
			if !strings.HasPrefix(f, "main.") {
				return f
			}
		}
		return ""
	}
	fa, fb := inner(rc.a), inner(rc.b)
	desc := fmt.Sprintf("race %s(%s) / %s(%s)", fa, c09_rw(rc.a.write), fb, c09_rw(rc.b.write))
	if fa == "" && fb == "" {
		// both sides in the harness itself: a harness bug, not risor's
		e.R.Mismatch(caseKey, desc+" "+strings.Join(rc.a.raw, " < "), "-", "race between harness frames only")
		return
	}
	// candidate locations: rows of fa and fb on a common location
	var loc string
	var wa, wb bool
	for _, sa := range tab.byFn[fa] {
		for _, sb := range tab.byFn[fb] {
			if sa.loc == sb.loc && (sa.write || sb.write) && (sa.write == rc.a.write || !rc.a.write) && (sb.write == rc.b.write || !rc.b.write) {
				if loc == "" || sa.loc < loc {
					loc, wa, wb = sa.loc, sa.write, sb.write
				}
			}
		}
	}
	e.R.H("race_reports", desc)
	if loc == "" {
		// Races on heap objects that were PUBLISHED through a known racy location are the same
		// defect seen one step later: a converter object built under the unlocked GetConverter path
		// (new*Converter) and used by another evaluation (*Converter.To/From), or the globals map
		// installed by applyOptions and read through a concurrent Clone.
		takers := []string{"object.NewTypeConverter", "object.NewGoType", "object.SetTypeConverter"}
		isCtor := func(f string) bool {
			return strings.HasPrefix(f, "object.new") && strings.HasSuffix(f, "Converter")
		}
		isUse := func(f string) bool {
			return strings.HasPrefix(f, "object.") && (strings.HasSuffix(f, "Converter.To") || strings.HasSuffix(f, "Converter.From"))
		}
		viaGet := func(s c09Stack) bool {
			return c09Has(s.frames, "object.GoType.GetConverter") && !c09Has(s.frames, takers...)
		}
		if (isCtor(fa) && rc.a.write && viaGet(rc.a) && isUse(fb)) || (isCtor(fb) && rc.b.write && viaGet(rc.b) && isUse(fa)) {
			e.R.H("race_location", "(converter object published through typeConverters/GoType.converter)")
			e.R.Spec(caseKey, desc+": converter object published without synchronisation through the unlocked GetConverter path", "C09-getconverter-unlocked")
			return
		}
		rerun := []string{"vm.VirtualMachine.resetForNewCode", "vm.VirtualMachine.reloadCode", "vm.VirtualMachine.applyOptions"}
		// the compiler may inline Clone into the harness closure that calls it: the race report then
		// shows the map iteration directly under main.c09RunCloneRerun.func… with no risor frame
		isClone := func(s c09Stack) bool {
			if c09Has(s.frames, "vm.VirtualMachine.Clone") {
				return true
			}
			if !strings.HasPrefix(caseKey, "clone-rerun") || inner(s) != "" {
				return false
			}
			for _, f := range s.raw {
				if strings.HasPrefix(f, "main.c09RunCloneRerun") {
					return true
				}
			}
			return false
		}
		if (isClone(rc.a) && c09Has(rc.b.frames, rerun...)) || (isClone(rc.b) && c09Has(rc.a.frames, rerun...)) {
			e.R.H("race_location", "(map published through vm.globals/loadedCode/modules during a re-run)")
			e.R.Spec(caseKey, desc+": object published to a concurrent Clone by a re-run of the VM without cloneMutex", "C09-clone-during-rerun")
			return
		}
		e.R.H("race_location", "(not in inventory)")
		e.R.Spec(caseKey, desc+": a data race between evaluations on state that is not in the inventory; stacks: "+
			strings.Join(rc.a.raw, " < ")+" || "+strings.Join(rc.b.raw, " < "), "")
		return
	}
	e.R.H("race_location", loc)
	verdict := e.O.Ask("C09", "pair", loc, fa, c09_b01(wa), loc, fb, c09_b01(wb))
	switch {
	case verdict == "ordered":
		e.R.Mismatch(caseKey, desc+" on "+loc, "ordered", "the race detector reports a pair the Impl lockset model says is ordered")
		e.R.Spec(caseKey, desc+" on "+loc+" (data race between concurrent evaluations; the lockset model claims a common mutex here)", "")
	case strings.HasPrefix(verdict, "racy\t"):
		finding := strings.TrimPrefix(verdict, "racy\t")
		if finding == "-" {
			finding = ""
		}
		// dynamic part of the guards: the unlocked side must be the recorded one
		switch finding {
		case "C09-getconverter-unlocked":
			takers := []string{"object.NewTypeConverter", "object.NewGoType", "object.SetTypeConverter"}
			la, lb := c09Has(rc.a.frames, takers...), c09Has(rc.b.frames, takers...)
			ga, gb := c09Has(rc.a.frames, "object.GoType.GetConverter"), c09Has(rc.b.frames, "object.GoType.GetConverter")
			ok := !(la && lb) && (la || ga) && (lb || gb)
			if !ok {
				finding = ""
			}
		case "C09-clone-during-rerun":
			rerun := []string{"vm.VirtualMachine.resetForNewCode", "vm.VirtualMachine.reloadCode", "vm.VirtualMachine.applyOptions", "vm.WithGlobals"}
			ok := (fa == "vm.VirtualMachine.Clone" && c09Has([]string{fb}, rerun...)) || (fb == "vm.VirtualMachine.Clone" && c09Has([]string{fa}, rerun...))
			if !ok {
				finding = ""
			}
		}
		e.R.Spec(caseKey, desc+" on "+loc+" (data race between concurrent evaluations)", finding)
	default:
		e.R.Spec(caseKey, desc+" on "+loc+": oracle says "+verdict, "")
	}
}

// c09FatalMapSite: for a child killed by "fatal error: concurrent map ...", the innermost risor
// function of the goroutine that hit the check and the inventoried map it accesses ("" if the
// function is not one of the converter-registry functions).
func c09FatalMapSite(stderr string) (fn, loc string) {
	j := strings.Index(stderr, "fatal error: concurrent map")
	if j < 0 {
		return "", ""
	}
	rest := stderr[j:]
	k := strings.Index(rest, "\ngoroutine ")
	if k < 0 {
		return "", ""
	}
	rest = rest[k+1:]
	if end := strings.Index(rest, "\n\n"); end >= 0 {
		rest = rest[:end] // the first stack: the faulting goroutine
	}
	for _, line := range strings.Split(rest, "\n")[1:] {
		if strings.HasPrefix(line, "\t") || strings.HasPrefix(line, "created by") {
			continue
		}
		if p := strings.LastIndexByte(line, '('); p > 0 {
			line = line[:p] // drop the argument list
		}
		if n := c09TableName(line); n != "" && !strings.HasPrefix(n, "main.") {
			switch n {
			case "object.createTypeConverter", "object.getTypeConverter":
				return n, "object.typeConverters"
			case "object.newGoType":
				return n, "object.goTypeRegistry"
			}
			return "", ""
		}
	}
	return "", ""
}

// c09KnownRacy: the Impl lockset model has an unordered pair between fn's access to loc and the
// unlocked writer of loc, and it falls under C09-getconverter-unlocked.
func c09KnownRacy(e *Env, loc, fn string) bool {
	writer := map[string]string{"object.typeConverters": "object.createTypeConverter", "object.goTypeRegistry": "object.newGoType"}[loc]
	for _, w := range []string{"0", "1"} {
		if e.O.Ask("C09", "pair", loc, fn, w, loc, writer, "1") == "racy\tC09-getconverter-unlocked" {
			return true
		}
	}
	return false
}

func c09_rw(w bool) string {
	if w {
		return "write"
	}
	return "read"
}
func c09_b01(b bool) string {
	if b {
		return "1"
	}
	return "0"
}

// ---------------------------------------------------------------------------------------

type c09Runner struct {
	bin     string
	plain   string // this binary itself (no race detector)
	race    bool
	tmp     string
	n       int
	mu      sync.Mutex
	timeout time.Duration
}

func (r *c09Runner) run(job *c09Job) (results []string, races []c09Race, stderr string, err error) {
	r.mu.Lock()
	r.n++
	id := r.n
	r.mu.Unlock()
	jf := filepath.Join(r.tmp, fmt.Sprintf("job-%d.json", id))
	b, _ := json.Marshal(job)
	if err := os.WriteFile(jf, b, 0o644); err != nil {
		return nil, nil, "", err
	}
	defer os.Remove(jf)
	logPrefix := filepath.Join(r.tmp, fmt.Sprintf("race-%d", id))
	ctx, cancel := context.WithTimeout(context.Background(), r.timeout)
	defer cancel()
	bin := r.bin
	if job.Plain && r.plain != "" {
		bin = r.plain
	}
	cmd := exec.CommandContext(ctx, bin, "C09-child", jf)
	cmd.Env = append(os.Environ(), "GORACE=halt_on_error=0 log_path="+logPrefix+" history_size=3", "GOMEMLIMIT=2GiB")
	var so, se bytes.Buffer
	cmd.Stdout, cmd.Stderr = &so, &se
	runErr := cmd.Run()
	var text strings.Builder
	logs, _ := filepath.Glob(logPrefix + ".*")
	for _, l := range logs {
		if c, e2 := os.ReadFile(l); e2 == nil {
			text.Write(c)
		}
		os.Remove(l)
	}
	races = c09ParseRaces(text.String() + "\n" + se.String())
	var out c09Out
	if e2 := json.Unmarshal(so.Bytes(), &out); e2 != nil {
		if runErr == nil {
			runErr = e2
		}
		return nil, races, se.String(), fmt.Errorf("child failed: %v", runErr)
	}
	// exit status 66 is the race runtime's "races were reported" status
	return out.Results, races, se.String(), nil
}

func c09BuildRace(e *Env) (string, bool) {
	self, _ := os.Executable()
	buildDir := filepath.Dir(self)
	bin := filepath.Join(buildDir, fmt.Sprintf("harness-race-%d", os.Getpid()))
	args := []string{"build"}
	if repo := os.Getenv("VERIF_REPO"); repo != "" {
		if rp, err := filepath.EvalSymlinks(repo); err == nil && rp != "/repo" {
			args = append(args, "-modfile="+filepath.Join(buildDir, "alt.go.mod"))
		}
	}
	args = append(args, "-race", "-tags", "verif", "-o", bin, ".")
	cmd := exec.Command("go", args...)
	cmd.Env = append(os.Environ(), "CGO_ENABLED=1")
	out, err := cmd.CombinedOutput()
	if err != nil {
		e.R.Note("go build -race failed (%v: %s); running the children WITHOUT the race detector: only results are compared", err, strings.TrimSpace(string(out)))
		return self, false
	}
	return bin, true
}

func c09_runC09(e *Env) {
	e.R.Rule = "a case is a schedule = (program set of 2..16 evaluations, GOMAXPROCS, seed), run once sequentially in-process and once concurrently " +
		"in a fresh `-race` child process (first-use paths fire once per process); program sets: model-covered statement programs over globals, " +
		"Go-method calls with 14 first-use parameter types and imports through one shared importer (shared compiled code or separately compiled), " +
		"snippet programs touching codecs/int+byte caches/errz/os args/importer/proxies, clones of one VM calling a function, Clone during a re-run, " +
		"and hold schedules (every evaluation has its own payload, produces values with 1..6 of 39 builtin/module operations, lets the others run at a barrier/yield/sleep, " +
		"then observes the held values twice; every operation first on its own with 2..4 evaluations on one P, then random mixes, with and without the race detector), " +
		"serve schedules (1..6 workers issue 2..6 requests each back to back through risor.Eval / EvalCode / vm.Run / risor.Call, each request under its own WithCancel/WithTimeout/WithDeadline/Background context released " +
		"right after it returned / from inside the worker's next request / when the worker is done / by itself during the run; every result compared with its closed-form stand-alone result and with the Lean machine model), " +
		"and registry schedules (hold schedules over objects out of the process-wide Go-type registry obtained through proxies — type objects, attributes maps, method / field objects, their types, bound methods — " +
		"which every evaluation edits and prints; reference = the evaluation alone in a fresh process; run concurrently and back to back in one process), " +
		"ctxshare schedules (1..3 groups of 2..5 evaluations, each group under ONE WithCancel/WithTimeout/WithDeadline context that is cancelled — or expires — only after the group's short members have returned " +
		"while its long members are still running, members started early or after the first ones returned, through risor.Eval / EvalCode / Call / vm.Run / vm.New+Run; closed-form results and the Lean context model), " +
		"and config schedules (2..6 evaluations with their own risor options — WithoutGlobal / WithGlobalOverride on attributes of standard-library modules, top-level WithoutGlobal, or none — " +
		"that read a pool of 1..5 of 22 module attributes before and after the others ran; reference = the evaluation alone in a fresh process and the Lean configuration model; concurrently and back to back), " +
		"and import schedules (2..5 evaluations on own VMs sharing ONE LocalImporter / FSImporter over modules that load, do not compile or have no file, 1..4 imports each, the evaluation's own context cancelled " +
		"while its last import is inside Importer.Import; the order of the Import calls enforced by a sequencer or left to the scheduler; every answer of the importer and every result against the evaluation alone with a fresh importer and the Lean importer model); " +
		"non-trivial when >= 2 evaluations touch the same inventoried location (always, by construction, except single-snippet sets without shared state); distinct by the full job text"
	tab := c09LoadTable(e)
	if len(tab.byFn) < 10 {
		e.R.Mismatch("table", "-", "-", "oracle returned no inventory")
		return
	}
	// the reviewed tables behind registry_hands_out_fresh_or_immutable / machine_sources_match, as the
	// oracle sees them: every row must pass the rule, and vm.Run must allocate per request
	for _, row := range strings.Split(e.O.Ask("C09", "regrows"), ";") {
		f := strings.Split(row, "|")
		if len(f) != 5 {
			continue
		}
		e.R.H("registry_rows", f[1]+" "+f[3])
		if f[4] != "1" {
			e.R.Mismatch("regrows "+row, "-", "not fresh, not immutable", "a reviewed registry row is neither constructed per request nor of an immutable type")
		}
	}
	for _, fn := range []string{"vm.Run", "vm.New", "vm.NewEmpty", "vm.VirtualMachine.Clone"} {
		if rep := e.O.Ask("C09", "machsrc", fn); rep != "fresh" {
			e.R.Mismatch("machsrc "+fn, "-", rep, "the reviewed table says this function does not allocate its machine per request")
		}
	}
	tmp, err := os.MkdirTemp("", "c09-")
	if err != nil {
		e.R.Note("mkdtemp: %v", err)
		return
	}
	defer os.RemoveAll(tmp)
	modDir := filepath.Join(tmp, "mods")
	os.MkdirAll(modDir, 0o755)
	for k := 0; k < 4; k++ {
		os.WriteFile(filepath.Join(modDir, fmt.Sprintf("m%d.risor", k)), []byte(fmt.Sprintf("value := %d\nfunc twice(x) { return x * 2 }\n", 100+k)), 0o644)
	}

	bin, race := c09BuildRace(e)
	if race {
		defer os.Remove(bin)
	}
	e.R.H("race_detector", fmt.Sprintf("%v", race))
	self, _ := os.Executable()
	runner := &c09Runner{bin: bin, plain: self, race: race, tmp: tmp, timeout: 120 * time.Second}

	nModel, nSnip, nClone, nRerun, nHold := 60, 40, 8, 2, 60
	nServe, nReg := 24, 2*len(c09RegOps)+8
	nCtx, nCfg := 16, 16
	if !e.Quick {
		nModel, nSnip, nClone, nRerun, nHold = 1200, 700, 90, 10, 900
		nServe, nReg = 200, 2*len(c09RegOps)+100
		nCtx, nCfg = 150, 150
	}
	if !c09CloneRerunScenario {
		nRerun = 0
	}
	type sched struct {
		job   *c09Job
		key   string
		prog  *c09Prog
		class string
		serve *c09ServeSpec
		ctxs  *c09CtxSpec
		cfg   *c09CfgSpec
	}
	var scheds []sched
	holds := map[string]c09HoldSpec{}
	rng := e.Rng.Fork()
	procsPool := []int{1, 2, 4, 8, 16}
	for i := 0; i < nModel; i++ {
		p := c09GenProg(rng)
		n := 2 + rng.Intn(15)
		job := &c09Job{Kind: "evals", Share: rng.Chance(60), ModDir: modDir, Procs: Pick(rng, procsPool), Threads: n}
		for k := 0; k < n; k++ {
			job.Srcs = append(job.Srcs, p.src)
		}
		scheds = append(scheds, sched{job, fmt.Sprintf("model n=%d share=%v procs=%d prog=%s", n, job.Share, job.Procs, p.tokens), p, "model", nil, nil, nil})
	}
	for i := 0; i < nSnip; i++ {
		n := 2 + rng.Intn(15)
		job := &c09Job{Kind: "evals", ModDir: modDir, Procs: Pick(rng, procsPool), Threads: n}
		var tags []string
		same := rng.Chance(50) // all evaluations run the same snippet: they meet on the same first-use path
		first := rng.Intn(len(c09Snippets))
		for k := 0; k < n; k++ {
			j := first
			if !same {
				j = rng.Intn(len(c09Snippets))
			}
			job.Srcs = append(job.Srcs, c09Snippets[j].src)
			tags = append(tags, c09Snippets[j].tag)
		}
		if same {
			job.Share = rng.Bool()
		}
		scheds = append(scheds, sched{job, fmt.Sprintf("snippets n=%d share=%v procs=%d %s", n, job.Share, job.Procs, strings.Join(job.Srcs, " ## ")), nil, "snippets:" + tags[0], nil, nil, nil})
	}
	for i := 0; i < nClone; i++ {
		n := 2 + rng.Intn(15)
		a, b := 1+rng.Intn(9), rng.Intn(50)
		src := fmt.Sprintf("func h(x) { return x * %d }\nfunc f(x) { t := 0; for i := 0; i < 50; i++ { t += h(x) + i }; return [t + %d, encode(string(x), \"hex\")] }\nf(1)", a, b)
		job := &c09Job{Kind: "clones", Srcs: []string{src}, Procs: Pick(rng, procsPool), Threads: n}
		for k := 0; k < n; k++ {
			job.Calls = append(job.Calls, rng.Intn(300))
		}
		scheds = append(scheds, sched{job, fmt.Sprintf("clones n=%d procs=%d a=%d b=%d calls=%v", n, job.Procs, a, b, job.Calls), nil, "clones", nil, nil, nil})
	}
	for i := 0; i < nRerun; i++ {
		n := 1 + rng.Intn(4)
		src1 := "func f(x) { return x + 1 }\nf(1)"
		src2 := fmt.Sprintf("func g(x) { return x + %d }\ng(1)", 2+rng.Intn(5))
		job := &c09Job{Kind: "clone-rerun", Srcs: []string{src1, src2}, Procs: Pick(rng, []int{2, 4, 8}), Threads: n + 1}
		for k := 0; k < n; k++ {
			job.Calls = append(job.Calls, rng.Intn(100))
		}
		scheds = append(scheds, sched{job, fmt.Sprintf("clone-rerun n=%d procs=%d src2=%q calls=%v", n, job.Procs, src2, job.Calls), nil, "clone-rerun", nil, nil, nil})
	}

	hrng := e.Rng.Fork() // own stream: the schedules above stay what they were for a given seed
	// hold schedules: first every operation on its own in the most adverse setting (two
	// evaluations taking turns on one P, barrier between producing and observing), then mixes
	for i := 0; i < nHold; i++ {
		var h c09HoldSpec
		if i < len(c09HoldOps) {
			h = c09HoldSpec{n: 2 + hrng.Intn(3), procs: 1, rounds: 1 + hrng.Intn(2), payLen: Pick(hrng, []int{16, 64, 200}), ops: []int{i},
				sync: "barrier", share: hrng.Bool(), plain: i%2 == 0}
		} else {
			h = c09HoldSpec{n: 2 + hrng.Intn(15), procs: Pick(hrng, []int{1, 1, 1, 2, 4, 8, 16}), payLen: Pick(hrng, []int{8, 16, 64, 200, 1000}),
				sync: Pick(hrng, []string{"barrier", "barrier", "yield", "sleep", "none"}), share: hrng.Chance(60), plain: hrng.Chance(40)}
			h.rounds = 1 + hrng.Intn(3)
			if h.sync != "barrier" {
				h.rounds = 2 + hrng.Intn(20)
			}
			k := 1 + hrng.Intn(6)
			perm := make([]int, len(c09HoldOps))
			for j := range perm {
				perm[j] = j
			}
			for j := 0; j < k; j++ { // distinct operations: one live result per operation and evaluation
				x := j + hrng.Intn(len(perm)-j)
				perm[j], perm[x] = perm[x], perm[j]
			}
			h.ops = append([]int(nil), perm[:k]...)
		}
		job, key := h.job()
		scheds = append(scheds, sched{job, key, nil, "hold", nil, nil, nil})
		holds[key] = h
	}

	// serve and registry schedules (c09srv.go), each class on its own random stream
	srng := e.Rng.Fork()
	for i := 0; i < nServe; i++ {
		sp := c09GenServe(srng, i)
		job, key := sp.job()
		scheds = append(scheds, sched{job, key, nil, "serve", &sp, nil, nil})
	}
	rrng := e.Rng.Fork()
	regs := map[string]c09RegSpec{}
	for i := 0; i < nReg; i++ {
		h := c09GenReg(rrng, i)
		job, key := h.job()
		if _, dup := regs[key]; dup {
			continue
		}
		regs[key] = h
		scheds = append(scheds, sched{job, key, nil, "registry", nil, nil, nil})
	}
	// ctxshare and config schedules (c09wide.go), each class on its own random stream
	crng := e.Rng.Fork()
	for i := 0; i < nCtx; i++ {
		sp := c09GenCtx(crng, i)
		job, key := sp.job()
		scheds = append(scheds, sched{job, key, nil, "ctxshare", nil, &sp, nil})
	}
	grng := e.Rng.Fork()
	seenCfg := map[string]bool{}
	for i := 0; i < nCfg; i++ {
		h := c09GenCfg(grng, i)
		job, key := h.job()
		if seenCfg[key] {
			continue
		}
		seenCfg[key] = true
		scheds = append(scheds, sched{job, key, nil, "config", nil, nil, &h})
	}
	// import schedules (c09imp.go: one importer shared by evaluations whose contexts may end during a
	// first load), on their own random stream, run and judged in this process
	nImp := 40
	if !e.Quick {
		nImp = 600
	}
	c09RunImportSchedules(e, e.Rng.Fork(), tmp, nImp)

	// the stand-alone reference of a registry evaluation: evaluation k by itself in a FRESH process
	type aloneKey struct {
		src   string
		k     int
		share bool
		cfg   string // config: the evaluation's options (JSON); "" for registry evaluations
	}
	alone := map[aloneKey]string{}
	aloneCfg := map[aloneKey]c09CfgEval{}
	// config: what every attribute of the menu reads as in an evaluation without any option, alone in a fresh process
	allCells := make([]int, len(c09CfgCells))
	for c := range allCells {
		allCells[c] = c
	}
	baseKey := aloneKey{c09CfgSrc(allCells, 1), 0, false, c09CfgJSON(c09CfgEval{API: "eval"})}
	{
		var keys []aloneKey
		alone[baseKey] = ""
		aloneCfg[baseKey] = c09CfgEval{API: "eval"}
		keys = append(keys, baseKey)
		for _, s := range scheds {
			if s.class != "registry" && s.class != "config" {
				continue
			}
			for k := 0; k < s.job.Threads; k++ {
				ak := aloneKey{s.job.Srcs[0], k, s.job.Share, ""}
				if s.class == "config" {
					ak.cfg = c09CfgJSON(s.job.Cfgs[k])
					aloneCfg[ak] = s.job.Cfgs[k]
				}
				if _, ok := alone[ak]; !ok {
					alone[ak] = ""
					keys = append(keys, ak)
				}
			}
		}
		var mu sync.Mutex
		var wg sync.WaitGroup
		sem := make(chan struct{}, 6)
		for _, ak := range keys {
			wg.Add(1)
			sem <- struct{}{}
			go func(ak aloneKey) {
				defer wg.Done()
				defer func() { <-sem }()
				job := &c09Job{Kind: "registry", Srcs: []string{ak.src}, Share: ak.share, Procs: 1, Threads: ak.k + 1, Sync: "none", Plain: true, Only: ak.k + 1}
				if ak.cfg != "" {
					job.Kind = "config"
					job.Cfgs = make([]c09CfgEval, ak.k+1)
					mu.Lock()
					job.Cfgs[ak.k] = aloneCfg[ak]
					mu.Unlock()
				}
				r, _, se, err := runner.run(job)
				out := ""
				switch {
				case err != nil:
					out = fmt.Sprintf("alone child failed: %v: %s", err, se)
				case len(r) > ak.k:
					out = r[ak.k]
				}
				mu.Lock()
				alone[ak] = out
				mu.Unlock()
			}(ak)
		}
		wg.Wait()
		e.R.H("registry_alone_children", strconv.Itoa(len(keys)))
	}
	cfgBase := map[int]string{}
	if txt, ok := c09CfgUnquote(alone[baseKey]); ok {
		if parts := strings.Split(txt, "|"); len(parts) == len(c09CfgCells) {
			for c, t := range parts {
				cfgBase[c] = t
				if t == "MISSING" {
					e.R.Mismatch("config menu", t, "a value", "attribute "+c09CfgCellName(c)+" of the harness's menu is not in the standard library (harness menu out of date?)")
				}
			}
		}
	}
	if len(cfgBase) != len(c09CfgCells) {
		e.R.Mismatch("config menu", alone[baseKey], "string:\"...|...\"", "the evaluation without options that reads every attribute of the menu did not evaluate alone in a fresh process")
	}

	// sequential reference + oracle, in order (deterministic), then the concurrent children in parallel
	type ref struct {
		seq   []string
		model []string // per thread, from the oracle's schedule run
	}
	refs := make([]ref, len(scheds))
	for i, s := range scheds {
		if s.class == "registry" {
			for k := 0; k < s.job.Threads; k++ {
				refs[i].seq = append(refs[i].seq, alone[aloneKey{s.job.Srcs[0], k, s.job.Share, ""}])
			}
			continue
		}
		if s.class == "config" {
			for k := 0; k < s.job.Threads; k++ {
				refs[i].seq = append(refs[i].seq, alone[aloneKey{s.job.Srcs[0], k, s.job.Share, c09CfgJSON(s.job.Cfgs[k])}])
			}
			c09CfgReference(e, grng, s.key, s.cfg, refs[i].seq, cfgBase)
			continue
		}
		refs[i].seq = c09RunJob(s.job, false)
		if s.serve != nil {
			c09ServeReference(e, srng, s.key, s.serve, refs[i].seq)
		}
		if s.ctxs != nil {
			c09CtxReference(e, crng, s.key, s.ctxs, refs[i].seq)
		}
		if s.prog != nil {
			n := len(s.job.Srcs)
			// a random complete interleaving for the model
			var order []string
			var pool []int
			for t := 0; t < n; t++ {
				for k := 0; k < len(s.prog.tgt); k++ {
					pool = append(pool, t)
				}
			}
			for len(pool) > 0 {
				j := rng.Intn(len(pool))
				order = append(order, strconv.Itoa(pool[j]))
				pool[j] = pool[len(pool)-1]
				pool = pool[:len(pool)-1]
			}
			rep := e.O.Ask("C09", "vm", strconv.Itoa(s.prog.ng), strconv.Itoa(n), s.prog.tokens, strings.Join(order, ","))
			f := strings.Split(rep, "\t")
			if len(f) != 3 || f[0] != "ok" {
				e.R.Mismatch(s.key, "-", rep, "oracle rejected the program")
				continue
			}
			alone := "list:[" + strings.ReplaceAll(f[1], ",", ", ") + "]"
			// Impl VM model vs the real VM, evaluation run alone
			for t := 0; t < n; t++ {
				if refs[i].seq[t] != alone {
					e.R.Mismatch(s.key, refs[i].seq[t], alone, fmt.Sprintf("sequential result of evaluation %d vs Impl VM model (aloneResult)", t))
					break
				}
			}
			for _, part := range strings.Split(f[2], "|") {
				kv := strings.SplitN(part, ":", 2)
				if len(kv) == 2 {
					refs[i].model = append(refs[i].model, "list:["+strings.ReplaceAll(kv[1], ",", ", ")+"]")
				}
			}
			// the model under the interleaving must equal the model alone (theorem isolated_results_final)
			for t, m := range refs[i].model {
				if m != alone {
					e.R.Mismatch(s.key, alone, m, fmt.Sprintf("Impl VM model: evaluation %d under the interleaving differs from alone", t))
				}
			}
		}
	}

	par := 4
	if n := runtime.NumCPU() / 2; n > par {
		par = n
	}
	if par > 8 {
		par = 8
	}
	sem := make(chan struct{}, par)
	var wg sync.WaitGroup
	type outcome struct {
		res    []string
		races  []c09Race
		stderr string
		err    error
	}
	outs := make([]outcome, len(scheds))
	for i := range scheds {
		wg.Add(1)
		sem <- struct{}{}
		go func(i int) {
			defer wg.Done()
			defer func() { <-sem }()
			r, rc, se, err := runner.run(scheds[i].job)
			outs[i] = outcome{r, rc, se, err}
		}(i)
	}
	wg.Wait()

	nDiffNotes := 0
	minimised := map[string]bool{}
	for i, s := range scheds {
		o := outs[i]
		e.R.Case(s.key, len(s.job.Srcs) >= 2 || len(s.job.Calls) >= 1 || ((s.class == "hold" || s.class == "registry") && s.job.Threads >= 2) || (s.class == "serve" && len(refs[i].seq) >= 2) ||
			((s.class == "ctxshare" || s.class == "config") && s.job.Threads >= 2))
		if s.class == "serve" {
			for _, rs := range s.job.Reqs {
				for _, rq := range rs {
					e.R.H("serve_api", rq.API)
					e.R.H("serve_context", rq.Ctx)
					e.R.H("serve_context_released", rq.Cancel)
				}
			}
			e.R.H("serve_workers", fmt.Sprintf("%02d", len(s.job.Reqs)))
			e.R.H("serve_race_detector", fmt.Sprintf("%v", !s.job.Plain))
		}
		if s.class == "registry" {
			h := regs[s.key]
			e.R.H("registry_mode", map[bool]string{true: "back to back", false: "concurrent"}[h.seq])
			e.R.H("registry_sync", s.job.Sync)
			e.R.H("registry_race_detector", fmt.Sprintf("%v", !s.job.Plain))
			for _, o := range h.ops {
				e.R.H("registry_operation", c09RegOps[o].tag)
			}
			for t, r := range refs[i].seq {
				if !strings.HasPrefix(r, "list:") {
					e.R.Mismatch(s.key, r, "list:[...]", fmt.Sprintf("registry program of evaluation %d does not evaluate alone in a fresh process (harness menu out of date?)", t))
					break
				}
			}
		}
		if s.class == "ctxshare" {
			for _, grp := range s.job.Groups {
				e.R.H("ctxshare_context_ends_by", grp.Ctx)
				e.R.H("ctxshare_members_per_context", fmt.Sprintf("%02d", len(grp.Members)))
				for _, m := range grp.Members {
					role := m.Role
					if m.Late {
						role = "late " + role
					}
					e.R.H("ctxshare_member", role)
					e.R.H("ctxshare_api", m.API)
				}
			}
			e.R.H("ctxshare_race_detector", fmt.Sprintf("%v", !s.job.Plain))
		}
		if s.class == "config" {
			e.R.H("config_mode", map[bool]string{true: "back to back", false: "concurrent"}[s.job.Seq])
			e.R.H("config_race_detector", fmt.Sprintf("%v", !s.job.Plain))
			for _, c := range s.job.Cfgs {
				e.R.H("config_api", c.API)
				if len(c.Edits) == 0 {
					e.R.H("config_option", "none")
				}
				for _, ed := range c.Edits {
					e.R.H("config_option", ed.Kind)
				}
			}
		}
		if s.class == "hold" {
			e.R.H("hold_sync", s.job.Sync)
			e.R.H("hold_race_detector", fmt.Sprintf("%v", !s.job.Plain))
			for _, o := range holds[s.key].ops {
				e.R.H("hold_operation", c09HoldOps[o].tag)
			}
			for t, r := range refs[i].seq {
				if !strings.HasPrefix(r, "list:") {
					e.R.Mismatch(s.key, r, "list:[...]", fmt.Sprintf("hold program of evaluation %d does not evaluate alone (harness menu out of date?)", t))
					break
				}
			}
		}
		e.R.H("class", s.class)
		e.R.H("evaluations_per_schedule", fmt.Sprintf("%02d", s.job.Threads))
		e.R.H("gomaxprocs", strconv.Itoa(s.job.Procs))
		e.R.H("shared_compiled_code", fmt.Sprintf("%v", s.job.Share))
		if len(o.races) == 0 {
			e.R.H("races_per_schedule", "0")
		} else {
			e.R.H("races_per_schedule", ">=1")
		}
		knownHere := ""
		for _, rc := range o.races {
			c09Judge(e, tab, s.key, rc)
		}
		for _, rc := range o.races {
			if c09Has(rc.a.frames, "object.GoType.GetConverter") || c09Has(rc.b.frames, "object.GoType.GetConverter") {
				knownHere = "C09-getconverter-unlocked"
			}
		}
		if o.err != nil {
			// the child died: Go's runtime aborts on a detected concurrent map access
			if strings.Contains(o.stderr, "concurrent map") && strings.Contains(o.stderr, "(*GoType).GetConverter") &&
				(strings.Contains(o.stderr, "createTypeConverter") || strings.Contains(o.stderr, "newGoType") || strings.Contains(o.stderr, "getTypeConverter")) {
				e.R.H("child", "fatal: concurrent map access")
				e.R.Spec(s.key, "the process was killed by the Go runtime (concurrent map access in the converter registry reached through GoType.GetConverter): no evaluation produced its result", "C09-getconverter-unlocked")
			} else if strings.Contains(o.stderr, "concurrent map") && strings.Contains(o.stderr, "(*VirtualMachine).Clone") &&
				(strings.Contains(o.stderr, "(*VirtualMachine).applyOptions") || strings.Contains(o.stderr, "(*VirtualMachine).resetForNewCode") || strings.Contains(o.stderr, "(*VirtualMachine).reloadCode")) {
				e.R.H("child", "fatal: concurrent map access (Clone during re-run)")
				e.R.Spec(s.key, "the process was killed by the Go runtime (Clone iterating vm.modules/vm.loadedCode while a re-run of the same VM writes them without cloneMutex)", "C09-clone-during-rerun")
			} else if fn, loc := c09FatalMapSite(o.stderr); fn != "" && strings.Contains(strings.Join(s.job.Srcs, "\n"), "svc.") && c09KnownRacy(e, loc, fn) {
				// The goroutine that hit the runtime's map check is inside createTypeConverter /
				// getTypeConverter / newGoType, possibly on the LOCKED path (NewTypeConverter, NewGoType);
				// the other party has usually left the map by the time the stacks are dumped, so no
				// GetConverter frame is left to see.  These functions touch only typeConverters /
				// goTypeRegistry, the program calls Go methods through a proxy (the only way to
				// GetConverter), and the Impl lockset model says the only unordered pairs on these
				// locations are the finding's (oracle `pair`; theorem violations_are_known).
				e.R.H("child", "fatal: concurrent map access")
				e.R.Spec(s.key, "the process was killed by the Go runtime (concurrent map access on "+loc+" in "+fn+"; the unlocked party is the GoType.GetConverter path): no evaluation produced its result", "C09-getconverter-unlocked")
			} else {
				e.R.H("child", "failed")
				// the fatal error and the stack of the goroutine that hit it come first, after any race reports
				head := o.stderr
				if j := strings.Index(head, "fatal error:"); j >= 0 {
					head = head[j:]
				} else if j := strings.Index(head, "panic:"); j >= 0 {
					head = head[j:]
				}
				if len(head) > 1500 {
					head = head[:1500]
				}
				tail := o.stderr
				if len(tail) > 600 {
					tail = tail[len(tail)-600:]
				}
				e.R.Spec(s.key, fmt.Sprintf("concurrent run did not complete: %v; stderr: %s [...] stderr tail: %s", o.err, head, tail), "")
			}
			continue
		}
		e.R.H("child", "ok")
		seq := refs[i].seq
		if len(o.res) != len(seq) {
			e.R.Mismatch(s.key, fmt.Sprint(len(o.res)), fmt.Sprint(len(seq)), "result count")
			continue
		}
		if s.class == "hold" {
			// name the operation(s) whose held value changed and look for the smallest schedule that
			// still shows it: two evaluations, that operation only, one round, barrier, one P
			h := holds[s.key]
			var tags []string
			seenTag := map[string]bool{}
			for t := range seq {
				if o.res[t] != seq[t] {
					for _, tg := range c09HoldDiffTags(o.res[t], seq[t]) {
						if !seenTag[tg] {
							seenTag[tg] = true
							tags = append(tags, tg)
						}
					}
				}
			}
			for ti, tg := range tags {
				if ti >= 3 || minimised[tg] {
					continue
				}
				m := c09HoldSpec{n: 2, procs: 1, rounds: 1, payLen: h.payLen, ops: []int{c09HoldTag(tg)}, sync: "barrier", share: true, plain: h.plain}
				mjob, mkey := m.job()
				if mkey == s.key {
					continue
				}
				mseq := c09RunJob(mjob, false)
				for attempt := 0; attempt < 3 && !minimised[tg]; attempt++ {
					mres, mraces, _, merr := runner.run(mjob)
					if merr != nil || len(mres) != len(mseq) {
						continue
					}
					for t := range mseq {
						if mres[t] != mseq[t] {
							minimised[tg] = true
							e.R.Case(mkey, true)
							e.R.H("class", "hold-minimised")
							e.R.Spec(mkey, fmt.Sprintf("operation <%s>: evaluation %d (payload %q) held the value across hold_sync() while evaluation %d ran the same operation on its own payload; "+
								"it then observed %q, alone it observes %q (minimised from: %s)", tg, t, c09HoldPayload(t, m.payLen), 1-t, mres[t], mseq[t], s.key), "")
							break
						}
					}
					for _, rc := range mraces {
						c09Judge(e, tab, mkey, rc)
					}
				}
			}
		}
		for t := range seq {
			if s.class == "clone-rerun" && t == 0 {
				continue // the re-running VM's last result is compared below like the others
			}
			if s.class == "serve" {
				w, j := 0, t
				for w < len(s.job.Reqs) && j >= len(s.job.Reqs[w]) {
					j -= len(s.job.Reqs[w])
					w++
				}
				rq := s.job.Reqs[w][j]
				if c09ReqAccepts(rq, w, j, o.res[t]) {
					e.R.H("result", "same as alone")
					continue
				}
				e.R.H("result", "differs")
				if nDiffNotes < 6 {
					nDiffNotes++
					e.R.Note("serve: request %d of worker %d (%s) returned %q, alone %s", j, w, rq, o.res[t], strings.Join(c09ReqExpect(rq, w, j), " or "))
				}
				e.R.Spec(s.key, fmt.Sprintf("request %d of worker %d (%s through the top-level API, its own context %s) returned %q while other requests ran / other requests' contexts were released; alone it returns %s",
					j, w, rq, map[bool]string{true: "was cancelled by itself during the run", false: "was NOT cancelled before it returned"}[rq.Cancel == "self"], o.res[t], strings.Join(c09ReqExpect(rq, w, j), " or ")), "")
			} else if s.class == "ctxshare" {
				g, j := 0, t
				for g < len(s.job.Groups) && j >= len(s.job.Groups[g].Members) {
					j -= len(s.job.Groups[g].Members)
					g++
				}
				grp := s.job.Groups[g]
				m := grp.Members[j]
				if c09CtxAccepts(grp, m, g, j, o.res[t]) {
					e.R.H("result", "same as alone")
					continue
				}
				e.R.H("result", "differs")
				if nDiffNotes < 6 {
					nDiffNotes++
					e.R.Note("ctxshare: member %d of group %d (%s, context %s) returned %q, alone %s", j, g, m, grp.Ctx, o.res[t], strings.Join(c09CtxExpect(grp, m, g, j), " or "))
				}
				what := "its context was NOT ended before it returned"
				if m.Role == "long" {
					what = "its context ended while it was running (parked in wait(), after the short members of the group had returned); it then called wait() " +
						strconv.Itoa(c09CtxLimit) + " more times (>= 1 ms each) without being halted"
				}
				e.R.Spec(s.key, fmt.Sprintf("member %d of group %d (%s, own VM and globals, context <%s> shared with %d other evaluation(s)) returned %q: %s; alone under such a context it returns %s",
					j, g, m, grp.Ctx, len(grp.Members)-1, o.res[t], what, strings.Join(c09CtxExpect(grp, m, g, j), " or ")), "")
			} else if o.res[t] != seq[t] && s.class == "config" {
				e.R.H("result", "differs")
				mode := "concurrently with the other evaluations"
				if s.job.Seq {
					mode = "back to back with the other evaluations in one process"
				}
				if nDiffNotes < 6 {
					nDiffNotes++
					e.R.Note("config: %s: evaluation %d %s %q, alone %q", s.key, t, mode, o.res[t], seq[t])
				}
				e.R.Spec(s.key, fmt.Sprintf("evaluation %d {%s} (own Config, globals and VM) run %s: %s; it returned %q, alone in a fresh process %q",
					t, s.job.Cfgs[t], mode, c09CfgDiff(s.cfg, o.res[t], seq[t]), o.res[t], seq[t]), "")
			} else if o.res[t] != seq[t] && s.class == "registry" {
				e.R.H("result", "differs")
				h := regs[s.key]
				mode := "concurrently with the other evaluations"
				if h.seq {
					mode = "back to back with the other evaluations in one process"
				}
				if nDiffNotes < 6 {
					nDiffNotes++
					e.R.Note("registry object changed: %s: evaluation %d %s %q, alone %q", s.key, t, mode, o.res[t], seq[t])
				}
				e.R.Spec(s.key, fmt.Sprintf("evaluation %d (own Go object, pid %d): object(s) obtained from the process-wide Go-type registry differ from what the evaluation gets alone in a fresh process (operations %v): %s %q, alone %q",
					t, t, c09HoldDiffTags(o.res[t], seq[t]), mode, o.res[t], seq[t]), "")
			} else if o.res[t] != seq[t] && s.class == "hold" {
				e.R.H("result", "differs")
				if nDiffNotes < 6 {
					nDiffNotes++
					e.R.Note("held value changed: %s: evaluation %d concurrently %q, alone %q", s.key, t, o.res[t], seq[t])
				}
				e.R.Spec(s.key, fmt.Sprintf("evaluation %d (payload %q): value(s) held across hold_sync() changed while other evaluations ran (operations %v): concurrently %q, alone %q",
					t, c09HoldPayload(t, s.job.PayLen), c09HoldDiffTags(o.res[t], seq[t]), o.res[t], seq[t]), "")
			} else if o.res[t] != seq[t] {
				e.R.H("result", "differs")
				if nDiffNotes < 6 {
					nDiffNotes++
					e.R.Note("result differs [%s] %s: evaluation %d concurrently %q, alone %q", knownHere, s.key, t, o.res[t], seq[t])
				}
				e.R.Spec(s.key, fmt.Sprintf("evaluation %d produced %q concurrently but %q alone", t, o.res[t], seq[t]), knownHere)
			} else {
				e.R.H("result", "same as alone")
			}
		}
		if s.class == "clone-rerun" && o.res[0] != seq[0] {
			e.R.Spec(s.key, fmt.Sprintf("re-running VM produced %q concurrently but %q alone", o.res[0], seq[0]), "")
		}
		for _, r := range seq {
			k := r
			if j := strings.IndexByte(k, ':'); j > 0 {
				k = k[:j]
			}
			e.R.H("sequential_result_type", k)
		}
	}
	e.R.Note("%d schedules (%d model-covered, %d snippet sets, %d clone sets, %d clone-during-rerun, %d hold, %d serve, %d registry, %d ctxshare, %d config), race detector: %v, %d child processes, %d parallel",
		len(scheds), nModel, nSnip, nClone, nRerun, nHold, nServe, len(regs), nCtx, len(seenCfg), race, runner.n, par)
}
