package main

// C12, third part — process-level operations under the OS implementation risor ships for hosts.
//
// A case is a *process session*: a VirtualOS built from a subset of its options (every option is
// either given or left at its default: exit handler, stdin, stdout, stderr, args, pid, uid, hostname,
// cwd, environment, tmp, user dirs, mounts, current user, group), a route (risor.WithOS / OS in the
// context), an execution context (top level, closure, builtin callback, spawn(), go, f.spawn(),
// clone-call, imported-module function, imported-module body, host-level Clone()+Call(), nested to
// depth 0-3) and a script of 1-7 process-level operations: os.exit with every argument form, pid, uid,
// hostname, args, the standard streams, print/printf, user and group lookups, cwd and environment.
//
// An unmediated exit terminates the process, so every session runs in a CHILD process
// (`harness C12-proc-child`).  The child streams one record per completed step and one per completed
// case; the parent judges from the records and from the child's exit status:
//
//   Impl correspondence: every answer, the point at which the script ends, the calls the host's exit
//   handler received and the content of the host's stdout/stderr files equal the Lean model
//   (Virtual.lean: vscript / hostView, evaluated on the sink table regenerated from os/virtual.go).
//   Spec, on the real results: the real process is never terminated by the script (the child wrote its
//   result record; a child that died inside a case was terminated by it — its exit status and the step
//   it was executing are the replay), the real standard streams, environment and working directory are
//   untouched, and no answer carries a value of the real process (pid, host name, arguments, stdin,
//   user database).

import (
	"bytes"
	"context"
	"encoding/json"
	"fmt"
	"os"
	"os/exec"
	"os/user"
	"path/filepath"
	"sort"
	"strconv"
	"strings"
	"sync"
	"time"

	"github.com/risor-io/risor"
	"github.com/risor-io/risor/compiler"
	"github.com/risor-io/risor/object"
	ros "github.com/risor-io/risor/os"
	"github.com/risor-io/risor/parser"
	"github.com/risor-io/risor/vm"
)

func init() {
	childCommands["C12-proc-child"] = c12PChild
}

// ---------------------------------------------------------------- options

// the options of NewVirtualOS, one bit each (three user-dir options share one)
var c12POpts = []struct{ letter, name string }{
	{"H", "WithExitHandler"}, {"I", "WithStdin"}, {"O", "WithStdout"}, {"E", "WithStderr"}, {"A", "WithArgs"},
	{"P", "WithPid"}, {"U", "WithUid"}, {"N", "WithHostname"}, {"C", "WithCwd"}, {"V", "WithEnvironment"},
	{"T", "WithTmp"}, {"D", "WithUserHomeDir+WithUserCacheDir+WithUserConfigDir"}, {"M", "WithMounts"},
	{"W", "WithCurrentUser(&VirtualUser{})"}, {"G", "WithGroup(&VirtualGroup{})"},
}

const c12PAll = 1<<15 - 1

func c12PHas(mask int, letter string) bool {
	for i, o := range c12POpts {
		if o.letter == letter {
			return mask&(1<<i) != 0
		}
	}
	panic("unknown option " + letter)
}

func c12PMaskText(mask int) string {
	var l []string
	for i, o := range c12POpts {
		if mask&(1<<i) != 0 {
			l = append(l, o.letter)
		}
	}
	if len(l) == 0 {
		return "(none)"
	}
	return strings.Join(l, "")
}

const c12PStdin = "VIRT-STDIN\n"

// the configuration a mask stands for, as sent to the model (defaults of NewVirtualOS for absent options)
func c12PConfig(mask int) c12VCfg {
	c := c12VCfg{cwd: "/", env: map[string]string{}}
	if c12PHas(mask, "A") {
		c.args = []string{"virt-arg", "second"}
	}
	if c12PHas(mask, "P") {
		c.pid = 424242
	}
	if c12PHas(mask, "U") {
		c.uid = 4242
	}
	if c12PHas(mask, "N") {
		c.host = "virt-host"
	}
	if c12PHas(mask, "C") {
		c.cwd = "/work"
	}
	if c12PHas(mask, "V") {
		c.env = map[string]string{c12EnvKey: "VIRT-ENV", "OTHER": "x"}
	}
	if c12PHas(mask, "T") {
		c.tmp = "/tmp"
	}
	if c12PHas(mask, "D") {
		c.home, c.cache, c.config = "/home/u", "/home/u/.cache", "/home/u/.config"
	}
	if c12PHas(mask, "M") {
		c.mounts = []string{"/", "/mnt"}
	}
	return c
}

// ---------------------------------------------------------------- operations

type c12POp struct {
	name  string
	expr  string
	model string   // step of the Lean model; {0} = hex of the first argument
	args  []string // argument pools
	kind  string   // exit | ident | stream | user | state
}

var c12POps = []c12POp{
	{"os.exit(n)", "os.exit({raw0})", "exit:c{raw0}", []string{"CODE"}, "exit"},
	{"os.exit()", "os.exit()", "exit:none", nil, "exit"},
	{"os.exit(err)", "os.exit(errors.new(\"boom\"))", "exit:err", nil, "exit"},
	{"os.exit(bad type)", "os.exit({raw0})", "exit:bad", []string{"BADARG"}, "exit"},
	{"os.exit(a, b)", "os.exit(1, 2)", "exit:many", nil, "exit"},
	{"os.getpid", "os.getpid()", "getpid", nil, "ident"},
	{"os.getuid", "os.getuid()", "getuid", nil, "ident"},
	{"os.hostname", "os.hostname()", "hostname", nil, "ident"},
	{"os.args", "\"\\n\".join(os.args())", "args", nil, "ident"},
	{"os.stdin.read", "string(os.stdin.read())", "stdinread", nil, "stream"},
	{"os.stdout.write", "os.stdout.write({0})", "outw:{0}", []string{"TXT"}, "stream"},
	{"os.stderr.write", "os.stderr.write({0})", "errw:{0}", []string{"TXT"}, "stream"},
	{"print", "print({0})", "print:{0nl}", []string{"TXT"}, "stream"},
	{"printf", "printf(\"%s=%d.\", {0}, 3)", "print:{0fmt}", []string{"TXT"}, "stream"},
	{"fmt.println", "fmt.println({0})", "print:{0nl}", []string{"TXT"}, "stream"},
	{"os.current_user", "os.current_user().home_dir", "curuser", nil, "user"},
	{"os.lookup_user", "os.lookup_user({0}).home_dir", "luser:{0}", []string{"U"}, "user"},
	{"os.lookup_uid", "os.lookup_uid({0}).username", "luser:{0}", []string{"UID"}, "user"},
	{"os.lookup_group", "os.lookup_group({0}).gid", "lgroup:{0}", []string{"G"}, "user"},
	{"os.lookup_gid", "os.lookup_gid({0}).name", "lgroup:{0}", []string{"GID"}, "user"},
	{"os.getwd", "os.getwd()", "getwd", nil, "state"},
	{"os.chdir", "os.chdir({0})", "chdir:{0}", []string{"DIR"}, "state"},
	{"os.getenv", "os.getenv({0})", "getenv:{0}", []string{"K"}, "state"},
	{"os.setenv", "os.setenv({0}, \"newval\")", "setenv:{0}:" + "6e657776616c", []string{"K"}, "state"},
	{"os.environ", "\"\\n\".join(sorted(os.environ()))", "environ", nil, "state"},
	{"os.temp_dir", "os.temp_dir()", "tempdir", nil, "state"},
	{"os.user_home_dir", "os.user_home_dir()", "homedir", nil, "state"},
	{"os.user_cache_dir", "os.user_cache_dir()", "cachedir", nil, "state"},
	{"os.user_config_dir", "os.user_config_dir()", "configdir", nil, "state"},
	{"filepath.abs", "filepath.abs({0})", "abs:{0}", []string{"DIR"}, "state"},
}

var c12PPools = map[string][]string{
	"CODE":   {"3", "0", "1", "2", "7", "42", "255", "256", "-1", "1099511627776"},
	"BADARG": {"\"s\"", "nil", "1.5", "true", "[1]"},
	"TXT":    {"x", "out-1", ""},
	"U":      {"", "root", "<user>"},
	"UID":    {"", "0", "<uid>"},
	"G":      {"", "root"},
	"GID":    {"", "0"},
	"DIR":    {"work", "/work/data", "..", ""},
	"K":      {c12EnvKey, "OTHER", "HOME"},
}

func c12POpByName(n string) *c12POp {
	for i := range c12POps {
		if c12POps[i].name == n {
			return &c12POps[i]
		}
	}
	return nil
}

type c12PStep struct {
	Op   string   `json:"op"`
	Args []string `json:"args"`
}

func (s c12PStep) arg0() string {
	if len(s.Args) > 0 {
		return s.Args[0]
	}
	return ""
}

// the step as risor source; `sub` substitutes "<user>"/"<uid>" (identity for the case key)
func (s c12PStep) text(sub func(string) string) string {
	x := c12POpByName(s.Op).expr
	x = strings.ReplaceAll(x, "{raw0}", s.arg0())
	x = strings.ReplaceAll(x, "{0}", c12Quote(sub(s.arg0())))
	return x
}

func (s c12PStep) modelStep(sub func(string) string) string {
	m := c12POpByName(s.Op).model
	a := sub(s.arg0())
	m = strings.ReplaceAll(m, "{raw0}", s.arg0())
	m = strings.ReplaceAll(m, "{0nl}", Hex(a+"\n"))
	m = strings.ReplaceAll(m, "{0fmt}", Hex(a+"=3."))
	m = strings.ReplaceAll(m, "{0}", Hex(a))
	return m
}

// does the script end at this step (fatal error after the Exit call / arguments error)?
func (s c12PStep) aborts() bool {
	switch s.Op {
	case "os.exit(n)":
		return s.arg0() != "0"
	case "os.exit(err)", "os.exit(a, b)":
		return true
	}
	return false
}

// the code the step hands to OS.Exit (ok=false: no Exit call)
func (s c12PStep) exitCode() (int64, bool) {
	switch s.Op {
	case "os.exit()":
		return 0, true
	case "os.exit(n)":
		n, _ := strconv.ParseInt(s.arg0(), 10, 64)
		return n, true
	case "os.exit(err)":
		return 1, true
	}
	return 0, false
}

type c12PCase struct {
	Mask  int        `json:"mask"`
	Route string     `json:"route"` // W | X
	Ctx   string     `json:"ctx"`   // optional leading K (host-level Clone + Call), then nesting letters, outermost first
	Steps []c12PStep `json:"steps"`
}

var c12PCtxNames = map[byte]string{'c': "closure call", 'b': "builtin callback (list.map)", 's': "spawn()", 'g': "go statement", 'm': "func.spawn()",
	'k': "clone-call (host callback)", 'i': "imported module function", 'I': "imported module body", 'K': "host-level Clone()+Call()"}

func (c c12PCase) ctxText() string {
	if c.Ctx == "" {
		return "top level"
	}
	var l []string
	for i := 0; i < len(c.Ctx); i++ {
		l = append(l, c12PCtxNames[c.Ctx[i]])
	}
	return strings.Join(l, " > ")
}

func (c c12PCase) key() string {
	id := func(s string) string { return s }
	var t []string
	for _, s := range c.Steps {
		t = append(t, s.text(id))
	}
	return "virtual-os process session options=" + c12PMaskText(c.Mask) + " route=" + map[string]string{"W": "WithOS", "X": "context"}[c.Route] +
		" context=" + c.ctxText() + " script: " + strings.Join(t, "; ")
}

func (c c12PCase) abortAt() int {
	for i, s := range c.Steps {
		if s.aborts() {
			return i
		}
	}
	return -1
}

// ---------------------------------------------------------------- execution (in the child)

type c12PResult struct {
	Ans     []string `json:"ans"` // one per step; "<none>" when the step never answered
	Err     string   `json:"err"`
	Handled []int64  `json:"handled"`
	Stdout  string   `json:"stdout"`
	Stderr  string   `json:"stderr"`
	Effects []string `json:"effects"`
	Leaks   []string `json:"leaks"`
}

// c12PBuild wraps the body in the nesting path (outermost first) and returns main source + modules.
func c12PBuild(body, path string, hostCall bool) c12Script {
	x := body
	mods := map[string]string{}
	var needs []string
	imports := func() string {
		s := ""
		for _, m := range needs {
			s += "import " + m + "\n"
		}
		return s
	}
	for i := len(path) - 1; i >= 0; i-- {
		switch path[i] {
		case 'c':
			x = "func() { return " + x + " }()"
		case 'b':
			x = "[0].map(func(_v) { return " + x + " })[0]"
		case 's':
			x = "spawn(func() { return " + x + " }).wait()"
		case 'g':
			x = "func() { ch := chan(1); go func(ch) { r := " + x + "; ch <- r }(ch); return <-ch }()"
		case 'm':
			x = "func() { return " + x + " }.spawn().wait()"
		case 'k':
			x = "clonecall(func() { return " + x + " })"
		case 'i':
			name := fmt.Sprintf("m%d", len(mods))
			mods[name] = imports() + "func f() { return " + x + " }\n"
			x = name + ".f()"
			needs = []string{name}
		case 'I':
			name := fmt.Sprintf("m%d", len(mods))
			mods[name] = imports() + "r := " + x + "\n"
			x = name + ".r"
			needs = []string{name}
		}
	}
	main := imports() + "func entry() { return " + x + " }\n"
	if !hostCall {
		main += x + "\n"
	}
	return c12Script{main: main, modules: mods}
}

// c12PRun evaluates one process session on the real code.  `progress` is told about every completed step.
func c12PRun(w *c12World, cs c12PCase, progress func(step int, ans string)) (out c12PResult) {
	w.nextCase()
	n := len(cs.Steps)
	out.Ans = make([]string, n)
	for i := range out.Ans {
		out.Ans[i] = "<none>"
	}
	var mu sync.Mutex
	cfg := c12PConfig(cs.Mask)
	var stdoutF, stderrF *ros.BufferFile
	var opts []ros.Option
	if c12PHas(cs.Mask, "H") {
		opts = append(opts, ros.WithExitHandler(func(code int) {
			mu.Lock()
			out.Handled = append(out.Handled, int64(code))
			mu.Unlock()
		}))
	}
	if c12PHas(cs.Mask, "I") {
		opts = append(opts, ros.WithStdin(ros.NewBufferFile([]byte(c12PStdin))))
	}
	if c12PHas(cs.Mask, "O") {
		stdoutF = ros.NewBufferFile(nil)
		opts = append(opts, ros.WithStdout(stdoutF))
	}
	if c12PHas(cs.Mask, "E") {
		stderrF = ros.NewBufferFile(nil)
		opts = append(opts, ros.WithStderr(stderrF))
	}
	if c12PHas(cs.Mask, "A") {
		opts = append(opts, ros.WithArgs(cfg.args))
	}
	if c12PHas(cs.Mask, "P") {
		opts = append(opts, ros.WithPid(cfg.pid))
	}
	if c12PHas(cs.Mask, "U") {
		opts = append(opts, ros.WithUid(cfg.uid))
	}
	if c12PHas(cs.Mask, "N") {
		opts = append(opts, ros.WithHostname(cfg.host))
	}
	if c12PHas(cs.Mask, "C") {
		opts = append(opts, ros.WithCwd(cfg.cwd))
	}
	if c12PHas(cs.Mask, "V") {
		opts = append(opts, ros.WithEnvironment(cfg.env))
	}
	if c12PHas(cs.Mask, "T") {
		opts = append(opts, ros.WithTmp(cfg.tmp))
	}
	if c12PHas(cs.Mask, "D") {
		opts = append(opts, ros.WithUserHomeDir(cfg.home), ros.WithUserCacheDir(cfg.cache), ros.WithUserConfigDir(cfg.config))
	}
	if c12PHas(cs.Mask, "M") {
		mk := func() *c12FS {
			return &c12FS{nodes: map[string]*c12Node{"/": {dir: true, mode: os.ModeDir | 0o755}}}
		}
		opts = append(opts, ros.WithMounts(map[string]*ros.Mount{
			"/":    {Source: mk(), Target: "/", Type: "mem"},
			"/mnt": {Source: mk(), Target: "/mnt", Type: "mem"},
		}))
	}
	if c12PHas(cs.Mask, "W") {
		opts = append(opts, ros.WithCurrentUser(&ros.VirtualUser{}))
	}
	if c12PHas(cs.Mask, "G") {
		opts = append(opts, ros.WithGroup(&ros.VirtualGroup{}))
	}
	vos := ros.NewVirtualOS(context.Background(), opts...)

	var body strings.Builder
	body.WriteString("func() { ")
	for i, s := range cs.Steps {
		fmt.Fprintf(&body, "prec(%d, try(func() { return %s }, func(e) { return \"ERR:\" + string(e) })); ", i, s.text(w.vsubst))
	}
	body.WriteString("return \"done\" }()")
	hostCall := strings.HasPrefix(cs.Ctx, "K")
	script := c12PBuild(body.String(), strings.TrimPrefix(cs.Ctx, "K"), hostCall)

	prec := object.NewBuiltin("prec", func(ctx context.Context, args ...object.Object) object.Object {
		if len(args) != 2 {
			return object.Nil
		}
		i, ok := args[0].(*object.Int)
		if !ok || i.Value() < 0 || int(i.Value()) >= n {
			return object.Nil
		}
		v := args[1].Inspect()
		if s, ok := args[1].(*object.String); ok {
			v = s.Value()
		}
		mu.Lock()
		out.Ans[i.Value()] = v
		mu.Unlock()
		if progress != nil {
			progress(int(i.Value()), v)
		}
		return object.Nil
	})
	clonecall := object.NewBuiltin("clonecall", func(ctx context.Context, args ...object.Object) object.Object {
		fn, ok := args[0].(*object.Function)
		if !ok {
			return object.Errorf("clonecall: expected a function")
		}
		call, ok := object.GetCloneCallFunc(ctx)
		if !ok {
			return object.Errorf("clonecall: no clone-call function in the context")
		}
		res, err := call(ctx, fn, args[1:])
		if err != nil {
			return object.NewError(err)
		}
		return res
	})
	base := []risor.Option{risor.WithConcurrency(), risor.WithGlobal("clonecall", clonecall), risor.WithGlobal("prec", prec)}
	imp := &c12Importer{sources: script.modules, names: risor.NewConfig(base...).GlobalNames()}
	ropts := append(append([]risor.Option{}, base...), risor.WithImporter(imp))
	ctx, cancel := context.WithTimeout(context.Background(), 20*time.Second)
	defer cancel()
	if cs.Route == "W" {
		ropts = append(ropts, risor.WithOS(vos))
	} else {
		ctx = ros.WithOS(ctx, vos)
	}
	err := func() (err error) {
		defer func() {
			if r := recover(); r != nil {
				err = fmt.Errorf("panic: %v", r)
			}
		}()
		rcfg := risor.NewConfig(ropts...)
		ast, err := parser.Parse(ctx, script.main)
		if err != nil {
			return fmt.Errorf("compile: %v", err)
		}
		code, err := compiler.Compile(ast, rcfg.CompilerOpts()...)
		if err != nil {
			return fmt.Errorf("compile: %v", err)
		}
		m := vm.New(code, rcfg.VMOpts()...)
		if err := m.Run(ctx); err != nil {
			return err
		}
		if hostCall {
			c, err := m.Clone()
			if err != nil {
				return fmt.Errorf("clone: %v", err)
			}
			obj, err := c.Get("entry")
			if err != nil {
				return err
			}
			fn, ok := obj.(*object.Function)
			if !ok {
				return fmt.Errorf("entry is %T", obj)
			}
			_, err = c.Call(ctx, fn, nil)
			return err
		}
		return nil
	}()
	if err != nil {
		out.Err = err.Error()
	}
	if stdoutF != nil {
		out.Stdout = string(stdoutF.Bytes())
	}
	if stderrF != nil {
		out.Stderr = string(stderrF.Bytes())
	}
	out.Effects = w.realEffects()
	// values of the real process in an answer
	realArgs := strings.Join(os.Args, "\n")
	for i, s := range cs.Steps {
		g := out.Ans[i]
		where := fmt.Sprintf("step %d %s answered %s", i+1, s.text(w.vsubst), strconv.Quote(c12_trunc(g, 80)))
		switch {
		case strings.Contains(g, "REAL-"):
			out.Leaks = append(out.Leaks, where+", content of the real process (stdin/environment sentinel)")
		case s.Op == "os.getpid" && g == w.realPid && cfg.pid != os.Getpid():
			out.Leaks = append(out.Leaks, where+", the pid of the real process")
		case s.Op == "os.hostname" && g == w.realHost && g != cfg.host:
			out.Leaks = append(out.Leaks, where+", the host name of the real process")
		case s.Op == "os.args" && g == realArgs && g != strings.Join(cfg.args, "\n"):
			out.Leaks = append(out.Leaks, where+", the arguments of the real process")
		case s.Op == "os.getwd" && strings.Contains(g, w.T):
			out.Leaks = append(out.Leaks, where+", the working directory of the real process")
		}
		if real := c12PRealLookup(w, s); real != "" && g == real {
			out.Leaks = append(out.Leaks, where+", the entry of the real user database")
		}
	}
	return out
}

// what the real user database answers to a lookup step ("" for other steps, misses and empty answers)
func c12PRealLookup(w *c12World, s c12PStep) string {
	arg := w.vsubst(s.arg0())
	switch s.Op {
	case "os.current_user":
		if u, err := user.Current(); err == nil {
			return u.HomeDir
		}
	case "os.lookup_user":
		if u, err := user.Lookup(arg); err == nil {
			return u.HomeDir
		}
	case "os.lookup_uid":
		if u, err := user.LookupId(arg); err == nil {
			return u.Username
		}
	case "os.lookup_group":
		if g, err := user.LookupGroup(arg); err == nil {
			return g.Gid
		}
	case "os.lookup_gid":
		if g, err := user.LookupGroupId(arg); err == nil {
			return g.Name
		}
	}
	return ""
}

// harness C12-proc-child <cases.json> <out.jsonl>: one {"start":i} per case, one {"at":i,"step":k,"ans":…}
// per completed step, one {"done":i,"res":…} per completed case.
func c12PChild(args []string) {
	if len(args) != 2 {
		os.Exit(2)
	}
	b, err := os.ReadFile(args[0])
	if err != nil {
		os.Exit(2)
	}
	var cases []c12PCase
	if err := json.Unmarshal(b, &cases); err != nil {
		os.Exit(2)
	}
	out, err := os.OpenFile(args[1], os.O_CREATE|os.O_WRONLY|os.O_APPEND, 0o644)
	if err != nil {
		os.Exit(2)
	}
	w, err := c12NewWorld()
	if err != nil {
		os.Exit(2)
	}
	var mu sync.Mutex
	for i, cs := range cases {
		fmt.Fprintf(out, "{\"start\":%d}\n", i)
		res := c12PRun(w, cs, func(step int, ans string) {
			line, _ := json.Marshal(map[string]any{"at": i, "step": step, "ans": ans})
			mu.Lock()
			out.Write(append(line, '\n'))
			mu.Unlock()
		})
		line, _ := json.Marshal(map[string]any{"done": i, "res": res})
		mu.Lock()
		out.Write(append(line, '\n'))
		mu.Unlock()
	}
	out.Close()
	w.close()
	// a status no script of the pools asks for: the parent can tell a regular end from a script's exit
	os.Exit(97)
}

// ---------------------------------------------------------------- the parent: children, verdicts

type c12PDeath struct {
	status int      // exit status of the child (-1: killed by a signal / timeout)
	steps  []string // answers of the steps completed before the process died
}

const c12PChildOK = 97

// c12PRunChildren runs the cases in child processes, a batch at a time.  A child that dies inside a case
// is resumed after that case.  After maxDeaths terminated children no further case is run.
func c12PRunChildren(e *Env, cases []c12PCase, maxDeaths int) (done map[int]c12PResult, deaths map[int]c12PDeath, notRun int) {
	done, deaths = map[int]c12PResult{}, map[int]c12PDeath{}
	self, err := os.Executable()
	if err != nil {
		e.R.Note("cannot find own executable: %v", err)
		return done, deaths, len(cases)
	}
	dir, err := os.MkdirTemp("", "verif-c12-proc-")
	if err != nil {
		e.R.Note("cannot create a directory for the child processes: %v", err)
		return done, deaths, len(cases)
	}
	defer os.RemoveAll(dir)
	idx := make([]int, len(cases))
	for i := range idx {
		idx[i] = i
	}
	round := 0
	for len(idx) > 0 {
		if len(deaths) >= maxDeaths {
			return done, deaths, len(idx)
		}
		round++
		batch := idx
		if len(batch) > 500 {
			batch = batch[:500]
		}
		var cs []c12PCase
		for _, i := range batch {
			cs = append(cs, cases[i])
		}
		in := filepath.Join(dir, fmt.Sprintf("in-%d.json", round))
		res := filepath.Join(dir, fmt.Sprintf("out-%d.jsonl", round))
		b, _ := json.Marshal(cs)
		os.WriteFile(in, b, 0o644)
		ctx, cancel := context.WithTimeout(context.Background(), 300*time.Second)
		cmd := exec.CommandContext(ctx, self, "C12-proc-child", in, res)
		cmd.Stdout, cmd.Stderr = nil, nil
		cmd.Dir = dir
		cmd.Env = append(os.Environ(), "TMPDIR="+dir)
		cmd.Run()
		cancel()
		status := -1
		if cmd.ProcessState != nil {
			status = cmd.ProcessState.ExitCode()
		}
		data, _ := os.ReadFile(res)
		os.Remove(res)
		os.Remove(in)
		started, finished := -1, -1
		partial := map[int][]string{}
		for _, line := range bytes.Split(data, []byte("\n")) {
			if len(line) == 0 {
				continue
			}
			var m struct {
				Start *int        `json:"start"`
				At    *int        `json:"at"`
				Ans   string      `json:"ans"`
				Done  *int        `json:"done"`
				Res   *c12PResult `json:"res"`
			}
			if json.Unmarshal(line, &m) != nil {
				continue
			}
			switch {
			case m.Start != nil:
				started = *m.Start
			case m.At != nil:
				partial[*m.At] = append(partial[*m.At], m.Ans)
			case m.Done != nil && m.Res != nil && *m.Done < len(batch):
				finished = *m.Done
				done[batch[finished]] = *m.Res
			}
		}
		if finished == len(batch)-1 {
			if status != c12PChildOK {
				e.R.Note("process sessions: a child finished all its cases but ended with status %d", status)
			}
			idx = idx[len(batch):]
			continue
		}
		if started > finished && started < len(batch) {
			deaths[batch[started]] = c12PDeath{status: status, steps: partial[started]}
			idx = idx[started+1:]
		} else {
			e.R.Note("process sessions: child produced no usable output in round %d (status %d)", round, status)
			e.R.Mismatch("process sessions, round "+strconv.Itoa(round), fmt.Sprintf("child status %d, no record", status), "-", "child process (harness)")
			idx = idx[len(batch):]
		}
	}
	return done, deaths, 0
}

func c12PRequest(w *c12World, cs c12PCase) string {
	c := c12PConfig(cs.Mask)
	var env []string
	for _, k := range sortedKeys(c.env) {
		env = append(env, Hex(k)+"="+Hex(c.env[k]))
	}
	list := func(l []string) string {
		if len(l) == 0 {
			return "-"
		}
		var h []string
		for _, x := range l {
			h = append(h, Hex(x))
		}
		return strings.Join(h, ",")
	}
	envS := "-"
	if len(env) > 0 {
		envS = strings.Join(env, ",")
	}
	flags := ""
	for _, p := range [][2]string{{"H", "h"}, {"O", "o"}, {"E", "e"}, {"W", "u"}, {"G", "g"}} {
		if c12PHas(cs.Mask, p[0]) {
			flags += p[1]
		}
	}
	if flags == "" {
		flags = "-"
	}
	stdin := ""
	if c12PHas(cs.Mask, "I") {
		stdin = c12PStdin
	}
	var steps []string
	for _, s := range cs.Steps {
		steps = append(steps, s.modelStep(w.vsubst))
	}
	return strings.Join([]string{"C12", "vproc", Hex(c.cwd), envS, Hex(c.tmp), Hex(c.home), Hex(c.cache), Hex(c.config), Hex(c.host),
		strconv.Itoa(c.pid), strconv.Itoa(c.uid), list(c.args), list(c.mounts), flags, Hex(stdin), strings.Join(steps, ";")}, "\t")
}

type c12PModel struct {
	ans      []string // per step, protocol form
	handled  string
	stdout   string
	stderr   string
	realExit string
}

func c12PParseReply(reply string, n int) (m c12PModel, err error) {
	if strings.HasPrefix(reply, "error") || reply == "" {
		return m, fmt.Errorf("oracle: %s", reply)
	}
	f := strings.Split(reply, "\t")
	if len(f) != n+1 || !strings.HasPrefix(f[n], "H") {
		return m, fmt.Errorf("oracle reply has %d fields for %d steps", len(f), n)
	}
	m.ans = f[:n]
	h := strings.Split(f[n][1:], ";")
	if len(h) != 4 {
		return m, fmt.Errorf("malformed host view %q", f[n])
	}
	ints := func(s string) string {
		if s == "-" {
			return ""
		}
		return s
	}
	m.handled, m.stdout, m.stderr, m.realExit = ints(h[0]), UnHex(h[1]), UnHex(h[2]), ints(h[3])
	return m, nil
}

func c12PInts(l []int64) string {
	var s []string
	for _, x := range l {
		s = append(s, strconv.FormatInt(x, 10))
	}
	return strings.Join(s, ",")
}

// compare the answers of the executed steps with the model; `got` may be shorter than the script (death)
func c12PCompareAns(cs c12PCase, got []string, m c12PModel, add func(g, mod, what string)) {
	for i, g := range got {
		if i >= len(m.ans) {
			break
		}
		x := m.ans[i]
		where := fmt.Sprintf("step %d %s: ", i+1, cs.Steps[i].text(func(s string) string { return s }))
		isErr := strings.HasPrefix(g, "ERR:")
		switch x[0] {
		case 'n':
			if g != "nil" {
				add(where+g, "nil", "answer vs model")
			}
		case 's':
			if mv := UnHex(x[1:]); g != mv {
				add(where+c12_trunc(g, 120), mv, "answer vs model")
			}
		case 'i':
			if g != x[1:] {
				add(where+g, x[1:], "answer vs model")
			}
		case 'l', 'e':
			var items []string
			if len(x) > 1 {
				for _, h := range strings.Split(x[1:], ",") {
					if x[0] == 'e' {
						kv := strings.Split(h, "=")
						items = append(items, UnHex(kv[0])+"="+UnHex(kv[1]))
					} else {
						items = append(items, UnHex(h))
					}
				}
			}
			if x[0] == 'e' {
				sort.Strings(items)
			}
			if mv := strings.Join(items, "\n"); g != mv {
				add(where+c12_trunc(g, 120), mv, "answer vs model")
			}
		case 'E':
			if !isErr {
				add(where+c12_trunc(g, 120), "an error", "answer vs model")
			}
		case 'A', '~':
			if g != "<none>" {
				add(where+c12_trunc(g, 120), map[byte]string{'A': "the script ends at this step", '~': "the step is not executed"}[x[0]], "answer vs model")
			}
		default:
			add(where+g, x, "unknown model reply")
		}
	}
}

func c12RunProcessSessions(e *Env, w *c12World) {
	id := func(s string) string { return s }
	var exitForms []c12PStep
	var observers []c12PStep // one instance of every non-exit operation with every argument
	for i := range c12POps {
		op := &c12POps[i]
		var argss [][]string
		if len(op.args) == 0 {
			argss = [][]string{nil}
		} else {
			for _, a := range c12PPools[op.args[0]] {
				argss = append(argss, []string{a})
			}
		}
		for _, a := range argss {
			if op.kind == "exit" {
				exitForms = append(exitForms, c12PStep{op.name, a})
			} else {
				observers = append(observers, c12PStep{op.name, a})
			}
		}
	}
	var cases []c12PCase
	n := 0
	route := func() string { n++; return []string{"W", "X"}[n%2] }
	ctxKinds := []string{"", "c", "b", "s", "m", "k", "i", "I", "K", "g"}
	fixCtx := func(cs *c12PCase) {
		if cs.abortAt() >= 0 {
			// a fatal error inside `go func(){ …; ch <- r }()` never reaches the send: the receiver would wait for the deadline
			cs.Ctx = strings.ReplaceAll(cs.Ctx, "g", "s")
		}
	}
	hMask := 1 // bit of the exit handler
	// directed 0: every exit form alone, at top level, under the default VirtualOS and under one with only a handler
	for _, f := range exitForms {
		for _, mask := range []int{0, hMask} {
			cases = append(cases, c12PCase{Mask: mask, Route: route(), Ctx: "", Steps: []c12PStep{f}})
		}
	}
	// directed 1: every combination of handler/stdin/stdout/stderr x {no other option, every other option} x every
	// exit form, between two observers, the context kinds in rotation
	for sub := 0; sub < 16; sub++ {
		for _, rest := range []int{0, c12PAll &^ 15} {
			for fi, f := range exitForms {
				cs := c12PCase{Mask: sub | rest, Route: route(), Ctx: ctxKinds[(sub+fi)%len(ctxKinds)],
					Steps: []c12PStep{observers[(sub*7+fi)%len(observers)], f, observers[(sub*11+fi*3+5)%len(observers)]}}
				fixCtx(&cs)
				cases = append(cases, cs)
			}
		}
	}
	// directed 2: every context kind x every exit form x {without, with} handler
	for _, k := range ctxKinds {
		for fi, f := range exitForms {
			for _, mask := range []int{0, hMask, c12PAll &^ hMask, c12PAll} {
				if e.Quick && (mask == c12PAll&^hMask || mask == c12PAll) && fi%3 != 0 {
					continue
				}
				cs := c12PCase{Mask: mask, Route: route(), Ctx: k, Steps: []c12PStep{{"os.getpid", nil}, f, {"os.hostname", nil}}}
				fixCtx(&cs)
				cases = append(cases, cs)
			}
		}
	}
	// directed 3: every observer alone under no option, every option, and each option alone / each option missing
	masks := []int{0, c12PAll}
	for i := range c12POpts {
		masks = append(masks, 1<<i, c12PAll&^(1<<i))
	}
	for oi, ob := range observers {
		for mi, mask := range masks {
			if e.Quick && mi >= 2 && (oi+mi)%4 != 0 {
				continue
			}
			cases = append(cases, c12PCase{Mask: mask, Route: route(), Ctx: ctxKinds[(oi+mi)%len(ctxKinds)], Steps: []c12PStep{ob}})
		}
	}
	// random sessions; thorough: every one of the 2^15 option combinations at least once
	rng := e.Rng.Fork()
	genSteps := func() []c12PStep {
		var steps []c12PStep
		for j, l := 0, 1+rng.Intn(7); j < l; j++ {
			if rng.Chance(35) {
				f := exitForms[rng.Intn(len(exitForms))]
				// most sessions go on after their exits: prefer the forms that do not end the script
				if f.aborts() && rng.Chance(60) {
					f = []c12PStep{{"os.exit()", nil}, {"os.exit(n)", []string{"0"}}, {"os.exit(bad type)", []string{c12PPools["BADARG"][rng.Intn(len(c12PPools["BADARG"]))]}}}[rng.Intn(3)]
				}
				steps = append(steps, f)
			} else {
				steps = append(steps, observers[rng.Intn(len(observers))])
			}
		}
		return steps
	}
	genCtx := func() string {
		depth := []int{0, 1, 1, 2, 2, 3}[rng.Intn(6)]
		letters := "cbsgmkiI"
		p := ""
		if rng.Chance(15) {
			p = "K"
		}
		for len(p) < depth {
			l := letters[rng.Intn(len(letters))]
			if l == 'I' && p != "" && strings.Trim(p, "I") != "" {
				continue // a module body runs once, at import: only as an outermost prefix
			}
			p += string(l)
		}
		return p
	}
	nr := 3000
	if !e.Quick {
		nr = 30000
		for mask := 0; mask <= c12PAll; mask++ {
			cs := c12PCase{Mask: mask, Route: []string{"W", "X"}[rng.Intn(2)], Ctx: genCtx(), Steps: genSteps()}
			fixCtx(&cs)
			cases = append(cases, cs)
		}
	}
	for i := 0; i < nr; i++ {
		mask := rng.Intn(c12PAll + 1)
		if rng.Chance(50) {
			mask &^= hMask // the default — no exit handler — in at least three quarters of the sessions
		}
		cs := c12PCase{Mask: mask, Route: []string{"W", "X"}[rng.Intn(2)], Ctx: genCtx(), Steps: genSteps()}
		fixCtx(&cs)
		cases = append(cases, cs)
	}

	reqs := make([]string, len(cases))
	for i, c := range cases {
		reqs[i] = c12PRequest(w, c)
	}
	replies := e.O.AskBatch(reqs)
	const maxDeaths = 40
	done, deaths, notRun := c12PRunChildren(e, cases, maxDeaths)

	for i, cs := range cases {
		res, ok := done[i]
		death, died := deaths[i]
		if !ok && !died {
			continue // not run (the children kept dying: see the note below)
		}
		key := cs.key()
		e.R.Case(key, true)
		e.R.H("proc_route", map[string]string{"W": "risor.WithOS", "X": "OS in the context"}[cs.Route])
		e.R.H("proc_steps", strconv.Itoa(len(cs.Steps)))
		e.R.H("proc_exit_handler", map[bool]string{true: "configured", false: "absent (default)"}[c12PHas(cs.Mask, "H")])
		e.R.H("proc_options_present", strconv.Itoa(strings.Count(strconv.FormatInt(int64(cs.Mask), 2), "1")))
		for bi, o := range c12POpts {
			if cs.Mask&(1<<bi) != 0 {
				e.R.H("proc_option", o.name)
			}
		}
		if cs.Ctx == "" {
			e.R.H("proc_context", "top level")
		}
		for j := 0; j < len(cs.Ctx); j++ {
			e.R.H("proc_context", c12PCtxNames[cs.Ctx[j]])
		}
		for _, s := range cs.Steps {
			e.R.H("proc_op", s.Op)
			if c12POpByName(s.Op).kind == "exit" {
				form := s.Op
				if s.Op == "os.exit(n)" {
					form = "os.exit(" + s.arg0() + ")"
				}
				e.R.H("proc_exit_form", form+map[bool]string{true: " without handler", false: " with handler"}[!c12PHas(cs.Mask, "H")])
			}
		}
		m, err := c12PParseReply(replies[i], len(cs.Steps))
		if err != nil {
			e.R.Mismatch(key, "-", replies[i], "oracle reply")
			continue
		}
		mis := func(g, mod, what string) { e.R.Mismatch(key, g, mod, "VirtualOS process session: "+what) }

		if died {
			// ---- the child was terminated while it ran this case
			e.R.H("proc_outcome", "the real process was terminated")
			k := len(death.steps)
			stepText := "before the first step"
			var code int64
			hasCode := false
			if k < len(cs.Steps) {
				stepText = fmt.Sprintf("step %d %s", k+1, cs.Steps[k].text(id))
				code, hasCode = cs.Steps[k].exitCode()
			}
			detail := fmt.Sprintf("the process running the script was terminated (exit status %d) while executing %s under a VirtualOS built %s (options given: %s; %s; %s)",
				death.status, stepText, map[bool]string{true: "WITH an exit handler", false: "WITHOUT an exit handler (the default)"}[c12PHas(cs.Mask, "H")],
				c12PMaskText(cs.Mask), map[string]string{"W": "risor.WithOS", "X": "OS in the context"}[cs.Route], cs.ctxText())
			if hasCode && death.status == int(code&0xff) {
				detail += fmt.Sprintf(": the exit status is the script's exit code %d (mod 256) and no result record was written — the script's exit reached the real os.Exit", code)
			} else {
				detail += ": no result record was written — the real os.Exit (or a crash) was reached"
			}
			detail += fmt.Sprintf("; %d step(s) had answered before: %s. Spec: a host-supplied OS absorbs the exit (VirtualOS: handler if configured, nothing otherwise); the real process is never terminated by a script", k, c12_trunc(strings.Join(death.steps, " | "), 200))
			e.R.Spec(key, detail, "")
			c12PCompareAns(cs, death.steps, m, mis)
			if m.realExit == "" {
				mis(fmt.Sprintf("process terminated with status %d at %s", death.status, stepText), "the real process is not terminated (realExit = [])", "termination vs model")
			}
			continue
		}

		// ---- the case completed: correspondence
		if strings.HasPrefix(res.Err, "compile: ") {
			e.R.Mismatch(key, res.Err, "-", "generated script does not compile (harness defect)")
			continue
		}
		if strings.Contains(res.Err, "panic") {
			mis(c12_trunc(res.Err, 200), "no panic", "panic inside risor")
		}
		c12PCompareAns(cs, res.Ans, m, mis)
		abortAt := -1
		for j, x := range m.ans {
			if x == "A" {
				abortAt = j
			}
		}
		if abortAt >= 0 {
			e.R.H("proc_outcome", "script ended at an exit (fatal error), process alive")
			if res.Err == "" {
				mis("the script completed without an error", fmt.Sprintf("the script ends at step %d with a fatal error", abortAt+1), "end of script vs model")
			}
		} else {
			e.R.H("proc_outcome", "script completed, process alive")
			if res.Err != "" {
				mis("script failed: "+c12_trunc(res.Err, 200), "the script completes", "end of script vs model")
			}
		}
		if g := c12PInts(res.Handled); g != m.handled {
			mis("exit handler received ["+g+"]", "["+m.handled+"]", "calls of the host's exit handler vs model")
		}
		if res.Stdout != m.stdout {
			mis("host stdout file holds "+strconv.Quote(c12_trunc(res.Stdout, 120)), strconv.Quote(m.stdout), "content of the host's stdout file vs model")
		}
		if res.Stderr != m.stderr {
			mis("host stderr file holds "+strconv.Quote(c12_trunc(res.Stderr, 120)), strconv.Quote(m.stderr), "content of the host's stderr file vs model")
		}
		if m.realExit != "" {
			mis("the process survived", "the real process is terminated with ["+m.realExit+"]", "termination vs model")
		}
		// ---- Spec on the real results
		var bad []string
		for _, eff := range res.Effects {
			bad = append(bad, "the real process was reached: "+eff)
		}
		bad = append(bad, res.Leaks...)
		if len(bad) > 0 {
			e.R.H("proc_spec", "violated")
			e.R.Spec(key, c12_trunc(strings.Join(bad, "; "), 1500), "")
		} else {
			e.R.H("proc_spec", "holds")
		}
	}
	e.R.Note("%d VirtualOS process sessions in child processes (%d completed, %d terminated the child)", len(done)+len(deaths), len(done), len(deaths))
	if notRun > 0 {
		e.R.Note("process sessions: stopped after %d sessions had terminated their child process; %d generated sessions were not run and are not counted", len(deaths), notRun)
	}
}
