package main

// C15, second part — values that carry something BESIDES what `==` may look at:
//
//   * error objects whose Go error has an identity, a Go type and a chain of wrapped errors
//     (errors.New twins, fmt.Errorf("…%w"), errors.Join, errz.*Error wrappers, the same through
//     the script functions errors.new / fmt.errorf / errors.type_error / try): Error.Equals and
//     Error.Compare against the Lean model of error objects (`errpair`), the laws on every ordered
//     pair and same-type triple of each family, also lifted into lists and maps;
//   * set, map and list OBJECTS reached through a history — mutations through every entry point
//     (methods and the Container interface behind delete() / index assignment) interleaved with
//     observations (printing, iterating, list(), sorted(), keys(), JSON, ==) — with the
//     hash-based view (in, len, truthiness) compared with the order-based view (iteration,
//     SortedItems / SortedKeys, list(), sorted()) after every step, on the object API and through
//     scripts, against the Lean history model (`sethist`, `maphist`).

import (
	"context"
	"encoding/json"
	"errors"
	"fmt"
	"sort"
	"strconv"
	"strings"

	"github.com/risor-io/risor"
	"github.com/risor-io/risor/builtins"
	"github.com/risor-io/risor/errz"
	"github.com/risor-io/risor/object"
)

// ---------------------------------------------------------------- error objects

type c15GoErr struct {
	err   error
	id    int
	cls   int   // 0 errors.New, 1 fmt.Errorf %w, 2 errors.Join, 3/4/5 errz.Eval/Args/TypeError
	wraps []int // ids of all errors reachable through Unwrap, sorted
}

type c15ErrObj struct {
	obj *object.Error
	ge  *c15GoErr
}

func c15WrapsUnion(parts ...*c15GoErr) []int {
	set := map[int]bool{}
	for _, p := range parts {
		set[p.id] = true
		for _, w := range p.wraps {
			set[w] = true
		}
	}
	out := make([]int, 0, len(set))
	for k := range set {
		out = append(out, k)
	}
	sort.Ints(out)
	return out
}

var c15ErrMsgs = []string{"not found", "x", "", "é", "load config: not found", "x: x", "not found\nx"}
var c15ErrPrefixes = []string{"", "", "load config: ", "x: "}

// errFamily builds a few Go errors related by wrapping / joining / equal messages and the
// error objects that hold them (some Go errors held by two objects with different raised flags).
func (g *c15Gen) errFamily() []c15ErrObj {
	r := g.rng
	var nodes []*c15GoErr
	add := func(err error, cls int, wraps []int) {
		nodes = append(nodes, &c15GoErr{err: err, id: len(nodes), cls: cls, wraps: wraps})
	}
	add(errors.New(Pick(r, c15ErrMsgs)), 0, nil)
	n := 3 + r.Intn(4)
	for len(nodes) < n {
		switch r.Intn(10) {
		case 0:
			add(errors.New(Pick(r, c15ErrMsgs)), 0, nil)
		case 1, 2: // a twin: same message, another identity
			add(errors.New(Pick(r, nodes).err.Error()), 0, nil)
		case 3, 4, 5, 6:
			in := Pick(r, nodes)
			add(fmt.Errorf(Pick(r, c15ErrPrefixes)+"%w", in.err), 1, c15WrapsUnion(in))
		case 7:
			a, b := Pick(r, nodes), Pick(r, nodes)
			add(errors.Join(a.err, b.err), 2, c15WrapsUnion(a, b))
		default:
			in := Pick(r, nodes)
			switch r.Intn(3) {
			case 0:
				add(errz.NewEvalError(in.err), 3, c15WrapsUnion(in))
			case 1:
				add(errz.NewArgsError(in.err), 4, c15WrapsUnion(in))
			default:
				add(errz.NewTypeError(in.err), 5, c15WrapsUnion(in))
			}
		}
	}
	var objs []c15ErrObj
	for _, nd := range nodes {
		raised := r.Chance(35)
		objs = append(objs, c15ErrObj{object.NewError(nd.err).WithRaised(raised), nd})
		if r.Chance(30) && len(objs) < 9 {
			objs = append(objs, c15ErrObj{object.NewError(nd.err).WithRaised(!raised), nd})
		}
	}
	return objs
}

func c15ErrObjField(o c15ErrObj) string {
	w := "-"
	if len(o.ge.wraps) > 0 {
		parts := make([]string, len(o.ge.wraps))
		for i, x := range o.ge.wraps {
			parts[i] = strconv.Itoa(x)
		}
		w = strings.Join(parts, ",")
	}
	return fmt.Sprintf("%d %d %s %s %s", o.ge.id, o.ge.cls, Hex(o.ge.err.Error()), c15b01(o.obj.IsRaised()), w)
}

var c15ErrCls = []string{"errors.New", "fmt.Errorf %w", "errors.Join", "errz.EvalError", "errz.ArgsError", "errz.TypeError"}

// c15ErrFamilyCase: every ordered pair of a family against the Lean model of error objects, then
// the family (and members lifted into lists / a map) through the general pair / triple machinery.
func c15ErrFamilyCase(e *Env, g *c15Gen, scripts bool) {
	objs := g.errFamily()
	n := len(objs)
	fields := make([]string, n)
	for i, o := range objs {
		fields[i] = c15ErrObjField(o)
	}
	reqs := make([]string, 0, n*n)
	for i := 0; i < n; i++ {
		for j := 0; j < n; j++ {
			reqs = append(reqs, "C15\terrpair\t"+fields[i]+"\t"+fields[j])
		}
	}
	reps := e.O.AskBatch(reqs)
	for i := 0; i < n; i++ {
		for j := 0; j < n; j++ {
			a, b := objs[i], objs[j]
			key := "errpair " + fields[i] + " | " + fields[j]
			e.R.Case(key, i != j)
			var eq, qe, is, si bool
			var cmp, pmc string
			if p := c15Guard(func() {
				eq, qe = object.Equals(a.obj, b.obj), object.Equals(b.obj, a.obj)
				cmp, pmc = c15Cmp(a.obj, b.obj), c15Cmp(b.obj, a.obj)
				is, si = errors.Is(a.ge.err, b.ge.err), errors.Is(b.ge.err, a.ge.err)
			}); p != "" {
				e.R.Spec(key, "comparing two error objects panicked: "+p, "")
				continue
			}
			f := c15Fields(reps[i*n+j])
			got := fmt.Sprintf("eq=%s qe=%s cmp=%s pmc=%s", c15b01(eq), c15b01(qe), cmp, pmc)
			want := fmt.Sprintf("eq=%s qe=%s cmp=%s pmc=%s", f["eq"], f["qe"], f["cmp"], f["pmc"])
			if got != want {
				e.R.Mismatch(key, got, want, "Error.Equals / Error.Compare on error objects with wrapped Go errors vs the Lean model (errObjEquals / errObjCompare: message and raised flag only)")
			}
			if c15b01(is) != f["is"] || c15b01(si) != f["si"] {
				e.R.Mismatch(key, "is="+c15b01(is)+" si="+c15b01(si), "is="+f["is"]+" si="+f["si"], "errors.Is on the generated Go errors vs the wrap structure the generator recorded (goIs)")
			}
			rel := "unrelated"
			switch {
			case a.ge == b.ge:
				rel = "same Go error"
			case is && si:
				rel = "errors.Is both ways"
			case is || si:
				rel = "errors.Is one way (wrapper / wrapped)"
			}
			sameMsg := a.ge.err.Error() == b.ge.err.Error()
			e.R.H("err_pairs", fmt.Sprintf("%s, same message=%v, same raised=%v -> eq=%s", rel, sameMsg, a.obj.IsRaised() == b.obj.IsRaised(), c15b01(eq)))
			e.R.H("err_go_types", c15ErrCls[a.ge.cls]+" × "+c15ErrCls[b.ge.cls])
			// the laws, on the Go results
			if i == j && !eq {
				e.R.Spec(key, "== is not reflexive on an error object", "")
			}
			if eq != qe {
				e.R.Spec(key, fmt.Sprintf("== is not symmetric on error objects: a == b is %v, b == a is %v (errors.Is(a,b)=%v, errors.Is(b,a)=%v)", eq, qe, is, si), "")
			}
			if cmp != "err" && (cmp == "0") != eq {
				e.R.Spec(key, fmt.Sprintf("Error.Compare = %s but == is %v", cmp, eq), "")
			}
		}
	}
	vals := make([]object.Object, 0, n+5)
	for _, o := range objs {
		vals = append(vals, o.obj)
	}
	for k := 0; k < 3 && k < n; k++ {
		vals = append(vals, c15List(objs[g.rng.Intn(n)].obj))
	}
	vals = append(vals, c15List(objs[g.rng.Intn(n)].obj, c15I(1)), c15Map("k", objs[g.rng.Intn(n)].obj), c15Map("k", objs[g.rng.Intn(n)].obj))
	m := c15RunMatrix(e, vals, scripts, "err-")
	c15Triples(e, m, "err-")
}

// c15EvalObj runs a script and returns the resulting object ("" = no error).
func c15EvalObj(src string, g map[string]any) (o object.Object, fail string) {
	defer func() {
		if r := recover(); r != nil {
			o, fail = nil, "panic: "+fmt.Sprint(r)
		}
	}()
	res, err := risor.Eval(c15Ctx, src, risor.WithGlobals(g))
	if err != nil {
		return nil, "error: " + err.Error()
	}
	return res, ""
}

// c15ErrScriptCase: the family is built BY A SCRIPT (errors.new / fmt.errorf with %w pass the Go
// error on, so the wrapping is real; errors.type_error / eval_error give other Go types; try() hands
// a raised error to its handler) and then goes through the pair / triple machinery with scripts on.
func c15ErrScriptCase(e *Env, g *c15Gen) {
	r := g.rng
	m0 := Pick(r, []string{"not found", "x", "é", "load config: not found"})
	p1, p2 := Pick(r, c15ErrPrefixes), Pick(r, c15ErrPrefixes)
	q := strconv.Quote
	src := "base := errors.new(" + q(m0) + ")\n" +
		"twin := errors.new(" + q(m0) + ")\n" +
		"w := errors.new(" + q(p1+"%w") + ", base)\n" +
		"w0 := fmt.errorf(\"%w\", base)\n" +
		"ww := fmt.errorf(" + q(p2+"%w") + ", w)\n" +
		"t := errors.type_error(" + q(m0) + ")\n" +
		"v := errors.eval_error(" + q(p1+m0) + ")\n" +
		"c := try(func() { error(" + q(m0) + ") }, func(e) { return e })\n" +
		"[base, twin, w, w0, ww, t, v, c]"
	key := "errscript " + Hex(src)
	e.R.Case(key, true)
	res, fail := c15EvalObj(src, map[string]any{})
	lst, ok := res.(*object.List)
	if fail != "" || !ok || len(lst.Value()) != 8 {
		e.R.H("err_script", "the family script did not return its list: "+fail)
		e.R.Mismatch(key, fail, "a list of 8 error values", "a script that builds errors with errors.new / fmt.errorf / try")
		return
	}
	var vals []object.Object
	for _, it := range lst.Value() {
		eo, isErr := it.(*object.Error)
		if !isErr {
			e.R.H("err_script", "an item is not an error value: "+string(it.Type()))
			return
		}
		vals = append(vals, eo)
	}
	errs := lst.Value()
	oneWay := 0
	for _, a := range errs {
		for _, b := range errs {
			ab := errors.Is(a.(*object.Error).Value(), b.(*object.Error).Value())
			ba := errors.Is(b.(*object.Error).Value(), a.(*object.Error).Value())
			if ab != ba {
				oneWay++
			}
		}
	}
	e.R.H("err_script", fmt.Sprintf("family built by a script: %d ordered pairs with errors.Is one way only", oneWay))
	vals = append(vals, c15List(errs[0]), c15List(errs[2]), c15List(errs[3]), c15Map("k", errs[0]), c15Map("k", errs[2]))
	m := c15RunMatrix(e, vals, true, "errs-")
	c15Triples(e, m, "errs-")
}

// ---------------------------------------------------------------- containers with a history

var c15HCtx = context.Background()

func c15IterAll(it object.Iterator) []object.Object {
	var out []object.Object
	for k := 0; k < 100000; k++ {
		x, ok := it.Next(c15HCtx)
		if !ok {
			break
		}
		out = append(out, x)
	}
	return out
}

func c15EncList(items []object.Object) string {
	if len(items) == 0 {
		return "[]"
	}
	return "[" + strings.Join(c15Encs(items), " ; ") + "]"
}

func c15SameMultiset(a, b []object.Object) bool {
	x, y := c15Encs(a), c15Encs(b)
	sort.Strings(x)
	sort.Strings(y)
	return strings.Join(x, ";") == strings.Join(y, ";")
}

func c15MutuallyComparable(items []object.Object) bool {
	for i := range items {
		for j := range items {
			if _, ok := c15Less(items[i], items[j]); !ok {
				return false
			}
		}
	}
	return true
}

// c15View is what can be observed of a container at one moment: the hash-based view (in, len,
// truthiness) and the order-based views (iteration, the sorted item / key list, list(), sorted()).
type c15View struct {
	in       []bool          // `probe in c` for every probe
	n        int             // len(c)
	truthy   bool            // bool(c)
	iter     []object.Object // items (map: keys) an iterator yields
	ordered  []object.Object // SortedItems / SortedKeys / the item slice
	listed   []object.Object // list(c) / m.keys()
	sorted   []object.Object // sorted(c)
	sortedOK bool
	panicked string
}

func c15ViewOf(c object.Object, probes []object.Object) (v c15View) {
	v.panicked = c15Guard(func() {
		cont := c.(object.Container)
		for _, p := range probes {
			v.in = append(v.in, cont.Contains(p).Value())
		}
		v.n = int(cont.Len().Value())
		v.truthy = c.IsTruthy()
		v.iter = c15IterAll(cont.Iter())
		switch x := c.(type) {
		case *object.Set:
			v.ordered = x.SortedItems()
			v.listed = x.List().Value()
		case *object.Map:
			for _, k := range x.SortedKeys() {
				v.ordered = append(v.ordered, object.NewString(k))
			}
			v.listed = x.Keys().Value()
		case *object.List:
			v.ordered = append([]object.Object{}, x.Value()...)
			v.listed = x.Copy().Value()
		}
		if res, ok := builtins.Sorted(c15HCtx, c).(*object.List); ok {
			v.sorted, v.sortedOK = res.Value(), true
		}
	})
	return v
}

// c15ViewLaws: the property's laws about one container, evaluated on what the real object shows.
// sameType: set membership is read within the type of the probe.
func c15ViewLaws(kind string, v c15View, probes []object.Object) []string {
	if v.panicked != "" {
		return []string{"observing the " + kind + " panicked: " + v.panicked}
	}
	var bad []string
	iterHas := func(items []object.Object, p object.Object) bool {
		for _, it := range items {
			if kind == "set" && it.Type() != p.Type() {
				continue
			}
			if object.Equals(it, p) {
				return true
			}
		}
		return false
	}
	for i, p := range probes {
		if want := iterHas(v.iter, p); v.in[i] != want {
			bad = append(bad, fmt.Sprintf("`%s in %s` is %v but iterating the %s and comparing gives %v (iteration yields %s)", c15Enc(p), kind, v.in[i], kind, want, c15EncList(v.iter)))
			break
		}
	}
	for i, p := range probes {
		if want := iterHas(v.ordered, p); v.in[i] != want {
			bad = append(bad, fmt.Sprintf("`%s in %s` is %v but its sorted item list %s says %v", c15Enc(p), kind, v.in[i], c15EncList(v.ordered), want))
			break
		}
	}
	if v.n != len(v.iter) || v.n != len(v.ordered) || v.n != len(v.listed) {
		bad = append(bad, fmt.Sprintf("len is %d but iteration yields %d items, the sorted item list has %d, list() has %d", v.n, len(v.iter), len(v.ordered), len(v.listed)))
	}
	if v.truthy != (v.n != 0) {
		bad = append(bad, fmt.Sprintf("truthiness is %v with len %d", v.truthy, v.n))
	}
	if c15EncList(v.iter) != c15EncList(v.ordered) || c15EncList(v.listed) != c15EncList(v.ordered) {
		bad = append(bad, fmt.Sprintf("iteration %s, list() %s and the sorted item list %s differ", c15EncList(v.iter), c15EncList(v.listed), c15EncList(v.ordered)))
	}
	if v.sortedOK {
		if !c15SameMultiset(v.sorted, v.iter) || len(v.sorted) != v.n {
			bad = append(bad, fmt.Sprintf("sorted() returns %s: not a permutation of the %d items %s", c15EncList(v.sorted), v.n, c15EncList(v.iter)))
		}
	} else if c15MutuallyComparable(v.iter) {
		bad = append(bad, "sorted() fails on mutually comparable items "+c15EncList(v.iter))
	}
	if kind == "set" {
		for i := range v.iter {
			for j := i + 1; j < len(v.iter); j++ {
				if v.iter[i].Type() == v.iter[j].Type() && object.Equals(v.iter[i], v.iter[j]) {
					bad = append(bad, "two == values of one type occupy two slots: "+c15Enc(v.iter[i])+" and "+c15Enc(v.iter[j]))
				}
			}
		}
	}
	return bad
}

type c15HOp struct {
	kind byte // set: a r d c o; map: s d p f b c o; list: a i p r c o
	arg  int  // index into the value table (-1: none)
	key  string
	obs  int
}

// observation kinds that need the order-based view of the object
var c15SetObs = []string{"SortedItems", "Inspect", "Iter", "List", "Keys", "Interface", "MarshalJSON", "sorted()", "Equals(self)", "Contains+Len"}

func c15ObserveSet(s *object.Set, which int, probe object.Object) {
	switch which % len(c15SetObs) {
	case 0:
		s.SortedItems()
	case 1:
		_ = s.Inspect()
	case 2:
		c15IterAll(s.Iter())
	case 3:
		s.List()
	case 4:
		s.Keys()
	case 5:
		s.Interface()
	case 6:
		_, _ = json.Marshal(s)
	case 7:
		builtins.Sorted(c15HCtx, s)
	case 8:
		s.Equals(s)
	default:
		s.Contains(probe)
		s.Len()
	}
}

var c15SetObsSrc = []string{"string(s)", "string(s)", "for y := range s { acc = [] }", "list(s)", "keys(s)", "list(s)", "string(s)", "SORTED", "s == s", "len(s)"}

func c15Idx(xs []int) string {
	if len(xs) == 0 {
		return "."
	}
	parts := make([]string, len(xs))
	for i, x := range xs {
		parts[i] = strconv.Itoa(x)
	}
	return strings.Join(parts, ",")
}

func c15TableEnc(table []object.Object) (string, []string) {
	encs := c15Encs(table)
	if len(encs) == 0 {
		return "L 0", encs
	}
	return "L " + strconv.Itoa(len(encs)) + " " + strings.Join(encs, " "), encs
}

func c15Bits(bs []bool) string {
	var sb strings.Builder
	for _, b := range bs {
		sb.WriteString(c15b01(b))
	}
	return sb.String()
}

func c15Hashable(o object.Object) bool { _, ok := o.(object.Hashable); return ok }

// hashTable: a small universe of values that collide in interesting ways (1, 1.0, byte 1, true, "1").
func (g *c15Gen) hashTable(allowUnhashable bool) []object.Object {
	r := g.rng
	n := 3 + r.Intn(4)
	table := make([]object.Object, 0, n+1)
	for len(table) < n {
		switch {
		case len(table) > 0 && r.Chance(35):
			table = append(table, g.mutate(Pick(r, table)))
		case r.Chance(15):
			table = append(table, g.hashable())
		default:
			table = append(table, g.smallHashable())
		}
	}
	if allowUnhashable && r.Chance(25) {
		table = append(table, Pick(r, []object.Object{c15List(), c15Map(), c15Set(c15I(1)), c15List(c15I(1))}))
	}
	return table
}

// c15SetHistory: one set object, a history, every view after every step.
func c15SetHistory(e *Env, g *c15Gen, scripts, short bool) {
	r := g.rng
	table := g.hashTable(!scripts)
	tenc, encs := c15TableEnc(table)
	var hashable []int
	for i, v := range table {
		if c15Hashable(v) {
			hashable = append(hashable, i)
		}
	}
	var init []int
	for k := r.Intn(5); k > 0; k-- {
		init = append(init, Pick(r, hashable))
	}
	initItems := func() []object.Object {
		out := make([]object.Object, len(init))
		for i, x := range init {
			out[i] = table[x]
		}
		return out
	}
	so, isSet := object.NewSet(initItems()).(*object.Set)
	if !isSet {
		return
	}
	// the history: members are preferred as arguments of remove / delete(), and an observation is
	// likely right before a removal (a view taken, then the set shrunk, then viewed again)
	nOps := 2 + r.Intn(9)
	if short {
		nOps = 1 + r.Intn(3)
	}
	// every view taken by the harness is itself an observation: 60% of the histories are viewed after
	// every step, the others only after some steps (always after the last), so that mutations also
	// follow one another with nothing looking at the object in between
	viewAll := r.Chance(60)
	var ops []c15HOp
	members := func() []int {
		var out []int
		for _, i := range hashable {
			if so.Contains(table[i]).Value() {
				out = append(out, i)
			}
		}
		return out
	}
	var views []c15View
	var oks, seen []bool
	look := func(last bool) {
		if viewAll || last || r.Chance(25) {
			views, seen = append(views, c15ViewOf(so, table)), append(seen, true)
		} else {
			views, seen = append(views, c15View{}), append(seen, false)
		}
	}
	look(false)
	oks = append(oks, true)
	for len(ops) < nOps {
		op := c15HOp{arg: -1}
		switch x := r.Intn(100); {
		case x < 34:
			op.kind, op.obs = 'o', r.Intn(len(c15SetObs))
		case x < 56:
			op.kind, op.arg = 'a', r.Intn(len(table))
		case x < 70:
			op.kind = 'r'
		case x < 96:
			op.kind = 'd'
		default:
			op.kind = 'c'
		}
		if op.kind == 'r' || op.kind == 'd' {
			if ms := members(); len(ms) > 0 && r.Chance(80) {
				op.arg = Pick(r, ms)
			} else {
				op.arg = r.Intn(len(table))
			}
		}
		ok := true
		p := c15Guard(func() {
			switch op.kind {
			case 'o':
				c15ObserveSet(so, op.obs, table[0])
			case 'a':
				ok = !object.IsError(so.Add(table[op.arg]))
			case 'r':
				ok = !object.IsError(so.Remove(table[op.arg]))
			case 'd':
				ok = so.DelItem(table[op.arg]) == nil
			case 'c':
				so.Clear()
			}
		})
		ops = append(ops, op)
		if p != "" {
			e.R.Spec("sethist "+tenc+" init="+c15Idx(init), "a set operation panicked: "+p, "")
			return
		}
		look(len(ops) == nOps)
		oks = append(oks, ok)
	}
	toks := make([]string, len(ops))
	shape := ""
	for i, op := range ops {
		switch op.kind {
		case 'o', 'c':
			toks[i] = string(op.kind)
		default:
			toks[i] = string(op.kind) + strconv.Itoa(op.arg)
		}
		shape += string(op.kind)
	}
	opsField := strings.Join(toks, ",")
	key := "sethist " + tenc + " init=" + c15Idx(init) + " ops=" + opsField
	nontrivial := strings.ContainsAny(shape, "ardc")
	e.R.Case(key, nontrivial)
	e.R.H("hist_len", fmt.Sprintf("set history of %02d operations", len(ops)))
	for _, op := range ops {
		e.R.H("hist_ops", "set "+map[byte]string{'a': "add", 'r': "remove", 'd': "delete() (DelItem)", 'c': "clear", 'o': "observe"}[op.kind])
		if op.kind == 'o' {
			e.R.H("hist_observations", "set: "+c15SetObs[op.obs%len(c15SetObs)])
		}
	}
	for i := 0; i+1 < len(shape); i++ {
		if shape[i] == 'o' && shape[i+1] != 'o' {
			e.R.H("hist_patterns", "set: observation, then "+map[byte]string{'a': "add", 'r': "remove", 'd': "delete()", 'c': "clear"}[shape[i+1]]+", then every view")
		}
	}
	// the Lean history model
	rep := e.O.Ask("C15", "sethist", tenc, c15Idx(init), func() string {
		if len(toks) == 0 {
			return "."
		}
		return opsField
	}())
	states := strings.Split(rep, "|")
	if strings.HasPrefix(rep, "error") || len(states) != len(views) {
		e.R.Mismatch(key, fmt.Sprintf("%d states", len(views)), rep, "the oracle did not answer the set history")
		return
	}
	stepName := func(i int) string {
		if i == 0 {
			return "after construction"
		}
		return fmt.Sprintf("after operation %d (%s)", i, toks[i-1])
	}
	e.R.H("hist_views", map[bool]string{true: "set: every view after every step", false: "set: views after some steps only (always after the last)"}[viewAll])
	for i, v := range views {
		if !seen[i] {
			continue
		}
		f := strings.Split(states[i], " ")
		if len(f) != 3 {
			e.R.Mismatch(key, "", states[i], "malformed oracle state")
			return
		}
		var want []string
		if f[1] != "." {
			for _, t := range strings.Split(f[1], ",") {
				k, _ := strconv.Atoi(t)
				want = append(want, encs[k])
			}
		}
		got := fmt.Sprintf("ok=%s items=[%s] in=%s len=%d", c15b01(oks[i]), strings.Join(c15Encs(v.ordered), " ; "), c15Bits(v.in), v.n)
		model := fmt.Sprintf("ok=%s items=[%s] in=%s len=%d", f[0], strings.Join(want, " ; "), f[2], len(want))
		if v.panicked == "" && got != model {
			e.R.Mismatch(key+" "+stepName(i), got, model, "a set after a history (Add / Remove / DelItem / Clear and observations): SortedItems, Contains and Len vs the Lean model setHist")
		}
		for _, law := range c15ViewLaws("set", v, table) {
			e.R.Spec(key+" "+stepName(i), law, "")
		}
	}
	// == of the set with a history against a set built afresh from what it shows, both ways
	last := views[len(views)-1]
	if last.panicked == "" {
		fresh := object.NewSet(append([]object.Object{}, last.iter...))
		var ab, ba, aa bool
		if p := c15Guard(func() { ab, ba, aa = object.Equals(so, fresh), object.Equals(fresh, so), object.Equals(so, so) }); p == "" {
			if !aa {
				e.R.Spec(key, "a set with a history is not == itself", "")
			}
			if ab != ba {
				e.R.Spec(key, fmt.Sprintf("== between a set with a history and the set of its items is not symmetric: %v / %v", ab, ba), "")
			}
			if !ab && len(last.iter) == last.n {
				e.R.Spec(key, "a set with a history is not == the set built from the items it yields", "")
			}
		}
	}
	if scripts {
		c15SetHistoryScript(e, key, table, initItems(), ops, views, seen)
	}
}

// c15SnapshotObj: what the script appends to `out` after every step, built from the API views.
func c15SnapshotObj(v c15View) object.Object {
	ins := make([]object.Object, len(v.in))
	for i, b := range v.in {
		ins[i] = object.NewBool(b)
	}
	var srt object.Object = object.Nil
	if v.sortedOK {
		srt = object.NewList(v.sorted)
	}
	return object.NewList([]object.Object{object.NewInt(int64(v.n)), object.NewBool(v.truthy), object.NewList(v.listed),
		object.NewList(v.iter), object.NewList(ins), srt})
}

func c15SnapSrc(c string, nProbes int, sortedOK bool, listExpr string) string {
	ins := make([]string, nProbes)
	for i := range ins {
		ins[i] = fmt.Sprintf("v%d in %s", i, c)
	}
	srt := "nil"
	if sortedOK {
		srt = "sorted(" + c + ")"
	}
	return "acc = []\nfor x := range " + c + " { acc.append(x) }\n" +
		"out.append([len(" + c + "), bool(" + c + "), " + listExpr + ", acc, [" + strings.Join(ins, ", ") + "], " + srt + "])\n"
}

// c15ScriptLaws: the same laws on what the SCRIPT observed (snapshots = [len, bool, list, iterated, [in…], sorted|nil]).
func c15ScriptLaws(e *Env, key, kind string, out *object.List, probes []object.Object) {
	for i, snap := range out.Value() {
		sl, ok := snap.(*object.List)
		if !ok || len(sl.Value()) != 6 {
			continue
		}
		it := sl.Value()
		n, _ := it[0].(*object.Int)
		tr, _ := it[1].(*object.Bool)
		listed, _ := it[2].(*object.List)
		iter, _ := it[3].(*object.List)
		ins, _ := it[4].(*object.List)
		if n == nil || tr == nil || listed == nil || iter == nil || ins == nil || len(ins.Value()) != len(probes) {
			continue
		}
		v := c15View{n: int(n.Value()), truthy: tr.Value(), iter: iter.Value(), ordered: listed.Value(), listed: listed.Value()}
		for _, b := range ins.Value() {
			v.in = append(v.in, b.IsTruthy())
		}
		if srt, isList := it[5].(*object.List); isList {
			v.sorted, v.sortedOK = srt.Value(), true
		} else if c15MutuallyComparable(v.iter) {
			v.sorted, v.sortedOK = v.iter, true // sorted() was not asked for in this snapshot
		}
		for _, law := range c15ViewLaws(kind, v, probes) {
			e.R.Spec("script "+key+fmt.Sprintf(" snapshot %d", i), "as observed by the script: "+law, "")
		}
	}
}

func c15CompareScriptOut(e *Env, key, what string, res object.Object, fail string, views []c15View, src string) *object.List {
	want := make([]object.Object, len(views))
	for i, v := range views {
		want[i] = c15SnapshotObj(v)
	}
	out, ok := res.(*object.List)
	if fail != "" || !ok {
		e.R.Mismatch("script "+key, fail+" src="+src, "a list of snapshots", what)
		return nil
	}
	got := out.Value()
	for i := 0; i < len(want); i++ {
		g := "<missing>"
		if i < len(got) {
			g = c15Guarded(func() string { return c15Enc(got[i]) })
		}
		if w := c15Enc(want[i]); g != w {
			e.R.Mismatch(fmt.Sprintf("script %s snapshot %d", key, i), g, w, what+" ([len, bool, list, iterated, [probe in c …], sorted]) src="+src)
			break
		}
	}
	return out
}

func c15Guarded(f func() string) (s string) {
	defer func() {
		if r := recover(); r != nil {
			s = "<unrenderable: " + fmt.Sprint(r) + ">"
		}
	}()
	return f()
}

func c15SetHistoryScript(e *Env, key string, table, initItems []object.Object, ops []c15HOp, views []c15View, seen []bool) {
	for _, v := range views {
		if v.panicked != "" {
			return
		}
	}
	var shown []c15View
	for i, v := range views {
		if seen[i] {
			shown = append(shown, v)
		}
	}
	g := map[string]any{"s": object.NewSet(initItems)}
	for i, v := range table {
		g["v"+strconv.Itoa(i)] = v
	}
	var sb strings.Builder
	sb.WriteString("out := []\nacc := []\n")
	if seen[0] {
		sb.WriteString(c15SnapSrc("s", len(table), views[0].sortedOK, "list(s)"))
	}
	for i, op := range ops {
		switch op.kind {
		case 'a':
			fmt.Fprintf(&sb, "s.add(v%d)\n", op.arg)
		case 'r':
			fmt.Fprintf(&sb, "s.remove(v%d)\n", op.arg)
		case 'd':
			fmt.Fprintf(&sb, "delete(s, v%d)\n", op.arg)
		case 'c':
			sb.WriteString("s.clear()\n")
		case 'o':
			o := c15SetObsSrc[op.obs%len(c15SetObsSrc)]
			if o == "SORTED" {
				o = "string(s)" // sorted(s) raises when the items are not mutually comparable
				if seen[i] && views[i].sortedOK {
					o = "sorted(s)"
				}
			}
			sb.WriteString(o + "\n")
		}
		if seen[i+1] {
			sb.WriteString(c15SnapSrc("s", len(table), views[i+1].sortedOK, "list(s)"))
		}
	}
	sb.WriteString("out\n")
	src := sb.String()
	res, fail := c15EvalObj(src, g)
	e.R.H("hist_scripts", "set history through risor.Eval")
	if out := c15CompareScriptOut(e, key, "a set history run by a script (s.add / s.remove / delete(s, x) / s.clear, string / list / sorted / for-range) vs the object API", res, fail, shown, src); out != nil {
		c15ScriptLaws(e, key, "set", out, table)
	}
}

// ---- maps

var c15MapObs = []string{"SortedKeys", "Inspect", "Iter", "Keys", "Values", "ListItems", "Interface", "MarshalJSON", "sorted()", "Equals(self)"}

func c15ObserveMap(m *object.Map, which int) {
	switch which % len(c15MapObs) {
	case 0:
		m.SortedKeys()
	case 1:
		_ = m.Inspect()
	case 2:
		c15IterAll(m.Iter())
	case 3:
		m.Keys()
	case 4:
		m.Values()
	case 5:
		m.ListItems()
	case 6:
		m.Interface()
	case 7:
		_, _ = json.Marshal(m)
	case 8:
		builtins.Sorted(c15HCtx, m)
	default:
		m.Equals(m)
	}
}

var c15MapObsSrc = []string{"m.keys()", "string(m)", "for y := range m { acc = [] }", "keys(m)", "m.values()", "m.items()", "string(m)", "string(m)", "sorted(m)", "m == m"}

func c15KeyHex(k string) string { return Hex(k) }

// c15MapHistory: one map object, a history, every view after every step.
func c15MapHistory(e *Env, g *c15Gen, scripts, short bool) {
	r := g.rng
	// values: falsy-heavy, may be containers (no NaN, no errors)
	nv := 2 + r.Intn(4)
	table := make([]object.Object, nv)
	for i := range table {
		table[i] = g.entryValue(1)
		if _, isErr := table[i].(*object.Error); isErr {
			table[i] = object.Nil
		}
	}
	tenc, encs := c15TableEnc(table)
	keys := c15KeyUniverse
	probes := make([]object.Object, 0, len(keys)+2)
	for _, k := range keys {
		probes = append(probes, c15S(k))
	}
	probes = append(probes, c15I(0), object.Nil) // non-string probes are never members
	type kv struct {
		k string
		v int
	}
	var init []kv
	for k := r.Intn(4); k > 0; k-- {
		init = append(init, kv{Pick(r, keys), r.Intn(nv)})
	}
	build := func() *object.Map {
		m := object.NewMap(map[string]object.Object{})
		for _, e := range init {
			m.Set(e.k, table[e.v])
		}
		return m
	}
	mo := build()
	present := func() []string { return mo.SortedKeys() }
	var ops []c15HOp
	var views []c15View
	var oks []bool
	var values [][]string // value rendering per sorted key, per state
	valuesOf := func() []string {
		var out []string
		for _, k := range mo.SortedKeys() {
			out = append(out, Hex(k)+":"+c15Enc(mo.Get(k)))
		}
		return out
	}
	nOps := 2 + r.Intn(9)
	if short {
		nOps = 1 + r.Intn(3)
	}
	viewAll := r.Chance(60) // see c15SetHistory
	var seen []bool
	look := func(last bool) {
		if viewAll || last || r.Chance(25) {
			views, seen, values = append(views, c15ViewOf(mo, probes)), append(seen, true), append(values, valuesOf())
		} else {
			views, seen, values = append(views, c15View{}), append(seen, false), append(values, nil)
		}
	}
	look(false)
	oks = append(oks, true)
	for len(ops) < nOps {
		op := c15HOp{arg: -1}
		switch x := r.Intn(100); {
		case x < 32:
			op.kind, op.obs = 'o', r.Intn(len(c15MapObs))
		case x < 54:
			op.kind, op.key, op.arg = 's', Pick(r, keys), r.Intn(nv)
		case x < 78:
			op.kind = 'd'
		case x < 86:
			op.kind = 'p'
		case x < 93:
			op.kind, op.key, op.arg = 'f', Pick(r, keys), r.Intn(nv)
		case x < 97 && !scripts:
			op.kind = 'b'
		default:
			op.kind = 'c'
		}
		if op.kind == 'd' || op.kind == 'p' {
			if ks := present(); len(ks) > 0 && r.Chance(80) {
				op.key = Pick(r, ks)
			} else {
				op.key = Pick(r, keys)
			}
		}
		variant := r.Bool()
		ok := true
		p := c15Guard(func() {
			switch op.kind {
			case 'o':
				c15ObserveMap(mo, op.obs)
			case 's':
				if variant {
					ok = mo.SetItem(c15S(op.key), table[op.arg]) == nil
				} else {
					mo.Set(op.key, table[op.arg])
				}
			case 'd':
				if variant {
					ok = mo.DelItem(c15S(op.key)) == nil
				} else {
					mo.Delete(op.key)
				}
			case 'p':
				mo.Pop(op.key, nil)
			case 'f':
				mo.SetDefault(op.key, table[op.arg])
			case 'b':
				if variant {
					ok = mo.SetItem(c15I(1), object.Nil) == nil
				} else {
					ok = mo.DelItem(c15I(1)) == nil
				}
			case 'c':
				mo.Clear()
			}
		})
		ops = append(ops, op)
		if p != "" {
			e.R.Spec("maphist "+tenc, "a map operation panicked: "+p, "")
			return
		}
		look(len(ops) == nOps)
		oks = append(oks, ok)
	}
	toks := make([]string, len(ops))
	shape := ""
	for i, op := range ops {
		switch op.kind {
		case 's', 'f':
			toks[i] = string(op.kind) + c15KeyHex(op.key) + ":" + strconv.Itoa(op.arg)
		case 'd', 'p':
			toks[i] = string(op.kind) + c15KeyHex(op.key)
		default:
			toks[i] = string(op.kind)
		}
		shape += string(op.kind)
	}
	initToks := make([]string, len(init))
	for i, e := range init {
		initToks[i] = c15KeyHex(e.k) + ":" + strconv.Itoa(e.v)
	}
	initField := "."
	if len(initToks) > 0 {
		initField = strings.Join(initToks, ",")
	}
	opsField := strings.Join(toks, ",")
	key := "maphist " + tenc + " init=" + initField + " ops=" + opsField
	e.R.Case(key, strings.ContainsAny(shape, "sdpfc"))
	e.R.H("hist_len", fmt.Sprintf("map history of %02d operations", len(ops)))
	names := map[byte]string{'s': "assign", 'd': "delete() (DelItem / Delete)", 'p': "pop", 'f': "setdefault", 'b': "rejected non-string key", 'c': "clear", 'o': "observe"}
	for _, op := range ops {
		e.R.H("hist_ops", "map "+names[op.kind])
		if op.kind == 'o' {
			e.R.H("hist_observations", "map: "+c15MapObs[op.obs%len(c15MapObs)])
		}
	}
	for i := 0; i+1 < len(shape); i++ {
		if shape[i] == 'o' && shape[i+1] != 'o' {
			e.R.H("hist_patterns", "map: observation, then "+names[shape[i+1]]+", then every view")
		}
	}
	pk := make([]string, len(keys))
	for i, k := range keys {
		pk[i] = c15KeyHex(k)
	}
	rep := e.O.Ask("C15", "maphist", tenc, initField, opsField, strings.Join(pk, ","))
	states := strings.Split(rep, "|")
	if strings.HasPrefix(rep, "error") || len(states) != len(views) {
		e.R.Mismatch(key, fmt.Sprintf("%d states", len(views)), rep, "the oracle did not answer the map history")
		return
	}
	stepName := func(i int) string {
		if i == 0 {
			return "after construction"
		}
		return fmt.Sprintf("after operation %d (%s)", i, toks[i-1])
	}
	e.R.H("hist_views", map[bool]string{true: "map: every view after every step", false: "map: views after some steps only (always after the last)"}[viewAll])
	for i, v := range views {
		if !seen[i] {
			continue
		}
		f := strings.Split(states[i], " ")
		if len(f) != 3 {
			e.R.Mismatch(key, "", states[i], "malformed oracle state")
			return
		}
		var want []string
		if f[1] != "." {
			for _, t := range strings.Split(f[1], ",") {
				kvp := strings.SplitN(t, ":", 2)
				k, _ := strconv.Atoi(kvp[1])
				hk := kvp[0]
				if hk == "-" {
					hk = Hex("")
				}
				want = append(want, hk+":"+encs[k])
			}
		}
		inStr := ""
		if v.panicked == "" {
			inStr = c15Bits(v.in[:len(keys)])
		}
		got := fmt.Sprintf("ok=%s entries=[%s] has=%s len=%d", c15b01(oks[i]), strings.Join(values[i], " ; "), inStr, v.n)
		model := fmt.Sprintf("ok=%s entries=[%s] has=%s len=%d", f[0], strings.Join(want, " ; "), f[2], len(want))
		if v.panicked == "" && got != model {
			e.R.Mismatch(key+" "+stepName(i), got, model, "a map after a history (SetItem / Set / DelItem / Delete / Pop / SetDefault / Clear and observations): entries, Contains and Len vs the Lean model mapRun")
		}
		for _, law := range c15ViewLaws("map", v, probes) {
			e.R.Spec(key+" "+stepName(i), law, "")
		}
		if v.panicked == "" && v.sortedOK && c15EncList(v.sorted) != c15EncList(v.ordered) {
			e.R.Spec(key+" "+stepName(i), fmt.Sprintf("sorted(m) is %s but the map's keys in order are %s", c15EncList(v.sorted), c15EncList(v.ordered)), "")
		}
	}
	// == against a fresh copy of what the map shows
	var ab, ba, aa bool
	if p := c15Guard(func() {
		fresh := object.NewMap(map[string]object.Object{})
		for _, k := range mo.SortedKeys() {
			fresh.Set(k, mo.Get(k))
		}
		ab, ba, aa = object.Equals(mo, fresh), object.Equals(fresh, mo), object.Equals(mo, mo)
	}); p == "" {
		if ab != ba {
			e.R.Spec(key, fmt.Sprintf("== between a map with a history and a copy of its entries is not symmetric: %v / %v", ab, ba), "")
		}
		_ = aa // reflexivity of maps holding lossy numbers is the pair machinery's business
	}
	if scripts {
		gl := map[string]any{"m": build()}
		for i, v := range table {
			gl["v"+strconv.Itoa(i)] = v
		}
		for i, k := range keys {
			gl["k"+strconv.Itoa(i)] = k
		}
		kname := func(k string) string {
			for i, x := range keys {
				if x == k {
					return "k" + strconv.Itoa(i)
				}
			}
			return strconv.Quote(k)
		}
		// the probes of the script snapshot are v0.. in the snapshot source: rebind them to the probe list
		pg := map[string]any{}
		for k, v := range gl {
			pg[k] = v
		}
		var sb strings.Builder
		sb.WriteString("out := []\nacc := []\n")
		snap := func(sortedOK bool) string {
			ins := make([]string, len(probes))
			for i := range probes {
				ins[i] = fmt.Sprintf("p%d in m", i)
			}
			srt := "nil"
			if sortedOK {
				srt = "sorted(m)"
			}
			return "acc = []\nfor x := range m { acc.append(x) }\n" +
				"out.append([len(m), bool(m), m.keys(), acc, [" + strings.Join(ins, ", ") + "], " + srt + "])\n"
		}
		for i, p := range probes {
			pg["p"+strconv.Itoa(i)] = p
		}
		var shown []c15View
		for i, v := range views {
			if seen[i] {
				shown = append(shown, v)
			}
		}
		if seen[0] {
			sb.WriteString(snap(views[0].sortedOK))
		}
		for i, op := range ops {
			switch op.kind {
			case 's':
				fmt.Fprintf(&sb, "m[%s] = v%d\n", kname(op.key), op.arg)
			case 'd':
				fmt.Fprintf(&sb, "delete(m, %s)\n", kname(op.key))
			case 'p':
				fmt.Fprintf(&sb, "m.pop(%s)\n", kname(op.key))
			case 'f':
				fmt.Fprintf(&sb, "m.setdefault(%s, v%d)\n", kname(op.key), op.arg)
			case 'c':
				sb.WriteString("m.clear()\n")
			case 'o':
				sb.WriteString(c15MapObsSrc[op.obs%len(c15MapObsSrc)] + "\n")
			}
			if seen[i+1] {
				sb.WriteString(snap(views[i+1].sortedOK))
			}
		}
		sb.WriteString("out\n")
		src := sb.String()
		ok := true
		for _, v := range views {
			if v.panicked != "" {
				ok = false
			}
		}
		if ok {
			res, fail := c15EvalObj(src, pg)
			e.R.H("hist_scripts", "map history through risor.Eval")
			if out := c15CompareScriptOut(e, key, "a map history run by a script (m[k] = v / delete(m, k) / m.pop / m.setdefault / m.clear, string / keys / sorted / for-range) vs the object API", res, fail, shown, src); out != nil {
				c15ScriptLaws(e, key, "map", out, probes)
			}
		}
	}
}

// ---- lists: one view only (the item slice), so the history is checked against the value model
// of the snapshot (pair machinery) and the laws on the iterator / sorted() / len.

func c15ListHistory(e *Env, g *c15Gen) {
	r := g.rng
	nv := 3 + r.Intn(4)
	table := make([]object.Object, nv)
	for i := range table {
		if i > 0 && r.Chance(35) {
			table[i] = g.mutate(Pick(r, table[:i]))
		} else {
			table[i] = g.smallHashable()
		}
	}
	var items []object.Object
	for k := r.Intn(4); k > 0; k-- {
		items = append(items, Pick(r, table))
	}
	lo := object.NewList(items)
	shape := ""
	key := "listhist " + c15Enc(lo)
	nOps := 2 + r.Intn(7)
	for k := 0; k < nOps; k++ {
		x := r.Intn(100)
		p := c15Guard(func() {
			switch {
			case x < 25:
				shape += "o"
				switch r.Intn(4) {
				case 0:
					_ = lo.Inspect()
				case 1:
					c15IterAll(lo.Iter())
				case 2:
					builtins.Sorted(c15HCtx, lo)
				default:
					lo.Copy()
				}
			case x < 50:
				shape += "a"
				lo.Append(Pick(r, table))
			case x < 62:
				shape += "i"
				lo.Insert(int64(r.Intn(lo.Size()+1)), Pick(r, table))
			case x < 76:
				shape += "p"
				if lo.Size() > 0 {
					lo.Pop(int64(r.Intn(lo.Size())))
				}
			case x < 88:
				shape += "r"
				lo.Remove(Pick(r, table))
			case x < 96:
				shape += "d"
				if lo.Size() > 0 {
					lo.DelItem(c15I(int64(r.Intn(lo.Size()))))
				}
			default:
				shape += "c"
				lo.Clear()
			}
		})
		if p != "" {
			e.R.Spec(key+" ops="+shape, "a list operation panicked: "+p, "")
			return
		}
		v := c15ViewOf(lo, table)
		for _, law := range c15ViewLaws("list", v, table) {
			e.R.Spec(key+" ops="+shape+" now "+c15Guarded(func() string { return c15Enc(lo) }), law, "")
		}
	}
	e.R.Case(key+" ops="+shape, true)
	e.R.H("hist_len", fmt.Sprintf("list history of %02d operations", nOps))
	vals := append([]object.Object{lo, lo.Copy()}, table...)
	m := c15RunMatrix(e, vals, false, "lhist-")
	_ = m
}

// c15Histories drives the three kinds.
func c15Histories(e *Env, g *c15Gen) {
	nErr, nErrScript, nSet, nMap, nList := 150, 12, 1400, 900, 250
	if !e.Quick {
		nErr, nErrScript, nSet, nMap, nList = 3000, 150, 25000, 15000, 4000
	}
	e.R.Note("error objects: %d generated families of Go errors related by wrapping / joining / equal messages (every ordered pair against the Lean model of error objects, then pairs and same-type triples also lifted into lists and maps) and %d families built by scripts; containers with a history: %d set, %d map, %d list histories (mutations through every entry point interleaved with observations; every view after every step)", nErr, nErrScript, nSet, nMap, nList)
	for f := 0; f < nErr; f++ {
		c15ErrFamilyCase(e, g, f%8 == 0)
	}
	for f := 0; f < nErrScript; f++ {
		c15ErrScriptCase(e, g)
	}
	// the first histories are short, so that the first failure reported is a small one
	for f := 0; f < nSet; f++ {
		c15SetHistory(e, g, f%3 == 0, f < nSet/4)
	}
	for f := 0; f < nMap; f++ {
		c15MapHistory(e, g, f%3 == 0, f < nMap/4)
	}
	for f := 0; f < nList; f++ {
		c15ListHistory(e, g)
	}
}
