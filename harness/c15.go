package main

// C15 — equality, ordering, hashing, membership, sorted(), set construction and
// truthiness of values: the real code (object.Equals / Compare / HashKey / Contains / Sort /
// NewSet / IsTruthy, and the same through scripts run by risor.Eval) against the Lean Impl
// model (RisorModel/C15) and against the Spec = the algebraic laws of the property,
// evaluated directly on the Go results for every pair and triple of a boundary pool.

import (
	"context"
	"errors"
	"fmt"
	"math"
	"sort"
	"strconv"
	"strings"

	"github.com/risor-io/risor"
	"github.com/risor-io/risor/object"
	"github.com/risor-io/risor/op"
)

func init() { commands["C15"] = c15_runC15 }

const c15Finding = "C15-int-float-lossy-compare"

// ---------------------------------------------------------------- encoding of values

// c15Enc renders a real object in the oracle's prefix-token syntax (floats as IEEE bits).
func c15Enc(o object.Object) string {
	var sb strings.Builder
	c15EncTo(&sb, o)
	return sb.String()
}

func c15EncTo(sb *strings.Builder, o object.Object) {
	switch v := o.(type) {
	case *object.NilType:
		sb.WriteString("N")
	case *object.Bool:
		if v.Value() {
			sb.WriteString("T")
		} else {
			sb.WriteString("U")
		}
	case *object.Int:
		sb.WriteString("I " + strconv.FormatInt(v.Value(), 10))
	case *object.Float:
		if math.IsNaN(v.Value()) {
			panic("C15: NaN is excluded by the property and must not be generated")
		}
		sb.WriteString(fmt.Sprintf("F %016x", math.Float64bits(v.Value())))
	case *object.Byte:
		sb.WriteString("B " + strconv.Itoa(int(v.Value())))
	case *object.String:
		sb.WriteString("S " + Hex(v.Value()))
	case *object.Error:
		r := "0"
		if v.IsRaised() {
			r = "1"
		}
		sb.WriteString("E " + Hex(v.Value().Error()) + " " + r)
	case *object.List:
		items := v.Value()
		sb.WriteString("L " + strconv.Itoa(len(items)))
		for _, it := range items {
			sb.WriteString(" ")
			c15EncTo(sb, it)
		}
	case *object.Map:
		m := v.Value()
		keys := make([]string, 0, len(m))
		for k := range m {
			keys = append(keys, k)
		}
		sort.Strings(keys)
		sb.WriteString("M " + strconv.Itoa(len(keys)))
		for _, k := range keys {
			sb.WriteString(" " + Hex(k) + " ")
			c15EncTo(sb, m[k])
		}
	case *object.Set:
		items := v.SortedItems()
		sb.WriteString("Z " + strconv.Itoa(len(items)))
		for _, it := range items {
			sb.WriteString(" ")
			c15EncTo(sb, it)
		}
	default:
		panic("C15: value outside the modelled universe: " + string(o.Type()))
	}
}

func c15List(items ...object.Object) object.Object { return object.NewList(items) }
func c15Err(msg string, raised bool) object.Object {
	return object.NewError(errors.New(msg)).WithRaised(raised)
}
func c15Map(kv ...any) object.Object {
	m := map[string]object.Object{}
	for i := 0; i+1 < len(kv); i += 2 {
		m[kv[i].(string)] = kv[i+1].(object.Object)
	}
	return object.NewMap(m)
}
func c15Set(items ...object.Object) object.Object { return object.NewSet(items) }
func c15I(v int64) object.Object                  { return object.NewInt(v) }
func c15F(v float64) object.Object                { return object.NewFloat(v) }
func c15B(v byte) object.Object                   { return object.NewByte(v) }
func c15S(v string) object.Object                 { return object.NewString(v) }

const c15P53 = int64(1) << 53

// c15Pool is the boundary pool.  The first `quickN` entries form the quick sub-pool.
func c15Pool() (pool []object.Object, quickN int) {
	q := []object.Object{
		c15I(0), c15I(1), c15I(-1), c15I(c15P53), c15I(c15P53 + 1), c15I(math.MaxInt64), c15I(math.MinInt64),
		c15F(0), c15F(math.Copysign(0, -1)), c15F(1), c15F(float64(c15P53)), c15F(math.Inf(1)), c15F(-9223372036854775808.0),
		c15B(0), c15B(1), c15B(255),
		c15S(""), c15S("a"), c15S("A"), c15S("\u00e9"), c15S("e\u0301"),
		object.True, object.False, object.Nil,
		c15Err("x", true), c15Err("x", false),
		c15List(), c15List(c15I(1)), c15List(c15F(1)), c15List(c15I(c15P53 + 1)), c15List(c15F(float64(c15P53))), c15List(c15I(c15P53)),
		c15List(c15I(1), c15List(c15I(2))), c15List(c15S("a")),
		c15Map(), c15Map("a", c15I(1)), c15Map("a", c15F(1)),
		c15Set(), c15Set(c15I(1)), c15Set(c15F(1)), c15Set(c15I(1), c15S("a"), object.Nil),
	}
	quickN = len(q)
	rest := []object.Object{
		c15I(2), c15I(255), c15I(256), c15I(c15P53 - 1), c15I(c15P53 + 2), c15I(c15P53 + 3), c15I(-c15P53), c15I(-c15P53 - 1), c15I(math.MaxInt64 - 1),
		c15I(math.MinInt64 + 1), c15I(1 << 62), c15I(math.MaxInt64 - 511), c15I(math.MaxInt64 - 512),
		c15F(-1), c15F(1.5), c15F(255), c15F(float64(c15P53) + 2), c15F(float64(c15P53) - 1), c15F(math.Nextafter(float64(c15P53), 0)),
		c15F(9223372036854775808.0), c15F(math.Nextafter(9223372036854775808.0, 0)), c15F(1e300), c15F(5e-324), c15F(-5e-324),
		c15F(math.Inf(-1)), c15F(0.1), c15F(float64(-c15P53)),
		c15B(2), c15B(97),
		c15S("b"), c15S("ab"), c15S("日本"), c15S("\xff"), c15S("a\x00"), c15S("\u00c9"),
		c15Err("y", true), c15Err("", true),
		c15List(c15B(1)), c15List(c15I(1), c15I(2)), c15List(c15I(2), c15I(1)), c15List(c15List()), c15List(object.Nil), c15List(object.True),
		c15List(c15List(c15I(1)), c15List(c15I(2))), c15List(c15Map()), c15List(c15I(1), c15S("a")), c15List(c15Err("x", true)),
		c15List(c15I(1), c15I(c15P53+1)), c15List(c15I(1), c15F(float64(c15P53))), c15List(c15I(1), c15I(c15P53)),
		c15Map("a", c15I(1), "b", c15I(2)), c15Map("b", c15I(2), "a", c15I(1)), c15Map("a", c15List(c15I(1))),
		c15Map("k", c15I(c15P53+1)), c15Map("k", c15F(float64(c15P53))), c15Map("k", c15I(c15P53)), c15Map("é", object.Nil),
		c15Set(c15I(1), c15I(2)), c15Set(c15I(2), c15I(1)), c15Set(c15S("a")), c15Set(c15B(1)), c15Set(c15F(0)), c15Set(c15F(math.Copysign(0, -1))),
		c15Set(object.True), c15Set(c15I(c15P53 + 1)), c15Set(c15F(float64(c15P53))),
	}
	return append(q, rest...), quickN
}

// c15ContainerPool: maps, sets and containers nested in containers chosen so that every pair-level
// distinction of Map.Equals / Set.Equals / List.Equals is present: maps of the SAME size with
// different key sets, keys bound to nil / false / 0 / "" / 0.0 (values a lookup of an absent key
// could be confused with), the same entries under different keys, maps that differ in one nested
// value, sets of the same size with different items, and all of these wrapped in lists and maps.
func c15ContainerPool() []object.Object {
	N, U := object.Nil, object.False
	mA := func() object.Object { return c15Map("a", N) }
	mB := func() object.Object { return c15Map("b", N) }
	mAB := func() object.Object { return c15Map("a", N, "b", c15I(1)) }
	mBC := func() object.Object { return c15Map("b", c15I(1), "c", c15I(2)) }
	return []object.Object{
		// maps: size 0/1
		c15Map(), mA(), mB(), c15Map("a", U), c15Map("a", c15I(0)), c15Map("a", c15S("")), c15Map("a", c15F(0)), c15Map("a", c15I(1)),
		c15Map("b", c15I(1)), c15Map("", N), c15Map("a", c15List()), c15Map("a", c15Map()), c15Map("a", c15Set()), c15Map("a", c15List(N)),
		// maps: size 2/3, same size with different key sets, nil on either side
		mAB(), mBC(), c15Map("b", c15I(1), "c", N), c15Map("a", c15I(1), "b", N), c15Map("a", N, "b", N), c15Map("b", N, "c", N),
		c15Map("a", c15I(1), "b", c15I(1)), c15Map("a", c15I(1), "b", c15F(1)), c15Map("a", c15I(2), "b", c15I(1)),
		c15Map("a", c15I(1), "b", c15I(2), "c", N), c15Map("a", c15I(1), "b", c15I(2), "d", N), c15Map("a", c15I(1), "b", c15I(2), "c", U),
		// maps in maps
		c15Map("a", c15Map("x", N)), c15Map("a", c15Map("y", N)), c15Map("a", c15Map("x", N, "y", c15I(1))), c15Map("a", c15Map("y", c15I(1), "z", c15I(2))),
		c15Map("a", c15Set(N)), c15Map("a", c15Set(U)),
		// containers in lists
		c15List(N), c15List(c15List()), c15List(c15Map()), c15List(c15Set()), c15List(c15List(N)), c15List(c15Set(N)),
		c15List(mA()), c15List(mB()), c15List(mAB()), c15List(mBC()), c15List(mA(), c15I(1)), c15List(mB(), c15I(1)), c15List(c15List(mA())), c15List(c15List(mB())),
		// sets: falsy items, same size with different items, numerically equal items of different types
		c15Set(), c15Set(N), c15Set(U), c15Set(c15I(0)), c15Set(c15S("")), c15Set(c15F(0)), c15Set(c15B(0)), c15Set(N, U), c15Set(c15I(0), c15S("")),
		c15Set(N, c15I(0)), c15Set(U, c15S("")), c15Set(c15I(1), c15I(2)), c15Set(c15I(1), c15I(3)), c15Set(c15I(1), c15F(1)), c15Set(c15F(1), c15I(2)),
		c15Set(c15I(1), c15B(1)), c15Set(c15I(1), c15I(2), N), c15Set(c15I(1), c15I(2), U),
	}
}

// ---------------------------------------------------------------- evaluation on the real code

type c15Pair struct {
	eq, qe, tr, ne         bool
	cmp, pmc               string // "-1" "0" "1" or "err"
	hk, kh                 string
	lz, in, lt, le, gt, ge string
	panicked               string
}

func c15Guard(f func()) (p string) {
	defer func() {
		if r := recover(); r != nil {
			p = fmt.Sprint(r)
		}
	}()
	f()
	return ""
}

func c15Cmp(a, b object.Object) string {
	c, ok := a.(object.Comparable)
	if !ok {
		return "err"
	}
	v, err := c.Compare(b)
	if err != nil {
		return "err"
	}
	return strconv.Itoa(v)
}

func c15HK(a object.Object) string {
	h, ok := a.(object.Hashable)
	if !ok {
		return "none"
	}
	k := h.HashKey()
	f := k.FltValue
	if f == 0 {
		f = 0 // the sign of zero is not part of the key's identity (Go map keys use ==)
	}
	return fmt.Sprintf("%s/%d/%s/%016x", k.Type, k.IntValue, Hex(k.StrValue), math.Float64bits(f))
}

func c15OpRes(o object.Object, err error) string {
	if err != nil || o == nil {
		return "err"
	}
	b, ok := o.(*object.Bool)
	if !ok {
		return "err"
	}
	return c15b01(b.Value())
}

func c15b01(b bool) string {
	if b {
		return "1"
	}
	return "0"
}

func c15EvalPair(a, b object.Object) (r c15Pair) {
	r.panicked = c15Guard(func() {
		r.eq = object.Equals(a, b)
		r.qe = object.Equals(b, a)
		r.cmp = c15Cmp(a, b)
		r.pmc = c15Cmp(b, a)
		r.hk = c15HK(a)
		r.kh = c15HK(b)
		r.tr = a.IsTruthy()
		r.lz, r.in = "none", "err"
		if c, ok := a.(object.Container); ok {
			r.lz = c15b01(c.Len().Value() == 0)
			r.in = c15b01(c.Contains(b).Value())
		}
		r.ne = c15OpRes(object.Compare(op.NotEqual, a, b)) == "1"
		if e := c15OpRes(object.Compare(op.Equal, a, b)); e != c15b01(r.eq) {
			panic("object.Compare(Equal) disagrees with Equals")
		}
		r.lt = c15OpRes(object.Compare(op.LessThan, a, b))
		r.le = c15OpRes(object.Compare(op.LessThanOrEqual, a, b))
		r.gt = c15OpRes(object.Compare(op.GreaterThan, a, b))
		r.ge = c15OpRes(object.Compare(op.GreaterThanOrEqual, a, b))
	})
	return r
}

func (r c15Pair) String() string {
	if r.panicked != "" {
		return "panic: " + r.panicked
	}
	return fmt.Sprintf("eq=%s qe=%s cmp=%s pmc=%s hk=%s kh=%s tr=%s lz=%s in=%s ne=%s lt=%s le=%s gt=%s ge=%s",
		c15b01(r.eq), c15b01(r.qe), r.cmp, r.pmc, r.hk, r.kh, c15b01(r.tr), r.lz, r.in, c15b01(r.ne), r.lt, r.le, r.gt, r.ge)
}

func c15Fields(reply string) map[string]string {
	m := map[string]string{}
	for _, t := range strings.Split(reply, " ") {
		if i := strings.IndexByte(t, '='); i > 0 {
			m[t[:i]] = t[i+1:]
		}
	}
	return m
}

// c15ModelPart strips the Spec/guard fields from an oracle reply.
func c15ModelPart(reply string) string {
	if i := strings.Index(reply, " lossy="); i >= 0 {
		return reply[:i]
	}
	return reply
}

var c15Ordered = map[object.Type]bool{object.INT: true, object.FLOAT: true, object.BYTE: true, object.STRING: true, object.BOOL: true, object.LIST: true}
var c15Numeric = map[object.Type]bool{object.INT: true, object.FLOAT: true, object.BYTE: true}

func c15IsContainerType(t object.Type) bool {
	return t == object.LIST || t == object.MAP || t == object.SET || t == object.STRING
}

// c15PairLaws evaluates the property's pair-level laws on the Go results.
func c15PairLaws(a, b object.Object, same bool, r c15Pair) []string {
	var bad []string
	if r.panicked != "" {
		return []string{"the comparison panicked: " + r.panicked}
	}
	ta, tb := a.Type(), b.Type()
	if same && !r.eq {
		bad = append(bad, "== is not reflexive")
	}
	if r.eq != r.qe {
		bad = append(bad, "== is not symmetric")
	}
	if r.ne == r.eq {
		bad = append(bad, "!= is not the negation of ==")
	}
	if ta == tb && c15Ordered[ta] {
		scalar := ta != object.LIST
		if scalar && (r.cmp == "err" || r.pmc == "err") {
			bad = append(bad, "comparison within an ordered scalar type fails")
		}
		if (r.cmp == "err") != (r.pmc == "err") {
			bad = append(bad, "a<=>b fails but b<=>a does not")
		}
		if r.cmp != "err" && r.pmc != "err" {
			if r.le != "1" && r.ge != "1" {
				bad = append(bad, "neither a<=b nor a>=b (not total)")
			}
			if same && (r.le != "1" || r.lt != "0") {
				bad = append(bad, "<= is not reflexive / < is not irreflexive")
			}
			if (r.le == "1" && r.ge == "1") != r.eq {
				bad = append(bad, "a<=b && a>=b does not agree with ==")
			}
			if (r.cmp == "0") != r.eq {
				bad = append(bad, "Compare()==0 does not agree with Equals")
			}
			ci, _ := strconv.Atoi(r.cmp)
			pi, _ := strconv.Atoi(r.pmc)
			if ci != -pi {
				bad = append(bad, "Compare(a,b) is not -Compare(b,a)")
			}
			if r.lt != c15b01(ci < 0) || r.le != c15b01(ci <= 0) || r.gt != c15b01(ci > 0) || r.ge != c15b01(ci >= 0) {
				bad = append(bad, "the operators < <= > >= do not follow Compare")
			}
			if r.lt == "1" && r.gt == "1" {
				bad = append(bad, "a<b and a>b both hold")
			}
		}
	}
	if c15Numeric[ta] && c15Numeric[tb] {
		if r.cmp == "-1" && r.pmc == "-1" {
			bad = append(bad, "both a<b and b<a across numeric types")
		}
	}
	if ta == tb && r.hk != "none" && r.kh != "none" {
		if (r.hk == r.kh) != r.eq {
			bad = append(bad, "hash keys and == disagree within a type")
		}
	}
	if want, ok := c15Structural(a, b); ok && r.eq != want {
		bad = append(bad, fmt.Sprintf("== of two %ss is %v but comparing them entry by entry (same keys/items, == values) gives %v", ta, r.eq, want))
	}
	if c15IsContainerType(ta) {
		if r.lz == "none" || r.tr != (r.lz == "0") {
			bad = append(bad, "container truthiness is not (len != 0)")
		}
		if want, ok := c15IterContains(a, b); ok && r.in != c15b01(want) {
			bad = append(bad, "`in` disagrees with iterating and comparing")
		}
	}
	return bad
}

// c15Structural recomputes == of two lists, two maps or two sets from the == of their parts
// (the Spec of container equality, evaluated with the real Equals on the parts): lists have the
// same length and == items at every index; maps have the same key SET and == values under every
// key (a key bound to nil is not an absent key); sets have the same size and every item of each
// has a same-type == item in the other.
func c15Structural(a, b object.Object) (want bool, ok bool) {
	if p := c15Guard(func() {
		switch x := a.(type) {
		case *object.List:
			y, isList := b.(*object.List)
			if !isList {
				return
			}
			ok = true
			xs, ys := x.Value(), y.Value()
			want = len(xs) == len(ys)
			for i := 0; want && i < len(xs); i++ {
				want = object.Equals(xs[i], ys[i])
			}
		case *object.Map:
			y, isMap := b.(*object.Map)
			if !isMap {
				return
			}
			ok = true
			xm, ym := x.Value(), y.Value()
			want = true
			for k := range ym {
				if _, found := xm[k]; !found {
					want = false
				}
			}
			for k, xv := range xm {
				yv, found := ym[k]
				if !found || !object.Equals(xv, yv) {
					want = false
				}
			}
		case *object.Set:
			y, isSet := b.(*object.Set)
			if !isSet {
				return
			}
			ok = true
			xs, ys := x.SortedItems(), y.SortedItems()
			want = len(xs) == len(ys)
			covered := func(ps, qs []object.Object) bool {
				for _, p := range ps {
					hit := false
					for _, q := range qs {
						if p.Type() == q.Type() && object.Equals(p, q) {
							hit = true
						}
					}
					if !hit {
						return false
					}
				}
				return true
			}
			want = want && covered(xs, ys) && covered(ys, xs)
		}
	}); p != "" {
		return false, false
	}
	return want, ok
}

// c15IterContains: membership by iterating the container and comparing with Equals
// (sets: within one type, as the property is read).
func c15IterContains(c, x object.Object) (res bool, ok bool) {
	if p := c15Guard(func() {
		switch v := c.(type) {
		case *object.List:
			ok = true
			for _, it := range v.Value() {
				if object.Equals(it, x) {
					res = true
				}
			}
		case *object.Set:
			ok = true
			for _, it := range v.Value() {
				if it.Type() == x.Type() && object.Equals(it, x) {
					res = true
				}
			}
		case *object.Map:
			ok = true
			for k := range v.Value() {
				if object.Equals(object.NewString(k), x) {
					res = true
				}
			}
		}
	}); p != "" {
		return false, false
	}
	return res, ok
}

// ---------------------------------------------------------------- scripts

var c15Ctx = context.Background()

func c15Script(src string, g map[string]any) (res string) {
	defer func() {
		if r := recover(); r != nil {
			res = "panic"
		}
	}()
	o, err := risor.Eval(c15Ctx, src, risor.WithGlobals(g))
	if err != nil {
		return "err"
	}
	switch v := o.(type) {
	case *object.Bool:
		return c15b01(v.Value())
	case *object.Error:
		return "err"
	}
	return "val:" + c15Enc(o)
}

// c15ScriptPair runs the operators through risor.Eval and compares with the object API.
func c15ScriptPair(e *Env, a, b object.Object, r c15Pair, c string) {
	if r.panicked != "" {
		return
	}
	g := map[string]any{"a": a, "b": b}
	want := map[string]string{
		"a == b": c15b01(r.eq), "a != b": c15b01(r.ne), "a < b": r.lt, "a <= b": r.le, "a > b": r.gt, "a >= b": r.ge,
		"b in a": r.in, "bool(a)": c15b01(r.tr), "b == a": c15b01(r.qe),
	}
	if r.in != "err" {
		want["b not in a"] = c15b01(r.in == "0")
	}
	if r.lz != "none" {
		want["len(a) == 0"] = r.lz
		want["bool(a) == (len(a) != 0)"] = "1"
	}
	for _, src := range sortedKeys(want) {
		got := c15Script(src, g)
		e.R.H("script_results", src+" -> "+got)
		if got != want[src] {
			e.R.Mismatch("script "+c+" src="+src, got, want[src], "risor.Eval result vs object API result (which the model matches)")
			if src == "bool(a) == (len(a) != 0)" {
				e.R.Spec("script "+c+" src="+src, "a container's truthiness is not len != 0 when evaluated by a script", "")
			}
		}
	}
}

// ---------------------------------------------------------------- pairs and triples

type c15Matrix struct {
	vals  []object.Object
	encs  []string
	res   [][]c15Pair
	lossy [][]bool
	mism  [][]bool
}

// c15Shape classifies a same-kind container pair for the histogram: sizes and key/item sets.
func c15Shape(a, b object.Object) string {
	switch x := a.(type) {
	case *object.Map:
		xm, ym := x.Value(), b.(*object.Map).Value()
		if len(xm) != len(ym) {
			return "sizes differ"
		}
		same, nilOnly := true, false
		for k, v := range xm {
			if _, ok := ym[k]; !ok {
				same = false
				if v == object.Nil {
					nilOnly = true
				}
			}
		}
		switch {
		case same:
			return "same size, same keys"
		case nilOnly:
			return "same size, keys differ, a one-sided key bound to nil"
		}
		return "same size, keys differ"
	case *object.Set:
		xs, ys := x.Value(), b.(*object.Set).Value()
		if len(xs) != len(ys) {
			return "sizes differ"
		}
		for k := range xs {
			if _, ok := ys[k]; !ok {
				return "same size, items differ"
			}
		}
		return "same size, same items"
	case *object.List:
		if len(x.Value()) != len(b.(*object.List).Value()) {
			return "sizes differ"
		}
		return "same size"
	}
	return "-"
}

func c15Key(kind string, encs ...string) string { return kind + " " + strings.Join(encs, " | ") }

func c15RunMatrix(e *Env, vals []object.Object, scripts bool, label string) *c15Matrix {
	n := len(vals)
	m := &c15Matrix{vals: vals, encs: make([]string, n), res: make([][]c15Pair, n), lossy: make([][]bool, n), mism: make([][]bool, n)}
	for i, v := range vals {
		m.encs[i] = c15Enc(v)
		m.res[i] = make([]c15Pair, n)
		m.lossy[i] = make([]bool, n)
		m.mism[i] = make([]bool, n)
	}
	reqs := make([]string, 0, n*n)
	for i := 0; i < n; i++ {
		for j := 0; j < n; j++ {
			reqs = append(reqs, "C15\tpair\t"+m.encs[i]+"\t"+m.encs[j])
		}
	}
	reps := e.O.AskBatch(reqs)
	for i := 0; i < n; i++ {
		for j := 0; j < n; j++ {
			a, b := vals[i], vals[j]
			r := c15EvalPair(a, b)
			m.res[i][j] = r
			c := c15Key(label+"pair", m.encs[i], m.encs[j])
			e.R.Case(c, m.encs[i] != m.encs[j])
			e.R.H("pair_types", string(a.Type())+"×"+string(b.Type()))
			e.R.H("pair_compare", r.cmp)
			e.R.H("pair_equals", c15b01(r.eq))
			rep := reps[i*n+j]
			f := c15Fields(rep)
			m.lossy[i][j] = f["lossy"] == "1"
			if got := r.String(); got != c15ModelPart(rep) {
				m.mism[i][j] = true
				e.R.Mismatch(c, got, c15ModelPart(rep), "object.Equals/Compare/HashKey/IsTruthy/Contains vs the Lean Impl model")
			}
			// Equals as written (the range-and-lookup loops of Map.Equals / Set.Equals, model equalsW)
			// and the well-formedness the theorems about it assume
			if f["wf"] != "1" {
				m.mism[i][j] = true
				e.R.Mismatch(c, "encoding of the real values", "wf="+f["wf"], "the rendering of a real object is not well-formed for the model (map keys / set items not strictly sorted)")
			}
			if r.panicked == "" && (f["weq"] != c15b01(r.eq) || f["wqe"] != c15b01(r.qe)) {
				m.mism[i][j] = true
				e.R.Mismatch(c, "eq="+c15b01(r.eq)+" qe="+c15b01(r.qe), "eq="+f["weq"]+" qe="+f["wqe"], "object.Equals vs the Lean model of Equals as written (List/Map/Set.Equals loops, equalsW)")
			}
			if a.Type() == b.Type() && (a.Type() == object.MAP || a.Type() == object.SET || a.Type() == object.LIST) {
				e.R.H("container_eq", fmt.Sprintf("[%spairs] %s×%s %s eq=%s", label, a.Type(), b.Type(), c15Shape(a, b), c15b01(r.eq)))
			}
			if m.lossy[i][j] {
				e.R.H("guard", "pair inside "+c15Finding)
			} else {
				e.R.H("guard", "pair outside every guard")
			}
			for _, law := range c15PairLaws(a, b, i == j, r) {
				e.R.Spec(c, law, "")
			}
			if scripts {
				c15ScriptPair(e, a, b, r, c)
			}
		}
	}
	return m
}

// c15Triples evaluates transitivity on the matrix of Go results.
func c15Triples(e *Env, m *c15Matrix, label string) {
	n := len(m.vals)
	mixed := 0
	defer func() {
		e.R.mu.Lock()
		if e.R.Hist["triples"] == nil {
			e.R.Hist["triples"] = map[string]int{}
		}
		e.R.Hist["triples"]["mixed types (no law demanded, not counted as cases)"] += mixed
		e.R.mu.Unlock()
	}()
	for i := 0; i < n; i++ {
		ti := m.vals[i].Type()
		for j := 0; j < n; j++ {
			tj := m.vals[j].Type()
			for k := 0; k < n; k++ {
				tk := m.vals[k].Type()
				nontriv := !(i == j && j == k)
				sameType := ti == tj && tj == tk
				if !sameType {
					mixed++ // no law is demanded of a mixed-type triple: not counted as a case
					continue
				}
				key := c15Key(label+"triple", m.encs[i], m.encs[j], m.encs[k])
				e.R.Case(key, nontriv)
				e.R.H("triples", "same type "+string(ti))
				ab, bc, ac := m.res[i][j], m.res[j][k], m.res[i][k]
				if ab.panicked != "" || bc.panicked != "" || ac.panicked != "" {
					continue
				}
				var bad []string
				if ab.eq && bc.eq && !ac.eq {
					bad = append(bad, "== is not transitive within type "+string(ti))
				}
				if c15Ordered[ti] && ab.le == "1" && bc.le == "1" && ac.le != "1" {
					bad = append(bad, "<= is not transitive within type "+string(ti))
				}
				if c15Ordered[ti] && ab.lt == "1" && bc.lt == "1" && ac.lt != "1" {
					bad = append(bad, "< is not transitive within type "+string(ti))
				}
				if len(bad) == 0 {
					continue
				}
				finding := ""
				inGuard := m.lossy[i][j] || m.lossy[j][k] || m.lossy[i][k]
				agrees := !m.mism[i][j] && !m.mism[j][k] && !m.mism[i][k]
				if inGuard && agrees {
					finding = c15Finding
				}
				for _, b := range bad {
					e.R.Spec(key, b, finding)
				}
			}
		}
	}
}

// ---------------------------------------------------------------- random values

type c15Gen struct {
	rng  *RNG
	pool []object.Object
}

func (g *c15Gen) scalarsOf(kind int) object.Object {
	r := g.rng
	switch kind {
	case 0: // int
		switch r.Intn(6) {
		case 0:
			return c15I(int64(r.Intn(7)) - 3)
		case 1:
			return c15I(c15P53 + int64(r.Intn(9)) - 4)
		case 2:
			return c15I(-c15P53 + int64(r.Intn(9)) - 4)
		case 3:
			return c15I(math.MaxInt64 - int64(r.Intn(2048)))
		case 4:
			return c15I(math.MinInt64 + int64(r.Intn(2048)))
		default:
			return c15I(int64(r.Next()))
		}
	case 1: // float (never NaN)
		switch r.Intn(7) {
		case 0:
			return c15F(float64(r.Intn(7)) - 3)
		case 1:
			return c15F(math.Float64frombits(math.Float64bits(float64(c15P53)) + uint64(r.Intn(7)) - 3))
		case 2:
			return c15F(-math.Float64frombits(math.Float64bits(float64(c15P53)) + uint64(r.Intn(7)) - 3))
		case 3:
			return c15F(math.Float64frombits(math.Float64bits(9223372036854775808.0) + uint64(r.Intn(5)) - 2))
		case 4:
			return c15F(float64(r.Intn(7)-3) / 2)
		case 5:
			return c15F(float64(int64(r.Next())))
		default:
			for {
				f := math.Float64frombits(r.Next())
				if !math.IsNaN(f) {
					return c15F(f)
				}
			}
		}
	case 2:
		return c15B(byte(r.Intn(4)))
	case 3:
		return c15S(Pick(r, []string{"", "a", "A", "b", "ab", "aB", "\u00e9", "\u00c9", "e\u0301", "日本", "\xff", "a\x00"}))
	case 4:
		return object.NewBool(r.Bool())
	case 5:
		return object.Nil
	default:
		return c15Err(Pick(r, []string{"x", "y", ""}), r.Bool())
	}
}

func (g *c15Gen) scalar() object.Object { return g.scalarsOf(g.rng.Intn(7)) }

func (g *c15Gen) hashable() object.Object { return g.scalarsOf(g.rng.Intn(6)) }

func (g *c15Gen) value(depth int) object.Object {
	r := g.rng
	if depth <= 0 || r.Chance(45) {
		if r.Chance(30) {
			return Pick(r, g.pool)
		}
		return g.scalar()
	}
	n := r.Intn(4)
	switch r.Intn(4) {
	case 0, 1:
		items := make([]object.Object, n)
		for i := range items {
			items[i] = g.value(depth - 1)
		}
		return object.NewList(items)
	case 2:
		m := map[string]object.Object{}
		for i := 0; i < n; i++ {
			m[Pick(r, []string{"a", "b", "é", ""})] = g.value(depth - 1)
		}
		return object.NewMap(m)
	default:
		items := make([]object.Object, n)
		for i := range items {
			items[i] = g.hashable()
		}
		return object.NewSet(items)
	}
}

// mutate returns a value shaped like v with numbers nudged (so that pairs are often == or
// adjacent rather than unrelated).
func (g *c15Gen) mutate(v object.Object) object.Object {
	r := g.rng
	switch x := v.(type) {
	case *object.Int:
		switch r.Intn(4) {
		case 0:
			return c15F(float64(x.Value()))
		case 1:
			return c15I(x.Value() + int64(r.Intn(3)) - 1)
		case 2:
			if x.Value() >= 0 && x.Value() < 256 {
				return c15B(byte(x.Value()))
			}
		}
		return v
	case *object.Float:
		f := x.Value()
		switch r.Intn(4) {
		case 0:
			if f >= -9e18 && f <= 9e18 {
				return c15I(int64(f))
			}
		case 1:
			if !math.IsInf(f, 0) {
				return c15F(math.Float64frombits(math.Float64bits(f) + 1))
			}
		}
		return v
	case *object.Byte:
		if r.Bool() {
			return c15I(int64(x.Value()))
		}
		return c15F(float64(x.Value()))
	case *object.List:
		items := append([]object.Object{}, x.Value()...)
		for i := range items {
			if r.Chance(50) {
				items[i] = g.mutate(items[i])
			}
		}
		return object.NewList(items)
	case *object.Map:
		m := map[string]object.Object{}
		src := x.Value()
		for _, k := range c15SortedMapKeys(src) { // sorted: the random choices must not depend on Go's map iteration order
			it := src[k]
			m[k] = it
			if r.Chance(50) {
				m[k] = g.mutate(it)
			}
		}
		return object.NewMap(m)
	}
	return v
}

// ---- related containers: maps / sets / lists that differ from one another in ONE respect

var c15KeyUniverse = []string{"a", "b", "c", "", "é", "ab"}

// falsy: the values an absent entry could be confused with (nil above all), and empty containers.
func (g *c15Gen) falsy() object.Object {
	switch g.rng.Intn(12) {
	case 0, 1, 2, 3:
		return object.Nil
	case 4:
		return object.False
	case 5:
		return c15I(0)
	case 6:
		return c15S("")
	case 7:
		return c15F(0)
	case 8:
		return c15B(0)
	case 9:
		return c15List()
	case 10:
		return c15Map()
	default:
		return c15Set()
	}
}

func (g *c15Gen) smallHashable() object.Object {
	r := g.rng
	switch r.Intn(8) {
	case 0:
		return object.Nil
	case 1:
		return object.NewBool(r.Bool())
	case 2, 3:
		return c15I(int64(r.Intn(3)))
	case 4:
		return c15F(float64(r.Intn(3)))
	case 5:
		return c15B(byte(r.Intn(3)))
	case 6:
		return c15S(Pick(r, []string{"", "a", "b"}))
	default:
		return g.hashable()
	}
}

func (g *c15Gen) entryValue(depth int) object.Object {
	r := g.rng
	switch {
	case r.Chance(40):
		return g.falsy()
	case depth > 0 && r.Chance(40):
		return g.container(depth - 1)
	case r.Chance(15):
		return g.scalar()
	default:
		return g.smallHashable()
	}
}

// container: a small list, map or set whose entries are falsy-heavy and may be containers.
func (g *c15Gen) container(depth int) object.Object {
	r := g.rng
	n := r.Intn(4)
	switch r.Intn(5) {
	case 0:
		items := make([]object.Object, n)
		for i := range items {
			items[i] = g.entryValue(depth)
		}
		return object.NewList(items)
	case 1, 2, 3:
		m := map[string]object.Object{}
		for i := 0; i < n; i++ {
			m[Pick(r, c15KeyUniverse)] = g.entryValue(depth)
		}
		return object.NewMap(m)
	default:
		items := make([]object.Object, n)
		for i := range items {
			items[i] = g.smallHashable()
		}
		return object.NewSet(items)
	}
}

func c15SortedMapKeys(m map[string]object.Object) []string {
	keys := make([]string, 0, len(m))
	for k := range m {
		keys = append(keys, k)
	}
	sort.Strings(keys)
	return keys
}

// relative returns a container that differs from v in one respect (or not at all): a key renamed
// (same size, different key set), a value replaced by nil, an entry dropped or added, one nested
// value changed the same way, or the whole value wrapped in a list / map.
func (g *c15Gen) relative(v object.Object, depth int) object.Object {
	r := g.rng
	if depth > 0 && r.Chance(8) {
		if r.Bool() {
			return c15List(v)
		}
		return c15Map(Pick(r, c15KeyUniverse), v)
	}
	switch x := v.(type) {
	case *object.Map:
		m := map[string]object.Object{}
		for k, it := range x.Value() {
			m[k] = it
		}
		keys := c15SortedMapKeys(m) // sorted: the choice must not depend on Go's map iteration order
		var absent []string
		for _, k := range c15KeyUniverse {
			if _, ok := m[k]; !ok {
				absent = append(absent, k)
			}
		}
		op := r.Intn(9)
		switch {
		case op == 0 && len(keys) > 0 && len(absent) > 0: // rename a key: same size, different key set
			k := Pick(r, keys)
			m[Pick(r, absent)] = m[k]
			delete(m, k)
		case op == 1 && len(keys) > 0 && len(absent) > 0: // replace an entry by another key bound to nil
			delete(m, Pick(r, keys))
			m[Pick(r, absent)] = object.Nil
		case op == 2 && len(keys) > 0: // bind a key to nil / a falsy value
			m[Pick(r, keys)] = g.falsy()
		case op == 3 && len(keys) > 0:
			m[Pick(r, keys)] = object.Nil
		case op == 4 && len(keys) > 0:
			delete(m, Pick(r, keys))
		case op == 5 && len(absent) > 0:
			m[Pick(r, absent)] = g.falsy()
		case op == 6 && len(keys) > 0:
			k := Pick(r, keys)
			m[k] = g.relative(m[k], depth-1)
		case op == 7 && len(keys) > 0:
			k := Pick(r, keys)
			m[k] = g.mutate(m[k])
		}
		return object.NewMap(m)
	case *object.Set:
		items := append([]object.Object{}, x.SortedItems()...)
		op := r.Intn(6)
		switch {
		case op == 0 && len(items) > 0: // same size (usually), another item
			items[r.Intn(len(items))] = g.smallHashable()
		case op == 1 && len(items) > 0: // the numerically equal value of another type
			i := r.Intn(len(items))
			items[i] = g.mutate(items[i])
		case op == 2 && len(items) > 0:
			i := r.Intn(len(items))
			items = append(items[:i], items[i+1:]...)
		case op == 3:
			items = append(items, g.smallHashable())
		}
		return object.NewSet(items)
	case *object.List:
		items := append([]object.Object{}, x.Value()...)
		op := r.Intn(6)
		switch {
		case op == 0 && len(items) > 0:
			i := r.Intn(len(items))
			items[i] = g.relative(items[i], depth-1)
		case op == 1 && len(items) > 0:
			items[r.Intn(len(items))] = g.falsy()
		case op == 2:
			items = append(items, object.Nil)
		case op == 3 && len(items) > 0:
			items = items[:len(items)-1]
		case op == 4 && len(items) > 0:
			i := r.Intn(len(items))
			items[i] = g.mutate(items[i])
		}
		return object.NewList(items)
	}
	if r.Chance(50) {
		return g.mutate(v)
	}
	return v
}

// ---------------------------------------------------------------- sorted()

func c15Less(a, b object.Object) (bool, bool) {
	c := c15Cmp(a, b)
	return c == "-1", c != "err"
}

// c15RefStable: the stably ordered permutation, by a plain insertion sort over Go's own Compare.
func c15RefStable(items []object.Object) []object.Object {
	out := append([]object.Object{}, items...)
	for i := 1; i < len(out); i++ {
		for j := i; j > 0; j-- {
			if lt, _ := c15Less(out[j], out[j-1]); !lt {
				break
			}
			out[j], out[j-1] = out[j-1], out[j]
		}
	}
	return out
}

func c15Encs(items []object.Object) []string {
	out := make([]string, len(items))
	for i, it := range items {
		out[i] = c15Enc(it)
	}
	return out
}

func c15SortCase(e *Env, items []object.Object, scripts bool) {
	encs := c15Encs(items)
	lenc := "L " + strconv.Itoa(len(items))
	if len(items) > 0 {
		lenc += " " + strings.Join(encs, " ")
	}
	key := "sort " + lenc
	e.R.Case(key, len(items) >= 2)
	e.R.H("sort_len", fmt.Sprintf("%02d-%02d", len(items)/5*5, len(items)/5*5+4))
	rep := e.O.Ask("C15", "sort", lenc)
	lossy := strings.HasSuffix(rep, "lossy=1")
	model := strings.TrimSuffix(strings.TrimSuffix(rep, " lossy=1"), " lossy=0")

	work := append([]object.Object{}, items...)
	goRes := ""
	var sortErr *object.Error
	if p := c15Guard(func() { sortErr = object.Sort(work) }); p != "" || sortErr != nil {
		goRes = "err"
	} else {
		// express the Go output as indices into the input (first unused index with the same rendering)
		used := make([]bool, len(items))
		idx := make([]string, len(work))
		for i, w := range work {
			we := c15Enc(w)
			idx[i] = "?"
			for k := range items {
				if !used[k] && encs[k] == we {
					used[k] = true
					idx[i] = strconv.Itoa(k)
					break
				}
			}
		}
		goRes = "ok " + strings.Join(idx, ",")
		if len(idx) == 0 {
			goRes = "ok -"
		}
	}
	// the model's answer as renderings, so that indistinguishable items do not matter
	render := func(res string) string {
		if !strings.HasPrefix(res, "ok ") {
			return res
		}
		if res == "ok -" {
			return "ok"
		}
		parts := strings.Split(res[3:], ",")
		out := make([]string, len(parts))
		for i, p := range parts {
			k, err := strconv.Atoi(p)
			if err != nil || k < 0 || k >= len(encs) {
				out[i] = "?" + p
			} else {
				out[i] = encs[k]
			}
		}
		return "ok " + strings.Join(out, " ; ")
	}
	agrees := render(goRes) == render(model)
	mutuallyComparable := true
	for i := range items {
		for j := range items {
			if _, ok := c15Less(items[i], items[j]); !ok {
				mutuallyComparable = false
			}
		}
	}
	switch {
	case lossy:
		e.R.H("sort_kind", "inside "+c15Finding)
	case !mutuallyComparable:
		e.R.H("sort_kind", "not mutually comparable")
	default:
		e.R.H("sort_kind", "mutually comparable, outside every guard")
	}
	// The insertion-sort model is exact up to 20 items; beyond that it predicts Go only when
	// `less` is a strict weak order on the input (mutually comparable, outside the guard).
	if len(items) <= 20 || (mutuallyComparable && !lossy) {
		if !agrees {
			e.R.Mismatch(key, render(goRes), render(model), "object.Sort vs the Lean Impl model (stable insertion sort by Compare == -1)")
		}
	}
	finding := ""
	if lossy && agrees {
		finding = c15Finding
	}
	if mutuallyComparable {
		if goRes == "err" {
			e.R.Spec(key, "sorted() fails on mutually comparable input", finding)
		} else {
			// Spec on the Go result: permutation, ordered, stable, idempotent
			a, b := append([]string{}, encs...), c15Encs(work)
			sort.Strings(a)
			sorted2 := append([]string{}, b...)
			sort.Strings(sorted2)
			if strings.Join(a, ";") != strings.Join(sorted2, ";") {
				e.R.Spec(key, "sorted() output is not a permutation of its input", finding)
			}
			ordered := true
			for i := 0; i < len(work) && ordered; i++ {
				for j := i + 1; j < len(work); j++ {
					if lt, _ := c15Less(work[j], work[i]); lt {
						ordered = false
						e.R.Spec(key, fmt.Sprintf("sorted() output is not ordered: out[%d]=%s < out[%d]=%s", j, b[j], i, b[i]), finding)
						break
					}
				}
			}
			if ref := c15Encs(c15RefStable(items)); ordered && strings.Join(ref, ";") != strings.Join(b, ";") {
				e.R.Spec(key, "sorted() output is ordered but not stable (differs from the stable insertion sort)", finding)
			}
			again := append([]object.Object{}, work...)
			if p := c15Guard(func() { sortErr = object.Sort(again) }); p != "" || sortErr != nil {
				e.R.Spec(key, "sorted(sorted(x)) fails", finding)
			} else if strings.Join(c15Encs(again), ";") != strings.Join(b, ";") {
				e.R.Spec(key, "sorted() is not idempotent", finding)
			}
		}
	}
	if scripts {
		g := map[string]any{"xs": object.NewList(append([]object.Object{}, items...))}
		got := c15Script("sorted(xs)", g)
		want := "err"
		if goRes != "err" {
			want = "val:" + c15Enc(object.NewList(work))
		}
		if got == "panic" {
			got = "err"
		}
		e.R.H("script_results", "sorted(xs) -> "+got[:3])
		if got != want {
			e.R.Mismatch("script "+key, got, want, "sorted(xs) through risor.Eval vs object.Sort")
		}
		if goRes != "err" {
			if got2 := c15Script("sorted(sorted(xs)) == sorted(xs)", g); got2 != "1" {
				e.R.Spec("script "+key, "sorted(sorted(xs)) == sorted(xs) is "+got2, finding)
			}
		}
	}
}

// ---------------------------------------------------------------- sets

func c15SetCase(e *Env, items []object.Object, probes []object.Object, scripts bool) {
	encs := c15Encs(items)
	lenc := "L " + strconv.Itoa(len(items))
	if len(items) > 0 {
		lenc += " " + strings.Join(encs, " ")
	}
	key := "set " + lenc
	e.R.Case(key, len(items) >= 2)
	e.R.H("set_len", strconv.Itoa(len(items)))
	model := e.O.Ask("C15", "mkset", lenc)
	var so object.Object
	if p := c15Guard(func() { so = object.NewSet(append([]object.Object{}, items...)) }); p != "" {
		e.R.Spec(key, "NewSet panicked: "+p, "")
		return
	}
	set, isSet := so.(*object.Set)
	goRes := "err"
	if isSet {
		goRes = "ok " + strings.Join(c15Encs(set.SortedItems()), " ; ")
	}
	modelR := model
	if strings.HasPrefix(model, "ok ") {
		var out []string
		if model != "ok -" {
			for _, p := range strings.Split(model[3:], ",") {
				k, err := strconv.Atoi(p)
				if err != nil || k < 0 || k >= len(encs) {
					out = append(out, "?"+p)
				} else {
					out = append(out, encs[k])
				}
			}
		}
		modelR = "ok " + strings.Join(out, " ; ")
	}
	e.R.H("set_result", goRes[:2])
	if goRes != modelR {
		e.R.Mismatch(key, goRes, modelR, "object.NewSet + SortedItems vs the Lean Impl model")
	}
	if !isSet {
		return
	}
	// Spec on the Go result: one slot per (type, ==) class; every item is a member; membership
	// of any probe agrees with iterating the inputs and comparing within the probe's type.
	classes := 0
	for i, it := range items {
		first := true
		for k := 0; k < i; k++ {
			if items[k].Type() == it.Type() && object.Equals(items[k], it) {
				first = false
			}
		}
		if first {
			classes++
		}
	}
	if set.Size() != classes {
		e.R.Spec(key, fmt.Sprintf("the set has %d slots for %d classes of same-type == values", set.Size(), classes), "")
	}
	members := set.SortedItems()
	for i := range members {
		for j := i + 1; j < len(members); j++ {
			if members[i].Type() == members[j].Type() && object.Equals(members[i], members[j]) {
				e.R.Spec(key, "two == values of one type occupy two slots: "+c15Enc(members[i])+" and "+c15Enc(members[j]), "")
			}
		}
	}
	for _, x := range append(append([]object.Object{}, items...), probes...) {
		want := false
		for _, it := range items {
			if it.Type() == x.Type() && object.Equals(it, x) {
				want = true
			}
		}
		got := set.Contains(x).Value()
		if got != want {
			e.R.Spec(key+" probe "+c15Enc(x), fmt.Sprintf("x in set is %v but iterating and comparing gives %v", got, want), "")
		}
		if want2, ok := c15IterContains(set, x); ok && want2 != got {
			e.R.Spec(key+" probe "+c15Enc(x), "x in set disagrees with iterating the set's own items", "")
		}
	}
	if scripts {
		g := map[string]any{"xs": object.NewList(append([]object.Object{}, items...))}
		if got := c15Script("len(set(xs))", g); got != "val:I "+strconv.Itoa(set.Size()) {
			e.R.Mismatch("script "+key, got, "val:I "+strconv.Itoa(set.Size()), "len(set(xs)) through risor.Eval vs object.NewSet")
		}
		if got := c15Script("set(xs)", g); got != "val:"+c15Enc(set) {
			e.R.Mismatch("script "+key, got, "val:"+c15Enc(set), "set(xs) through risor.Eval vs object.NewSet")
		}
		if len(items) >= 1 && len(items) <= 3 {
			g2 := map[string]any{}
			names := []string{"a", "b", "c"}
			for i, it := range items {
				g2[names[i]] = it
			}
			lit := "{" + strings.Join(names[:len(items)], ", ") + "}"
			if got := c15Script(lit, g2); got != "val:"+c15Enc(set) && !(len(items) > 1 && c15SameButZeroSign(got, "val:"+c15Enc(set))) {
				e.R.Mismatch("script "+key+" literal", got, "val:"+c15Enc(set), "set literal through risor.Eval vs object.NewSet")
			}
			if got := c15Script("a in "+lit, g2); got != "1" {
				e.R.Spec("script "+key, "the first item of a set literal is not `in` it: "+got, "")
			}
		}
	}
}

// A set literal pushes its items in source order and BuildSet pops them, so the representative
// kept for +0/-0 may differ from NewSet(items); the two are the same value for the property.
func c15SameButZeroSign(a, b string) bool {
	return strings.ReplaceAll(a, "F 8000000000000000", "F 0000000000000000") == strings.ReplaceAll(b, "F 8000000000000000", "F 0000000000000000")
}

// ---------------------------------------------------------------- driver

func c15_runC15(e *Env) {
	e.R.Rule = "pairs and triples: every ordered pair/triple of a boundary pool (ints at 0, ±1, 2^53±k, int64 extremes; floats adjacent to those, ±0, ±Inf, subnormals; bytes; strings with multi-byte runes and invalid UTF-8; bool; nil; errors; nested lists; maps; sets) " +
		"plus seeded random values (nested to depth 3) paired with a mutated copy; plus a container pool (maps of equal size with different key sets, keys bound to nil/false/0/\"\"/0.0, sets of equal size with different items, all of them nested in lists and maps) and seeded families of related containers (a base map/set/list and copies with one key renamed, one value set to nil, one entry dropped/added, one nested value changed, or wrapped), every ordered pair and same-type triple of each family, == also recomputed entry by entry; sort/set inputs: random lists over the same generators (sort: ≤ 20 items when the guard or a type error is possible, up to 64 otherwise). " +
		"error objects: seeded families of Go errors related by wrapping (fmt.Errorf %w), joining, errz wrappers and equal messages under different identities, held by error objects with either raised flag, built through the Go API and by scripts (errors.new / fmt.errorf / errors.type_error / try) — every ordered pair against the Lean model of error objects and every pair / same-type triple, also lifted into lists and maps, through the laws; containers with a history: one set / map / list object, 2–10 operations drawn from every mutating entry point (set: Add, Remove, DelItem = delete(), Clear; map: SetItem/Set, DelItem/Delete, Pop, SetDefault, Clear, a rejected non-string key; list: Append, Insert, Pop, Remove, DelItem, Clear) interleaved with observations (SortedItems/SortedKeys, Inspect, Iter, List/Keys, Interface, JSON, sorted(), ==), removals aimed at current members, and after EVERY step the hash-based view (in for every value of the case's table, len, truthiness) against the order-based views (iteration, sorted item list, list(), sorted()) and against the Lean history model, on the object API and for a third of the histories through a script. " +
		"A case is distinct by the canonical rendering of its values (floats as IEEE bits); non-trivial when the values are not all identical, lists when length ≥ 2"
	pool, quickN := c15Pool()
	g := &c15Gen{rng: e.Rng.Fork(), pool: pool}
	main := pool
	if e.Quick {
		main = pool[:quickN]
	}
	e.R.Exhaustive = true
	e.R.Note("pool of %d values (all %d in the thorough tier): every ordered pair through the object API and through scripts, every ordered triple on the resulting matrix", len(main), len(pool))

	// 1. exhaustive pairs (object API + scripts) and triples over the pool
	m := c15RunMatrix(e, main, true, "")
	c15Triples(e, m, "")

	// 2. random value families: small matrices of related values (v, mutations of v)
	nFam, famSize := 700, 5
	if !e.Quick {
		nFam, famSize = 16000, 6
	}
	for f := 0; f < nFam; f++ {
		base := g.value(3)
		fam := []object.Object{base}
		for len(fam) < famSize {
			if g.rng.Chance(75) {
				fam = append(fam, g.mutate(Pick(g.rng, fam)))
			} else {
				fam = append(fam, g.value(2))
			}
		}
		fm := c15RunMatrix(e, fam, f%10 == 0, "rnd-")
		c15Triples(e, fm, "rnd-")
	}

	// 2b. containers: the exhaustive container pool (maps / sets / nested containers: same size with
	// different key sets, nil and other falsy values) and families of related containers
	cp := c15ContainerPool()
	e.R.Note("container pool of %d maps, sets and nested containers: every ordered pair through the object API and through scripts, every ordered same-type triple", len(cp))
	cm := c15RunMatrix(e, cp, true, "cont-")
	c15Triples(e, cm, "cont-")
	nCFam, cFamSize := 600, 5
	if !e.Quick {
		nCFam, cFamSize = 12000, 6
	}
	for f := 0; f < nCFam; f++ {
		fam := []object.Object{g.container(2)}
		for len(fam) < cFamSize {
			fam = append(fam, g.relative(Pick(g.rng, fam), 2))
		}
		fm := c15RunMatrix(e, fam, f%10 == 0, "crel-")
		c15Triples(e, fm, "crel-")
	}

	// 3. sorted(): random lists
	nSort := 3000
	if !e.Quick {
		nSort = 80000
	}
	var sortInputs [][]object.Object
	for s := 0; s < nSort; s++ {
		var items []object.Object
		mode := g.rng.Intn(10)
		switch {
		case mode < 3: // numbers only, small range, long lists allowed when no inexact int can meet a float
			n := g.rng.Intn(64)
			floats := g.rng.Bool()
			for i := 0; i < n; i++ {
				switch g.rng.Intn(3) {
				case 0:
					items = append(items, c15I(int64(g.rng.Intn(9))-4))
				case 1:
					if floats {
						items = append(items, c15F(float64(g.rng.Intn(17)-8)/2))
					} else {
						items = append(items, c15I(c15P53+int64(g.rng.Intn(5))))
					}
				default:
					items = append(items, c15B(byte(g.rng.Intn(5))))
				}
			}
		case mode < 5: // boundary numbers (inside the guard quite often), ≤ 20 items
			n := g.rng.Intn(21)
			for i := 0; i < n; i++ {
				items = append(items, g.scalarsOf(g.rng.Intn(3)))
			}
		case mode < 6: // strings
			n := g.rng.Intn(40)
			for i := 0; i < n; i++ {
				items = append(items, g.scalarsOf(3))
			}
		case mode < 8: // lists of numbers / nested
			n := g.rng.Intn(13)
			for i := 0; i < n; i++ {
				k := g.rng.Intn(3)
				sub := make([]object.Object, k)
				for x := range sub {
					if g.rng.Chance(80) {
						sub[x] = c15I(int64(g.rng.Intn(3)))
					} else {
						sub[x] = g.scalarsOf(g.rng.Intn(3))
					}
				}
				items = append(items, object.NewList(sub))
			}
		case mode < 9: // one kind of scalar (bool, nil, error)
			n := g.rng.Intn(12)
			k := 4 + g.rng.Intn(3)
			for i := 0; i < n; i++ {
				items = append(items, g.scalarsOf(k))
			}
		default: // anything (mostly not mutually comparable), ≤ 8 items
			n := g.rng.Intn(9)
			for i := 0; i < n; i++ {
				items = append(items, g.value(1))
			}
		}
		sortInputs = append(sortInputs, items)
	}
	// smallest inputs first, so that the first reported failure is a small one
	sort.SliceStable(sortInputs, func(i, j int) bool { return len(sortInputs[i]) < len(sortInputs[j]) })
	for s, items := range sortInputs {
		c15SortCase(e, items, s%4 == 0)
	}
	// the committed witness of the known finding is always run
	c15SortCase(e, []object.Object{c15I(c15P53 + 1), c15F(float64(c15P53)), c15I(c15P53)}, true)

	// 4. sets
	nSet := 2000
	if !e.Quick {
		nSet = 50000
	}
	for s := 0; s < nSet; s++ {
		n := g.rng.Intn(9)
		items := make([]object.Object, n)
		for i := range items {
			if g.rng.Chance(4) {
				items[i] = g.value(1) // may be unhashable
			} else if g.rng.Chance(50) && i > 0 {
				items[i] = g.mutate(items[g.rng.Intn(i)])
			} else {
				items[i] = g.hashable()
			}
		}
		probes := []object.Object{g.hashable(), g.hashable(), g.value(1)}
		if n > 0 {
			probes = append(probes, g.mutate(items[g.rng.Intn(n)]))
		}
		c15SetCase(e, items, probes, s%4 == 0)
	}

	// 5. values that carry more than == may look at: error objects holding related Go errors;
	// set / map / list objects reached through a history (c15hist.go)
	c15Histories(e, g)

	// 6. byte_slice and time values, and their meeting with strings and other scalars (c15x.go)
	c15XPairs(e, g)
}
