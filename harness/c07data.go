package main

// C07, round 6: host DATA globals converted by copy.
//
// A host global that is plain Go data ([]any, map[string]any, []int64, map[string]int64) is
// converted to a NEW Risor list/map by applyOptions at construction and at the start of every
// RunCode.  Scripts update their copy in place (data.append(x), cfg["n"] = cfg["n"] - 1) and end
// with a value, a runtime error at depth or a recovered panic - possibly half way through their
// updates; later RunCode invocations on the same VM are handed no options at all, only another
// option (WithConcurrency), or WithGlobals again (with the same or with changed Go data).  Every
// invocation is compared with the Lean model (`C07 data`: dRunCode) and with the same invocation
// on a fresh VM constructed with the host's current Go data (Spec: dSpecAt).

import (
	"context"
	"fmt"
	"strconv"
	"strings"

	"github.com/risor-io/risor/object"
	"github.com/risor-io/risor/vm"
)

var c07DataNames = []string{"boom", "cfg", "data"}

type c07DVal struct {
	Items []int64
	Ctr   int64
}

func (d c07DVal) wire() string {
	if len(d.Items) == 0 {
		return "_/" + strconv.FormatInt(d.Ctr, 10)
	}
	xs := make([]string, len(d.Items))
	for i, x := range d.Items {
		xs[i] = strconv.FormatInt(x, 10)
	}
	return strings.Join(xs, ".") + "/" + strconv.FormatInt(d.Ctr, 10)
}

type c07DInv struct {
	Give  *c07DVal // the Go data of a WithGlobals option handed to this RunCode (nil: not handed)
	Typed bool     // Give as []int64/map[string]int64 instead of []any/map[string]any
	Conc  bool     // WithConcurrency() is handed as well / alone
	Ops1  []string // updates before the point where the script may fail: a<int> | d
	Ops2  []string // updates after it
	End   string   // ok | err | panic
	Depth int
}

func (v c07DInv) executed() []string {
	if v.End == "ok" {
		return append(append([]string(nil), v.Ops1...), v.Ops2...)
	}
	return v.Ops1
}

func (v c07DInv) options() string {
	s := "none"
	if v.Give != nil {
		s = "WithGlobals"
	}
	if v.Conc {
		if v.Give != nil {
			s += "+WithConcurrency"
		} else {
			s = "WithConcurrency only"
		}
	}
	return s
}

func (v c07DInv) wire() string {
	g, o := "_", "_"
	if v.Give != nil {
		g = v.Give.wire()
	}
	if ex := v.executed(); len(ex) > 0 {
		o = strings.Join(ex, ".")
	}
	return g + ":" + o
}

func (v c07DInv) String() string {
	g := "-"
	if v.Give != nil {
		g = v.Give.wire()
		if v.Typed {
			g += "(typed)"
		}
	}
	return fmt.Sprintf("runcode[opts=%s give=%s end=%s depth=%d ops=%s|%s]", v.options(), g, v.End, v.Depth,
		strings.Join(v.Ops1, "."), strings.Join(v.Ops2, "."))
}

func c07DataOps(ops []string) string {
	var b strings.Builder
	for _, o := range ops {
		if o == "d" {
			b.WriteString("  cfg[\"n\"] = cfg[\"n\"] - 1\n")
		} else {
			b.WriteString("  data.append(" + o[1:] + ")\n")
		}
	}
	return b.String()
}

func (v c07DInv) source() string {
	mid := ""
	switch v.End {
	case "err":
		mid = "  one + \"s\"\n"
	case "panic":
		mid = "  boom()\n"
	}
	return "func descend(n) {\n  if n > 0 { return descend(n-1) }\n  one := 1\n" + c07DataOps(v.Ops1) + mid + c07DataOps(v.Ops2) +
		"  return [data, cfg[\"n\"]]\n}\ndescend(" + strconv.Itoa(v.Depth) + ")\n"
}

// c07DataHost is the host side: its Go data (which no script may change) and one VM
type c07DataHost struct {
	m     *vm.VirtualMachine
	boom  object.Object
	slice any // the Go values handed in last, kept to see that they are never changed
	mp    any
}

func (h *c07DataHost) globals(d c07DVal, typed bool) map[string]any {
	if typed {
		s := append([]int64(nil), d.Items...)
		m := map[string]int64{"n": d.Ctr}
		h.slice, h.mp = s, m
	} else {
		s := make([]any, len(d.Items))
		for i, x := range d.Items {
			s[i] = x
		}
		m := map[string]any{"n": d.Ctr}
		h.slice, h.mp = s, m
	}
	return map[string]any{"boom": h.boom, "data": h.slice, "cfg": h.mp}
}

// hostData renders the Go data the host handed in last as it is NOW
func (h *c07DataHost) hostData() string {
	var d c07DVal
	switch s := h.slice.(type) {
	case []int64:
		d.Items = s
	case []any:
		for _, x := range s {
			n, ok := x.(int64)
			if !ok {
				return fmt.Sprintf("non-int element %v", x)
			}
			d.Items = append(d.Items, n)
		}
	}
	switch m := h.mp.(type) {
	case map[string]int64:
		d.Ctr = m["n"]
	case map[string]any:
		n, ok := m["n"].(int64)
		if !ok || len(m) != 1 {
			return fmt.Sprintf("map changed: %v", m)
		}
		d.Ctr = n
	}
	return d.wire()
}

func c07NewDataHost(d0 c07DVal, typed bool, atCtor bool) *c07DataHost {
	h := &c07DataHost{boom: object.NewBuiltin("boom", func(ctx context.Context, args ...object.Object) object.Object { panic("boom") })}
	main := c07CompileWith(c07DataNames, "")
	if atCtor {
		h.m = vm.New(main, vm.WithGlobals(h.globals(d0, typed)))
	} else {
		h.m = vm.New(main)
	}
	return h
}

func c07RenderObj(o object.Object) string {
	switch x := o.(type) {
	case *object.Int:
		return strconv.FormatInt(x.Value(), 10)
	case *object.List:
		xs := []string{}
		for _, it := range x.Value() {
			xs = append(xs, c07RenderObj(it))
		}
		if len(xs) == 0 {
			return "_"
		}
		return strings.Join(xs, ".")
	case nil:
		return "<nil>"
	}
	return "<" + string(o.Type()) + ">"
}

// run executes one invocation and reports "outcome data/cfg[n]": the outcome is ok=<what the
// script read last, as items/ctr> or the error class; then what vm.Get finds afterwards
func (h *c07DataHost) run(v c07DInv) (out string) {
	defer func() {
		if r := recover(); r != nil {
			out = fmt.Sprintf("go-panic(%v)", r)
		}
	}()
	code := c07CompileWith(c07DataNames, v.source())
	var opts []vm.Option
	if v.Give != nil {
		opts = append(opts, vm.WithGlobals(h.globals(*v.Give, v.Typed)))
	}
	if v.Conc {
		opts = append(opts, vm.WithConcurrency())
	}
	err := h.m.RunCode(context.Background(), code, opts...)
	outcome := c07ErrClass(err)
	if err == nil {
		outcome = "ok=?"
		if tos, ok := h.m.TOS(); ok {
			if l, ok := tos.(*object.List); ok && len(l.Value()) == 2 {
				outcome = "ok=" + c07RenderObj(l.Value()[0]) + "/" + c07RenderObj(l.Value()[1])
			}
		}
	}
	got := "?"
	if d, err := h.m.Get("data"); err == nil {
		got = c07RenderObj(d)
	} else {
		got = "get-error(" + err.Error() + ")"
	}
	if c, err := h.m.Get("cfg"); err == nil {
		if mp, ok := c.(*object.Map); ok {
			got += "/" + c07RenderObj(mp.Get("n"))
		} else {
			got += "/" + c07RenderObj(c)
		}
	} else {
		got += "/get-error(" + err.Error() + ")"
	}
	return outcome + " " + got
}

func c07DataExpect(v c07DInv, val string) string {
	switch v.End {
	case "err":
		return "err=runtime " + val
	case "panic":
		return "err=panic " + val
	}
	return "ok=" + val + " " + val
}

func c07DataKey(d0 c07DVal, typed, atCtor bool, h []c07DInv) string {
	xs := []string{fmt.Sprintf("data-globals d0=%s typed=%v at-construction=%v", d0.wire(), typed, atCtor)}
	for _, v := range h {
		xs = append(xs, v.String())
	}
	return strings.Join(xs, " ; ")
}

func c07RunDataHistory(e *Env, d0 c07DVal, typed, atCtor bool, h []c07DInv) {
	if len(h) == 0 {
		return
	}
	if !atCtor {
		// the globals arrive with the first RunCode
		g := d0
		h[0].Give, h[0].Typed = &g, typed
	}
	key := c07DataKey(d0, typed, atCtor, h)
	nontrivial := false
	for k, v := range h {
		if k+1 < len(h) && len(v.executed()) > 0 {
			nontrivial = true
		}
	}
	e.R.Case(key, nontrivial && len(h) >= 2)
	e.R.H("data_globals_history_length", strconv.Itoa(len(h)))
	e.R.H("data_globals_supplied", map[bool]string{true: "at construction", false: "with the first RunCode"}[atCtor]+map[bool]string{true: ", typed Go data", false: ", []any/map[string]any"}[typed])

	req := []string{"C07", "data", d0.wire()}
	for _, v := range h {
		req = append(req, v.wire())
	}
	reply := strings.Split(e.O.Ask(req...), "\t")
	if reply[0] != "ok" || len(reply) != len(h)+1 {
		e.R.Mismatch(key, "-", strings.Join(reply, " "), "oracle rejected the data-globals history")
		return
	}
	host := c07NewDataHost(d0, typed, atCtor)
	cur, curTyped := d0, typed
	dirtyDiffers := false
	for k, v := range h {
		m := strings.Split(reply[k+1], ":")
		if len(m) != 4 {
			e.R.Mismatch(key, "-", reply[k+1], "malformed oracle reply")
			return
		}
		impl, spec, input, dirty := m[0], m[1], m[2], m[3]
		if dirty != impl {
			dirtyDiffers = true
		}
		tag := fmt.Sprintf("%s @%d", key, k)
		got := host.run(v)
		e.R.H("data_globals_options", v.options())
		e.R.H("data_globals_ending", v.End)
		e.R.H("data_globals_updates_executed", strconv.Itoa(c07Min(len(v.executed()), 4)))
		if k > 0 {
			e.R.H("data_globals_previous_ending->options", h[k-1].End+"->"+v.options())
		}
		if want := c07DataExpect(v, impl); got != want {
			e.R.Mismatch(tag, got, want, "outcome and contents of the data globals (script's last read; vm.Get afterwards) of a RunCode on a reused VM")
		}
		if now := host.hostData(); now != input {
			e.R.Mismatch(tag, "the host's Go data reads "+now, input, "the Go data the host handed in (vm.inputGlobals) after the invocation")
		}
		// Spec on the real code: the same invocation on a fresh VM constructed with the host's
		// current Go data
		ref := c07NewDataHost(cur, curTyped, true)
		refGot := ref.run(v)
		wantSpec := c07DataExpect(v, spec)
		if refGot != wantSpec {
			e.R.Mismatch(tag, "fresh VM: "+refGot, wantSpec, "the Spec model (dSpecAt) against a fresh VM constructed with the host's current data")
		}
		if got != wantSpec || got != refGot {
			e.R.Spec(tag, fmt.Sprintf("invocation %d (%s) on the reused VM: %s; the same invocation on a fresh VM constructed with the host's current data %s: %s (model Spec: %s) - the outcome depends on what earlier invocations did to their copies of the host's data", k, v.String(), got, cur.wire(), refGot, wantSpec), "")
		}
		if v.Give != nil {
			cur, curTyped = *v.Give, v.Typed
		}
	}
	e.R.H("data_globals_dirty_flag_variant_would_differ", strconv.FormatBool(dirtyDiffers))
}

func c07RandDataOps(rng *RNG, max int) []string {
	n := rng.Intn(max + 1)
	ops := make([]string, n)
	for i := range ops {
		if rng.Chance(35) {
			ops[i] = "d"
		} else {
			ops[i] = "a" + strconv.Itoa(rng.Intn(19)-4)
		}
	}
	return ops
}

func c07RandDVal(rng *RNG) c07DVal {
	d := c07DVal{Ctr: int64(rng.Intn(9) - 2)}
	for n := rng.Intn(4); n > 0; n-- {
		d.Items = append(d.Items, int64(rng.Intn(30)-5))
	}
	return d
}

func c07RunData(e *Env) {
	d0 := c07DVal{Items: []int64{7}, Ctr: 3}
	// the committed witness of the contrast theorem (dirtyFlag_depends_on_history), first
	c07RunDataHistory(e, d0, false, true, []c07DInv{{End: "ok", Ops1: []string{"a1", "d"}}, {End: "ok", Ops1: []string{"a1", "d"}}})
	// directed: supplied at construction / with the first RunCode x Go types x how the first
	// invocation ends (half way through its updates) x which options the second one is handed x
	// how it ends; then a third one without options
	changed := c07DVal{Items: []int64{7, 8}, Ctr: 1}
	for _, atCtor := range []bool{true, false} {
		for _, typed := range []bool{false, true} {
			for _, end1 := range []string{"ok", "err", "panic"} {
				for opt2 := 0; opt2 < 5; opt2++ {
					for _, end2 := range []string{"ok", "err", "panic"} {
						x := c07DInv{End: end1, Depth: 2, Ops1: []string{"a1", "d"}, Ops2: []string{"a2"}}
						y := c07DInv{End: end2, Depth: 1, Ops1: []string{"d", "a3"}, Ops2: []string{"d"}}
						switch opt2 {
						case 1:
							y.Conc = true
						case 2:
							g := d0
							y.Give, y.Typed = &g, typed
						case 3:
							g := changed
							y.Give, y.Typed = &g, !typed
						case 4:
							g := changed
							y.Give, y.Typed, y.Conc = &g, typed, true
						}
						z := c07DInv{End: "ok", Ops2: []string{"a4"}}
						c07RunDataHistory(e, d0, typed, atCtor, []c07DInv{x, y})
						c07RunDataHistory(e, d0, typed, atCtor, []c07DInv{x, y, z})
					}
				}
			}
		}
	}
	// sampled: longer histories, random data, updates, endings, depths and options
	n := 1500
	if e.Quick {
		n = 300
	}
	rng := e.Rng.Fork()
	ends := []string{"ok", "ok", "err", "panic"}
	for i := 0; i < n; i++ {
		d := c07RandDVal(rng)
		typed, atCtor := rng.Chance(30), rng.Chance(70)
		h := make([]c07DInv, 2+rng.Intn(5))
		for k := range h {
			v := c07DInv{End: ends[rng.Intn(len(ends))], Depth: rng.Intn(4), Ops1: c07RandDataOps(rng, 3), Ops2: c07RandDataOps(rng, 2), Conc: rng.Chance(20)}
			if rng.Chance(30) {
				g := d
				if rng.Bool() {
					g = c07RandDVal(rng)
				}
				v.Give, v.Typed = &g, rng.Chance(30)
				d = g
			}
			h[k] = v
		}
		c07RunDataHistory(e, c07firstD(h, d, rng), typed, atCtor, h)
	}
}

// c07firstD draws the data the VM is constructed with (independent of the data handed in later)
func c07firstD(h []c07DInv, last c07DVal, rng *RNG) c07DVal {
	if rng.Chance(50) {
		return last
	}
	return c07RandDVal(rng)
}
