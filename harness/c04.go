package main

// C04 — statements are stack-neutral.  Every program is compiled by the REAL compiler; each
// code object's bytecode goes to the Lean oracle, which infers a height certificate and runs
// the verified checker (RisorModel/C04: check_sound).  A rejected code object is a concrete
// candidate: the harness scales the program's loop bounds past the stack capacity and reports
// the overflow as the replay.

import (
	"fmt"
	"os"
	"path/filepath"
	"strings"
	"time"

	"github.com/risor-io/risor/compiler"
)

func init() { commands["C04"] = runC04 }

// scaleLoops multiplies every loop bound the generator emitted (the literal in `i < K`,
// `c < K`, `c >= K`) by f.
func scaleLoops(p *N, f int64) *N {
	q := cloneN(p)
	Walk(q, func(x *N, _ []*N) {
		switch x.K {
		case "for3":
			x.C[1].C[1].I *= f
		case "forcond":
			x.C[0].C[1].I *= f
		case "forever":
			if len(x.C[0].C) > 0 {
				first := x.C[0].C[0]
				if first.K == "expr" && first.C[0].K == "if" && first.C[0].C[0].K == "infix" {
					first.C[0].C[0].C[1].I *= f
				}
			}
		case "forrange", "forin":
			if x.C[0].K == "int" {
				x.C[0].I *= f
			}
		}
	}, nil)
	return q
}

func hasNamedFuncStmt(p *N) bool {
	found := false
	Walk(p, func(x *N, path []*N) {
		if x.K == "func" && x.S != "" && len(path) > 0 && path[len(path)-1].K == "expr" {
			found = true
		}
	}, nil)
	return found
}

type c04Verdict struct {
	accepted bool
	detail   string
	maxH     int
}

func c04CheckCode(e *Env, code *compiler.Code) (bad []string, n int, maxH int) {
	for _, cc := range code.Flatten() {
		kind := "fn"
		if cc.IsRoot() {
			kind = "main"
		}
		rep := e.O.Ask("C04", "stack", kind, CodeText(cc))
		n++
		f := strings.Split(rep, "\t")
		switch f[0] {
		case "accept":
			var h int
			fmt.Sscanf(f[1], "%d", &h)
			if h > maxH {
				maxH = h
			}
			e.R.H("verdict", "accept")
		case "reject":
			e.R.H("verdict", "reject")
			bad = append(bad, fmt.Sprintf("code %s: %s", cc.ID(), strings.Join(f[1:], " ")))
		default:
			e.R.H("verdict", "error")
			bad = append(bad, fmt.Sprintf("code %s: oracle %s", cc.ID(), rep))
		}
	}
	return
}

func runC04(e *Env) {
	e.R.Rule = "programs from the structured generator (half of them control-flow heavy: loop form x switch/if/ternary/&& nesting x " +
		"break/continue/return placement) and every script in the repository, compiled by the real compiler; a case is one code object; " +
		"distinct by its instruction text; non-trivial when it contains a backward jump and a break/continue/return inside the loop " +
		"(JUMP_FORWARD/RETURN_VALUE between the loop head and the backward jump); " +
		"plus template-string programs (fragment list incl. empty interpolations x expression context x placement; non-trivial when the template has a `{}`) " +
		"and nested-loop programs (7 loop forms x 4 containers x exit by exhaustion/break/continue/return, main code or function; a case is one program; " +
		"non-trivial when a loop without loop variables ends by exhaustion inside another loop) " +
		"and literal / membership programs (list literals of 0..700 items, `in` / `not in` with identifier / constant / computed subjects against literal lists of constants, " +
		"literal lists with computed items and variables x 4 expression contexts x 4 loop placements; a case is one program; non-trivial when a literal has more than 256 items " +
		"or a computed subject is tested against a literal list of constants)"
	nProg := 2500
	if !e.Quick {
		nProg = 60000
	}
	rng := e.Rng.Fork()
	frng := e.Rng.Fork().Fork() // the fragment-only generator's stream (c04frag.go)
	funrng := e.Rng.Fork().Fork().Fork() // the function-fragment generator's stream (c04fun.go)
	mvrng := e.Rng.Fork().Fork().Fork().Fork() // the multi-variable statement generator's stream (c04multi.go)
	obsrng := e.Rng.Fork().Fork().Fork().Fork().Fork() // template strings and nested loops with observed runs (c04obs.go)
	litrng := e.Rng.Fork().Fork().Fork().Fork().Fork().Fork() // list literals of every length and membership tests (c04lit.go)
	hostrng := e.Rng.Fork().Fork().Fork().Fork().Fork().Fork().Fork() // histories of host invocations on one VM (c04host.go); forked last: the other streams stay as they were
	swrng := e.Rng.Fork().Fork().Fork().Fork().Fork().Fork().Fork().Fork() // switch statements with empty clauses in every statement position (c04switch.go)
	if only := os.Getenv("VERIF_C04_ONLY"); only != "" { // development aid: one part of the check alone
		switch only {
		case "host":
			c04Host(e, hostrng)
		case "switch":
			c04Switch(e, swrng)
		}
		return
	}
	for i := 0; i < nProg; i++ {
		r := rng.Fork()
		o := GenOpts{MaxStmts: 3 + r.Intn(3), MaxDepth: 2 + r.Intn(3), Budget: 60 + r.Intn(200), Funcs: true, Closures: true,
			Containers: true, Strings: r.Bool(), CtlHeavy: i%2 == 0, NoCtlInSwitch: r.Chance(85)}
		p := GenProgram(r, o)
		c04Program(e, p, fmt.Sprintf("gen#%d", i))
		c04FragTie(e, p, frng)
		c04FunTie(e, p, funrng)
		c04CloTie(e, p) // the closure fragment F5 (c04clo.go)
		c04SeqTie(e, p) // the container fragment F6 (c04seq.go)
	}
	c04Multi(e, mvrng)
	c04Obs(e, obsrng)
	c04Lit(e, litrng)
	c04Switch(e, swrng)
	c04Host(e, hostrng)
	c04Directed(e)
	c04FragDeep(e)
	// repository scripts
	var files []string
	for _, dir := range []string{"examples", "tests", "vm", "cmd", "research"} {
		filepath.WalkDir(filepath.Join("/repo", dir), func(path string, d os.DirEntry, err error) error {
			if err == nil && !d.IsDir() && (strings.HasSuffix(path, ".risor") || strings.HasSuffix(path, ".tm")) {
				files = append(files, path)
			}
			return nil
		})
	}
	for _, f := range files {
		b, err := os.ReadFile(f)
		if err != nil {
			continue
		}
		code, err := CompileSrc(string(b))
		if err != nil {
			e.R.H("repo_scripts", "does-not-compile")
			continue
		}
		e.R.H("repo_scripts", "checked")
		bad, _, _ := c04CheckCode(e, code)
		for _, cc := range code.Flatten() {
			e.R.Case(CodeText(cc), c04NonTrivial(CodeText(cc)))
		}
		if len(bad) > 0 {
			// scripts have no generator tree: attribute by text
			src := string(b)
			finding := ""
			if strings.Contains(src, "\nfunc ") || strings.HasPrefix(src, "func ") {
				finding = "C04-named-func-stmt"
			}
			e.R.Spec("script "+strings.TrimPrefix(f, "/repo/"), strings.Join(bad, "; "), finding)
		}
	}
}

func c04NonTrivial(text string) bool {
	i := strings.Index(text, "JUMP_BACKWARD")
	if i < 0 {
		return false
	}
	head := text[:i]
	return strings.Contains(head, "JUMP_FORWARD") || strings.Contains(head, "RETURN_VALUE")
}

var c04Exhibited int

func c04Program(e *Env, p *N, id string) {
	src := Src(p)
	code, err := CompileSrc(src)
	if err != nil {
		e.R.H("compile", ErrClass(err.Error()))
		return
	}
	e.R.H("compile", "ok")
	for k := range Kinds(p) {
		e.R.H("constructs", k)
	}
	for _, cc := range code.Flatten() {
		t := CodeText(cc)
		e.R.Case(t, c04NonTrivial(t))
	}
	bad, _, maxH := c04CheckCode(e, code)
	e.R.H("max_height", fmt.Sprintf("%02d", min(maxH, 40)))
	if len(bad) == 0 {
		// accepted: the certificate must describe the real VM's heights, instruction by instruction
		c04HeightsCheck(e, src, code, 5*time.Second)
		return
	}
	// Which known guard does the program fall under?
	finding := ""
	switch {
	case CtlUnderOperands(p):
		finding = "C04-ctl-under-operands"
	case hasNamedFuncStmt(p):
		finding = "C04-named-func-stmt"
	}
	detail := strings.Join(bad, "; ")
	if finding == "" && c04Exhibited >= 3 {
		// the first three unknown leaks were shrunk and exhibited on the real VM (minutes each when the
		// scaled programs run long); the rest are reported with their certificate failure only, so that a
		// change that unbalances a COMMON statement form does not make the check run for hours
		e.R.Spec(src, detail+" | (not shrunk: three unknown leaks were already exhibited in this run)", "")
		return
	}
	if finding == "" {
		c04Exhibited++
		// unknown leak: shrink it and try to exhibit the overflow by scaling the loop bounds
		small := Shrink(p, func(q *N) bool {
			if CtlUnderOperands(q) || hasNamedFuncStmt(q) {
				return false
			}
			c, err := CompileSrc(Src(q))
			if err != nil {
				return false
			}
			b, _, _ := c04CheckCode(e, c)
			return len(b) > 0
		})
		base := EvalSrc(Src(small), 10*time.Second)
		detail += " | minimal program:\n" + Src(small)
		for _, f := range []int64{300, 3000, 30000} {
			big := EvalSrc(Src(scaleLoops(small, f)), 20*time.Second)
			if ErrClass(big.Err) == "panic" && ErrClass(base.Err) != "panic" {
				detail += fmt.Sprintf(" | with loop bounds x%d the run fails: %s\n%s", f, big.Err, Src(scaleLoops(small, f)))
				break
			}
		}
		e.R.Spec(Src(small), detail, "")
		return
	}
	e.R.Spec(src, detail, finding)
}

// directed control-flow placements: %d is the loop bound.  operand = the break/continue/return
// sits inside an expression that has pending operands (guard of the known finding).
var c04Templates = []struct {
	src     string
	operand bool
}{
	{"x := 0\nfor i := 0; i < %d; i++ { switch i { case -1: x = 1\n default: continue } }\nx", false},
	{"x := 0\nfor i := range %d { switch i { case 5: continue }; x++ }\nx", false},
	{"x := 0\nfor i := range %d { switch i { case 5: break }; x++ }\nx", false},
	{"x := 0\nfor i := 0; i < %d; i++ { switch i { case 1: switch x { case 0: continue } }; x++ }\nx", false},
	{"x := 0\nfor i := 0; i < %d; i++ { if i > 2 { if i > 3 { continue } }; x++ }\nx", false},
	{"x := 0\nfor i := 0; i < %d; i++ { x = i > 1 && i < 5 ? x + 1 : x }\nx", false},
	{"func f(n) { for i := 0; i < n; i++ { switch i { case 7: return i } }; return -1 }\nf(%d)", false},
	{"func f(n) { for i := range n { if i == n - 1 { return i } }; return -1 }\nf(%d)", false},
	{"x := 0\nfor i := 0; i < %d; i++ { func g() { x++ } ; g() }\nx", false},
	{"x := 0\nfor i := 0; i < %d; i++ { y := [i, i + 1]; x += y[0] }\nx", false},
	{"x := 0\nfor i := 0; i < %d; i++ { a, b := [i, 1]; x += b }\nx", false},
	{"x := 0\nfor i := 0; i < %d; i++ { x += try(func() { error(\"e\") }, 1) }\nx", false},
	{"x := 0\nfor i := 0; i < %d; i++ { s := 'a{i}b'; x += len(s) }\nx", false},
	{"x := 0\nfor i := 0; i < %d; i++ { x = [1, 2, 3] | len }\nx", false},
	{"x := 0\nl := [1, 2, 3]\nfor i := 0; i < %d; i++ { for _, v := range l { if v == 2 { break }; x += v } }\nx", false},
	{"x := 0\nfor i := 0; i < %d; i++ { for v in [1, 2, 3] { if v == 2 { continue }; x += v } }\nx", false},
	{"x := 0\nfor i := 0; i < %d; i++ { m := {\"a\": i}; m[\"a\"] += 1; x = m[\"a\"] }\nx", false},
	{"x := 0\nfor x < %d { x++; if x %% 2 == 0 { continue }; if x > 100000 { break } }\nx", false},
	{"x := 0\nfor { x++; if x >= %d { break } }\nx", false},
	{"x := 0\nfor i := 0; i < %d; i++ { for x; x > 5; x++ { } }\nx", false},
	{"x := 0\nfor i := 0; i < %d; i++ { x += try(func() { for _, v := range [1, 2, 3] { error(\"boom\") } }, 1) }\nx", false},
	{"x := 0\nfor i := 0; i < %d; i++ { x += try(func() { y := [1, [2, error(\"boom\")]] }, 1) }\nx", false},
	{"x := 0\nfor i := 0; i < %d; i++ { x = 1 + if i >= 0 { continue } else { 2 } }\nx", true},
	{"x := 0\nfor i := 0; i < %d; i++ { y := [1, 2, if i >= 0 { continue }] }\nx", true},
	{"x := 0\nfor i := 0; i < %d; i++ { print(i, if i >= 0 { continue }) }\nx", true},
	{"x := 0\nfor i := range %d { x = 1 + if i >= 0 { break } else { 2 } }\nx", true},
}

func c04Directed(e *Env) {
	for ti, t := range c04Templates {
		src := fmt.Sprintf(t.src, 5)
		code, err := CompileSrc(src)
		if err != nil {
			e.R.Mismatch(src, "does not compile: "+err.Error(), "compiles", "directed C04 template")
			continue
		}
		for _, cc := range code.Flatten() {
			e.R.Case(CodeText(cc), c04NonTrivial(CodeText(cc)))
		}
		bad, _, _ := c04CheckCode(e, code)
		e.R.H("directed", fmt.Sprintf("template%02d", ti))
		// dynamic side: the outcome class must not depend on the iteration count
		small := EvalSrc(src, 10*time.Second)
		big := EvalSrc(fmt.Sprintf(t.src, 102400), 120*time.Second)
		leak := ErrClass(big.Err) == "panic" && ErrClass(small.Err) != "panic"
		finding := ""
		if t.operand {
			finding = "C04-ctl-under-operands"
		}
		switch {
		case len(bad) > 0:
			d := strings.Join(bad, "; ")
			if leak {
				d += " | with bound 102400 the run fails: " + big.Err
			}
			e.R.Spec(src, d, finding)
		case leak:
			// the verified checker accepted but the real VM overflowed: the effect table or the
			// correspondence is wrong -> broken obligation with a concrete failing input
			e.R.Spec(fmt.Sprintf(t.src, 102400), "checker accepted the bytecode but the run fails only at the large bound: "+big.Err, "")
		}
	}
}
