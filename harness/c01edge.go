package main

// C01, edges of the core (models: lean/RisorModel/C01/Edge.lean, theorems: EdgeProps.lean).
//
// (1) multi-ASSIGNMENT `n1, …, nk = [e1, …, ek]` over globals, locals, captured variables and
//     globals assigned from inside a function: swap / rotate / fibonacci-step idioms and random
//     integer item expressions that read the assigned names, incl. count mismatches.  The real
//     pipeline's final variables are compared with the model machine on compMulti (Impl) and with
//     the Spec (simultaneous assignment); the real bytecode of the statement is compared with
//     compMulti (BUILD_LIST n; UNPACK k; stores in reverse order of the names).
// (2) `int ** int` at the edges: negative exponents, bases 0 / ±1 / ±2, results around 2^53 and 2^63,
//     through the whole pipeline (literal operands and variables).

import (
	"fmt"
	"strconv"
	"strings"
	"time"
)

type c01edgeExp struct {
	op   string // "lit", "var", "+", "-", "*"
	i    int64
	k    int
	a, b *c01edgeExp
}

func (x *c01edgeExp) src(names []string) string {
	switch x.op {
	case "lit":
		if x.i < 0 {
			return "(" + strconv.FormatInt(x.i, 10) + ")"
		}
		return strconv.FormatInt(x.i, 10)
	case "var":
		return names[x.k]
	}
	return "(" + x.a.src(names) + " " + x.op + " " + x.b.src(names) + ")"
}

func (x *c01edgeExp) rpn(sb *[]string) {
	switch x.op {
	case "lit":
		*sb = append(*sb, strconv.FormatInt(x.i, 10))
	case "var":
		*sb = append(*sb, "v"+strconv.Itoa(x.k))
	default:
		x.a.rpn(sb)
		x.b.rpn(sb)
		*sb = append(*sb, x.op)
	}
}

// vars in the order the compiler resolves them (operands left to right)
func (x *c01edgeExp) vars(out *[]int) {
	switch x.op {
	case "var":
		*out = append(*out, x.k)
	case "lit":
	default:
		x.a.vars(out)
		x.b.vars(out)
	}
}

func c01edgeVar(k int) *c01edgeExp { return &c01edgeExp{op: "var", k: k} }

func c01edgeRandExp(r *RNG, m, d int) *c01edgeExp {
	if d == 0 || r.Chance(35) {
		if r.Chance(70) {
			return c01edgeVar(r.Intn(m))
		}
		return &c01edgeExp{op: "lit", i: int64(r.Intn(21)) - 6}
	}
	return &c01edgeExp{op: Pick(r, []string{"+", "-", "*", "+"}), a: c01edgeRandExp(r, m, d-1), b: c01edgeRandExp(r, m, d-1)}
}

type c01edgeMulti struct {
	m       int
	init    []int64
	targets []int
	items   []*c01edgeExp
	place   string // global | local | free | global-in-func
	shape   string
}

func c01edgeGenMulti(r *RNG) c01edgeMulti {
	c := c01edgeMulti{}
	c.m = 2 + r.Intn(4)
	for i := 0; i < c.m; i++ {
		v := int64(r.Intn(40)) - 9
		if r.Chance(6) {
			v = int64(1)<<62 - int64(r.Intn(5)) // wraps under + and *
		}
		c.init = append(c.init, v)
	}
	c.place = Pick(r, []string{"global", "local", "free", "global-in-func"})
	perm := make([]int, c.m)
	for i := range perm {
		perm[i] = i
	}
	for i := c.m - 1; i > 0; i-- {
		j := r.Intn(i + 1)
		perm[i], perm[j] = perm[j], perm[i]
	}
	k := 2 + r.Intn(3)
	if k > c.m {
		k = c.m
	}
	c.targets = append([]int{}, perm[:k]...)
	switch ch := r.Intn(10); {
	case ch < 2: // swap
		c.shape = "swap"
		c.targets = c.targets[:2]
		c.items = []*c01edgeExp{c01edgeVar(c.targets[1]), c01edgeVar(c.targets[0])}
	case ch < 4: // rotate: every name gets the next one's value
		c.shape = "rotate"
		for i := range c.targets {
			c.items = append(c.items, c01edgeVar(c.targets[(i+1)%len(c.targets)]))
		}
	case ch < 6: // fibonacci step a, b = [b, a + b]
		c.shape = "fib-step"
		c.targets = c.targets[:2]
		a, b := c.targets[0], c.targets[1]
		c.items = []*c01edgeExp{c01edgeVar(b), {op: "+", a: c01edgeVar(a), b: c01edgeVar(b)}}
	case ch < 7: // constants and unassigned variables only
		c.shape = "independent"
		for range c.targets {
			if len(perm) > k && r.Bool() {
				c.items = append(c.items, c01edgeVar(perm[k+r.Intn(len(perm)-k)]))
			} else {
				c.items = append(c.items, &c01edgeExp{op: "lit", i: int64(r.Intn(200)) - 50})
			}
		}
	default:
		c.shape = "random"
		for range c.targets {
			c.items = append(c.items, c01edgeRandExp(r, c.m, 2))
		}
	}
	if r.Chance(5) && len(c.targets) >= 2 { // a name twice: the stores run in reverse order, the first position wins
		c.shape += "+dup"
		c.targets[len(c.targets)-1] = c.targets[0]
	}
	if r.Chance(8) { // count mismatch
		c.shape += "+count"
		if r.Bool() {
			c.items = append(c.items, c01edgeRandExp(r, c.m, 1))
		} else {
			c.items = c.items[:len(c.items)-1]
		}
	}
	return c
}

func (c c01edgeMulti) names() []string {
	ns := make([]string, c.m)
	for i := range ns {
		ns[i] = fmt.Sprintf("p%d", i)
	}
	return ns
}

func (c c01edgeMulti) src() string {
	ns := c.names()
	var decl, tg, its []string
	for i, v := range c.init {
		decl = append(decl, fmt.Sprintf("%s := %d", ns[i], v))
	}
	for _, t := range c.targets {
		tg = append(tg, ns[t])
	}
	for _, it := range c.items {
		its = append(its, it.src(ns))
	}
	stmt := strings.Join(tg, ", ") + " = [" + strings.Join(its, ", ") + "]"
	res := "[" + strings.Join(ns, ", ") + "]"
	d := strings.Join(decl, "\n")
	switch c.place {
	case "global":
		return d + "\n" + stmt + "\n" + res
	case "local":
		return "func f() {\n" + d + "\n" + stmt + "\nreturn " + res + "\n}\nf()"
	case "free":
		return "func f() {\n" + d + "\ng := func() {\n" + stmt + "\nreturn 0\n}\ng()\nreturn " + res + "\n}\nf()"
	default: // global-in-func
		return d + "\nfunc f() {\n" + stmt + "\nreturn 0\n}\nf()\n" + res
	}
}

func (c c01edgeMulti) request() string {
	var ini, tg, its []string
	for _, v := range c.init {
		ini = append(ini, strconv.FormatInt(v, 10))
	}
	for _, t := range c.targets {
		tg = append(tg, strconv.Itoa(t))
	}
	for _, it := range c.items {
		var toks []string
		it.rpn(&toks)
		its = append(its, strings.Join(toks, " "))
	}
	itf := strings.Join(its, ";")
	if itf == "" {
		itf = "-"
	}
	return "C01\tedge\tmulti\t" + strings.Join(ini, ",") + "\t" + strings.Join(tg, ",") + "\t" + itf
}

// c01edgeRealCode renders the real bytecode of the multi-assignment in the model's format
// (`RHS:n UNPACK:k STORE:slot …`), or a text saying what is not of that shape.
func (c c01edgeMulti) realCode(src string) string {
	code, err := CompileSrc(src)
	if err != nil {
		return "compile error: " + err.Error()
	}
	storeOp := map[string]string{"global": "STORE_GLOBAL", "local": "STORE_FAST", "free": "STORE_FREE", "global-in-func": "STORE_GLOBAL"}[c.place]
	// operand of the placement's store instruction -> slot
	slotOf := map[string]int{}
	switch c.place {
	case "free": // one free index per RESOLUTION inside g, in order: the items' reads left to right, then the names in reverse order
		var reads []int
		for _, it := range c.items {
			it.vars(&reads)
		}
		for j := 0; j < len(c.targets); j++ {
			slotOf[strconv.Itoa(len(reads)+j)] = c.targets[len(c.targets)-1-j]
		}
	default: // the declarations `p_i := v_i` store into consecutive fresh symbols, in order
		declOp := "STORE_GLOBAL"
		if c.place == "local" {
			declOp = "STORE_FAST"
		}
		for _, cc := range code.Flatten() {
			seen := 0
			toks := strings.Split(CodeText(cc), " ")
			if !strings.Contains(CodeText(cc), "LOAD_CONST") {
				continue
			}
			for _, t := range toks {
				if strings.HasPrefix(t, declOp+":") && seen < c.m {
					if _, dup := slotOf[strings.TrimPrefix(t, declOp+":")]; !dup {
						slotOf[strings.TrimPrefix(t, declOp+":")] = seen
						seen++
					}
				}
			}
			if seen == c.m {
				break
			}
			slotOf = map[string]int{}
		}
	}
	for _, cc := range code.Flatten() {
		toks := strings.Split(CodeText(cc), " ")
		for i, t := range toks {
			if !strings.HasPrefix(t, "UNPACK:") {
				continue
			}
			out := []string{}
			if i > 0 && strings.HasPrefix(toks[i-1], "BUILD_LIST:") {
				out = append(out, "RHS:"+strings.TrimPrefix(toks[i-1], "BUILD_LIST:"))
			} else {
				out = append(out, "RHS?")
			}
			out = append(out, t)
			for j := i + 1; j < len(toks) && strings.HasPrefix(toks[j], storeOp+":"); j++ {
				opnd := strings.TrimPrefix(toks[j], storeOp+":")
				if s, ok := slotOf[opnd]; ok {
					out = append(out, "STORE:"+strconv.Itoa(s))
				} else {
					out = append(out, "STORE:?"+opnd)
				}
				if len(out) == 2+len(c.targets) {
					break
				}
			}
			return strings.Join(out, " ")
		}
	}
	return "no UNPACK instruction in the compiled statement"
}

func c01edgeSlots(out EvalOut) string {
	if out.Err != "" {
		if strings.Contains(out.Err, "unpack count mismatch") {
			return "err count"
		}
		return "err " + out.Err
	}
	t := ValText(out.Obj, 0)
	if !strings.HasPrefix(t, "(list") {
		return "value " + t
	}
	t = strings.TrimSuffix(strings.TrimPrefix(t, "(list"), ")")
	var vs []string
	for _, f := range strings.Split(strings.TrimSpace(t), ") (") {
		f = strings.Trim(f, "()")
		if !strings.HasPrefix(f, "int ") {
			return "value " + t
		}
		vs = append(vs, strings.TrimPrefix(f, "int "))
	}
	return strings.Join(vs, ",")
}

var c01edgePowBases = []int64{0, 1, -1, 2, -2, 3, -3, 7, 10, -10, 1, -1, 1, -1}
var c01edgePowExps = []int64{-1, -2, -3, -4, -5, -7, -64, 0, 1, 2, 3, 30, 31, 33, 34, 39, 52, 53, 61, 62, 63, 64, -1, -2, -3}

func c01Edge(e *Env) {
	e.R.Rule += "; edges (c01edge.go): multi-assignments n1,…,nk = [e1,…,ek] (swap, rotate, fibonacci step, independent, random integer items " +
		"reading the assigned names; 2-5 variables as globals / locals / captured variables / globals assigned inside a function; 8 % count " +
		"mismatches, 5 % a name twice) compared with exec(compMulti) (Impl), the Spec (all items see the old values) and the statement's real " +
		"bytecode; int ** int on boundary bases (0, ±1, ±2, …) x exponents (negative, 0, around 53 and 63) as literals and variables, compared " +
		"with powImpl where the float detour is exact, Spec = power truncated toward zero; non-trivial: an item reads a name assigned at an " +
		"earlier position / negative exponent or result >= 2^31"
	rng := e.Rng.Fork().Fork()
	nMulti, nPow := 1500, 500
	if !e.Quick {
		nMulti, nPow = 30000, 6000
	}
	// (1) multi-assignment
	cases := make([]c01edgeMulti, nMulti)
	reqs := make([]string, nMulti)
	for i := range cases {
		cases[i] = c01edgeGenMulti(rng.Fork())
		reqs[i] = cases[i].request()
	}
	reps := e.O.AskBatch(reqs)
	for i, c := range cases {
		src := c.src()
		f := strings.Split(reps[i], "\t")
		if len(f) != 5 || (f[0] != "ok" && f[0] != "err") {
			e.R.Mismatch(src, "-", reps[i], "C01 edge multi: malformed oracle reply")
			continue
		}
		impl, spec, code, seq := f[1], f[2], f[3], f[4]
		if f[0] == "err" {
			impl = "err count"
		}
		if spec == "count" {
			spec = "err count"
		}
		// reads an earlier-assigned name?
		dep := false
		for j, it := range c.items {
			var vs []int
			it.vars(&vs)
			for _, v := range vs {
				for q := 0; q < j && q < len(c.targets); q++ {
					if c.targets[q] == v {
						dep = true
					}
				}
			}
		}
		e.R.Case("edge:multi:"+src, dep)
		e.R.H("edge_multi_shape", c.shape)
		e.R.H("edge_multi_place", c.place)
		e.R.H("edge_multi_reads_earlier_target", fmt.Sprint(dep))
		out := EvalSrc(src, 5*time.Second)
		real := c01edgeSlots(out)
		if impl != spec { // proved equal (multi_simultaneous)
			e.R.Mismatch(src, impl, spec, "edge multi: exec (compMulti) vs specMulti (proved equal: the build is inconsistent)")
		}
		if real != impl {
			e.R.Mismatch(src, real, impl, "edge multi: final variables, risor.Eval vs exec (compMulti …) ("+c.place+" variables)")
		}
		if real != spec {
			d := "multi-assignment is not simultaneous: variables " + strings.Join(c.names(), ",") + " end as " + real + ", the rule (every item evaluated before any store) gives " + spec
			if real == seq {
				d += " (the result is that of an item-store-item-store interleaving)"
			}
			e.R.Spec(src, d, "")
		}
		if rc := c.realCode(src); rc != code {
			e.R.Mismatch(src, rc, code, "edge multi: bytecode of the statement, compiler.Compile vs compMulti (right-hand side, Unpack, stores in reverse order)")
		}
	}
	// (2) int ** int
	type powCase struct {
		a, b int64
		form string
	}
	pc := make([]powCase, nPow)
	preqs := make([]string, nPow)
	for i := range pc {
		r := rng.Fork()
		a := Pick(r, c01edgePowBases)
		b := Pick(r, c01edgePowExps)
		switch r.Intn(6) {
		case 0:
			a = int64(r.Intn(41)) - 20
		case 1:
			b = int64(r.Intn(81)) - 15
		case 2:
			a, b = int64(r.Intn(2000))-1000, int64(r.Intn(7))-1
		}
		pc[i] = powCase{a, b, Pick(r, []string{"literal", "variables"})}
		preqs[i] = fmt.Sprintf("C01\tedge\tpow\t%d\t%d", a, b)
	}
	preps := e.O.AskBatch(preqs)
	for i, c := range pc {
		src := fmt.Sprintf("(%d) ** (%d)", c.a, c.b)
		if c.form == "variables" {
			src = fmt.Sprintf("x := %d\ny := %d\nx ** y", c.a, c.b)
		}
		f := strings.Split(preps[i], "\t")
		if len(f) != 3 || (f[0] != "ok" && f[0] != "outside") {
			e.R.Mismatch(src, "-", preps[i], "C01 edge pow: malformed oracle reply")
			continue
		}
		cls := "exponent>=0"
		switch {
		case c.b < 0 && (c.a == 1 || c.a == -1):
			cls = "negative exponent, unit base"
		case c.b < 0 && c.a == 0:
			cls = "negative exponent, base 0"
		case c.b < 0:
			cls = "negative exponent, |base|>=2"
		}
		if f[0] == "outside" {
			e.R.H("edge_pow", cls+": outside the model (float rounding / int64 of Inf)")
			continue
		}
		e.R.H("edge_pow", cls)
		out := EvalSrc(src, 5*time.Second)
		real := "err " + out.Err
		if out.Err == "" {
			real = strings.TrimSuffix(strings.TrimPrefix(ValText(out.Obj, 0), "(int "), ")")
		}
		big := len(f[1]) >= 10
		e.R.Case("edge:pow:"+src, c.b < 0 || big)
		if real != f[1] {
			e.R.Mismatch(src, real, f[1], "edge pow: risor.Eval vs powImpl (int64(math.Pow) where exact)")
		}
		if f[2] != "undef" && real != f[2] {
			e.R.Spec(src, "int ** int is not the power truncated toward zero: "+src+" evaluates to "+real+", the rule gives "+f[2], "")
		}
	}
}
