package main

// C16 — containers: operation sequences through the REAL risor objects (direct object API
// and single-statement scripts run by the real compiler+VM on the same objects), compared
// after every step with the Lean Impl model (Mismatch) and the Lean Spec (Spec violation).

import (
	"context"
	"encoding/hex"
	"fmt"
	"math"
	"sort"
	"strconv"
	"strings"
	"time"

	"github.com/risor-io/risor"
	"github.com/risor-io/risor/builtins"
	"github.com/risor-io/risor/object"
	"github.com/risor-io/risor/op"
)

func init() { commands["C16"] = c16_runC16 }

// ---------------------------------------------------------------- values

// tokens: n t f i<int> y<byte> d<2*float> s<hex> r<handle> _   (d4 = 2.0, d3 = 1.5)
func c16Obj(tok string, objs []object.Object) object.Object {
	switch tok[0] {
	case 'n':
		return object.Nil
	case 't':
		return object.True
	case 'f':
		return object.False
	case 'i':
		v, _ := strconv.ParseInt(tok[1:], 10, 64)
		return object.NewInt(v)
	case 'y':
		v, _ := strconv.Atoi(tok[1:])
		return object.NewByte(byte(v))
	case 'd':
		v, _ := strconv.ParseInt(tok[1:], 10, 64)
		return object.NewFloat(float64(v) / 2)
	case 's':
		b, _ := hex.DecodeString(tok[1:])
		return object.NewString(string(b))
	case 'r':
		k, _ := strconv.Atoi(tok[1:])
		return objs[k]
	}
	return nil // "_"
}

func c16_sTok(s string) string { return "s" + hex.EncodeToString([]byte(s)) }
func c16_iTok(i int64) string  { return "i" + strconv.FormatInt(i, 10) }

// a float is modelled exactly when it is a half-integer of small magnitude
func c16_fTok(v float64) string {
	t := v * 2
	if t != math.Trunc(t) || math.Abs(t) > 1<<52 || (t == 0 && math.Signbit(t)) {
		return "?float(" + strconv.FormatFloat(v, 'g', -1, 64) + ")"
	}
	return "d" + strconv.FormatInt(int64(t), 10)
}

func c16HashRank(o object.Object) (int, int64, string) {
	switch v := o.(type) {
	case *object.Bool:
		if v.Value() {
			return 0, 1, ""
		}
		return 0, 0, ""
	case *object.Byte:
		return 1, int64(v.Value()), ""
	case *object.Float:
		return 2, int64(v.Value() * 2), "" // the hash keys of floats order as their values
	case *object.Int:
		return 3, v.Value(), ""
	case *object.NilType:
		return 4, 0, ""
	case *object.String:
		return 5, 0, v.Value()
	}
	return 9, 0, string(o.Type())
}

// canonical text of a real object (same format as Risor.C16.renderVal)
func c16Render(o object.Object, depth int) string {
	if depth > 8 {
		return "?"
	}
	switch v := o.(type) {
	case *object.NilType:
		return "n"
	case *object.Bool:
		if v.Value() {
			return "t"
		}
		return "f"
	case *object.Int:
		return c16_iTok(v.Value())
	case *object.Byte:
		return "y" + strconv.Itoa(int(v.Value()))
	case *object.Float:
		return c16_fTok(v.Value())
	case *object.String:
		return c16_sTok(v.Value())
	case *object.ListIter:
		return "I" // a cursor shows through next() / list(it) only
	case *object.List:
		parts := make([]string, 0, v.Size())
		for _, it := range v.Value() {
			if it == nil {
				parts = append(parts, "?nil")
				continue
			}
			parts = append(parts, c16Render(it, depth+1))
		}
		return "L[" + strings.Join(parts, ",") + "]"
	case *object.Map:
		m := v.Value()
		keys := make([]string, 0, len(m))
		for k := range m {
			keys = append(keys, k)
		}
		sort.Strings(keys)
		parts := make([]string, 0, len(keys))
		for _, k := range keys {
			parts = append(parts, hex.EncodeToString([]byte(k))+"="+c16Render(m[k], depth+1))
		}
		return "M{" + strings.Join(parts, ",") + "}"
	case *object.Set:
		items := make([]object.Object, 0, v.Size())
		for _, it := range v.Value() {
			items = append(items, it)
		}
		sort.Slice(items, func(i, j int) bool {
			a1, a2, a3 := c16HashRank(items[i])
			b1, b2, b3 := c16HashRank(items[j])
			if a1 != b1 {
				return a1 < b1
			}
			if a2 != b2 {
				return a2 < b2
			}
			return a3 < b3
		})
		parts := make([]string, 0, len(items))
		for _, it := range items {
			parts = append(parts, c16Render(it, depth+1))
		}
		return "S{" + strings.Join(parts, ",") + "}"
	case *object.ByteSlice:
		return "B" + hex.EncodeToString(v.Value())
	}
	return "?" + string(o.Type())
}

func c16State(objs []object.Object) string {
	parts := make([]string, len(objs))
	for i, o := range objs {
		parts[i] = c16Render(o, 0)
	}
	return strings.Join(parts, " ")
}

func c16ErrClass(msg string) string {
	for _, c := range []string{"type", "index", "slice", "key", "value"} {
		if strings.HasPrefix(msg, c+" error") {
			return "err:" + c
		}
	}
	if strings.HasPrefix(msg, "panic") {
		return "err:panic"
	}
	return "err:other(" + msg + ")"
}

func c16_isContainer(o object.Object) bool {
	switch o.(type) {
	case *object.List, *object.Map, *object.Set, *object.ByteSlice:
		return true
	}
	return false
}

// ---------------------------------------------------------------- executing one op on the real objects

type c16Op struct {
	name string
	args []string // tokens; args[0] is the handle for container ops
}

func (o c16Op) String() string { return o.name + "," + strings.Join(o.args, ",") }

// result kinds
const (
	c16_rkUnit = iota
	c16_rkVal
)

var c16Unit = map[string]bool{"lset": true, "laddassign": true, "lappend": true, "linsert": true, "lremove": true,
	"lextend": true, "lreverse": true, "lsort": true, "lclear": true, "ldel": true, "mset": true, "mdel": true,
	"mupdate": true, "mclear": true, "maddassign": true, "sadd": true, "sremove": true, "sdel": true, "sclear": true, "bset": true}

var c16ScriptOnly = map[string]bool{"lmap": true, "lmapacc": true, "sortedby": true, "lfilter": true, "leach": true, "leachacc": true, "lfor": true}

// argument positions that are symbols of the protocol (callback shapes, raising call number)
// or a second handle, not values handed to the script as globals
var c16SymbolArgs = map[string]map[int]bool{"lmap": {1: true}, "sortedby": {1: true, 2: true}, "lfilter": {1: true}, "lfor": {1: true, 2: true}}
var c16HandleArg1 = map[string]bool{"lmapacc": true, "leachacc": true}

// builtins / methods that build their result out of NEW nested lists (registered as handles
// before the result itself, in order)
var c16NestedNew = map[string]bool{"lchunk": true, "mitems": true}

// operations whose container result must be a new object, independent of the operand
var c16ProducesNew = map[string]bool{"lslice": true, "lcopy": true, "lconcat": true, "lsorted": true, "lreversed": true, "lkeys": true,
	"lmap": true, "mcopy": true, "mkeys": true, "mvalues": true, "sunion": true, "sinter": true, "bclone": true,
	"sortedby": true, "xsorted": true, "xreversed": true, "tolist": true, "toset": true, "keysof": true, "mitems": true,
	"lfilter": true, "lchunk": true}

// a list iterator is a heap object of the model too (it gets a handle), but no container
func c16_isIter(o object.Object) bool { _, ok := o.(*object.ListIter); return ok }

var c16Builtins = func() map[string]any {
	m := map[string]any{}
	for k, v := range builtins.Builtins() {
		m[k] = v
	}
	return m
}()

type c16World struct {
	objs []object.Object
	ctx  context.Context
}

// finish turns a raw outcome into the protocol's result text, registering fresh containers
func (w *c16World) finish(name string, res object.Object, errMsg string) string {
	if errMsg != "" {
		return c16ErrClass(errMsg)
	}
	if e, ok := res.(*object.Error); ok && res != nil {
		return c16ErrClass(e.Error())
	}
	if c16Unit[name] {
		return "unit"
	}
	if res == nil {
		return "v:?gonil"
	}
	if c16_isContainer(res) || c16_isIter(res) {
		for _, o := range w.objs {
			if o == res {
				return "v:" + c16Render(res, 0)
			}
		}
		if l, ok := res.(*object.List); ok && c16NestedNew[name] {
			for _, it := range l.Value() {
				known := false
				for _, o := range w.objs {
					if o == it {
						known = true
					}
				}
				if it != nil && c16_isContainer(it) && !known {
					w.objs = append(w.objs, it)
				}
			}
		}
		w.objs = append(w.objs, res)
		return "new"
	}
	return "v:" + c16Render(res, 0)
}

func c16_call(ctx context.Context, recv object.Object, method string, args ...object.Object) (res object.Object, errMsg string) {
	attr, ok := recv.GetAttr(method)
	if !ok {
		return nil, "other: no attribute " + method
	}
	b, ok := attr.(*object.Builtin)
	if !ok {
		return nil, "other: attribute is not a builtin"
	}
	return b.Call(ctx, args...), ""
}

func c16_errOf(e *object.Error) string {
	if e == nil {
		return ""
	}
	return e.Error()
}

func c16_optArgs(xs ...object.Object) []object.Object {
	var out []object.Object
	for _, x := range xs {
		if x != nil {
			out = append(out, x)
		}
	}
	return out
}

// execAPI performs the op through the object API (what the VM's opcodes and the method
// builtins call).
func (w *c16World) execAPI(o c16Op) (out string) {
	defer func() {
		if r := recover(); r != nil {
			out = c16ErrClass(fmt.Sprintf("panic: %v", r))
		}
	}()
	a := make([]object.Object, len(o.args))
	for i, t := range o.args {
		if i == 0 && t[0] >= '0' && t[0] <= '9' {
			k, _ := strconv.Atoi(t)
			a[i] = w.objs[k]
			continue
		}
		a[i] = c16Obj(t, w.objs)
	}
	ctx := w.ctx
	var res object.Object
	var msg string
	compound := func(c object.Container) {
		old, e := c.GetItem(a[1])
		if e != nil {
			msg = e.Error()
			return
		}
		nv, err := object.BinaryOp(op.Add, old, a[2])
		if err != nil {
			msg = err.Error()
			return
		}
		if e := c.SetItem(a[1], nv); e != nil {
			msg = e.Error()
		}
	}
	switch o.name {
	// generic container protocol
	case "lget", "mget", "sget", "bget":
		var e *object.Error
		res, e = a[0].(object.Container).GetItem(a[1])
		msg = c16_errOf(e)
	case "strget":
		var e *object.Error
		res, e = a[0].(object.Container).GetItem(a[1])
		msg = c16_errOf(e)
	case "lslice", "bslice":
		var e *object.Error
		res, e = a[0].(object.Container).GetSlice(object.Slice{Start: a[1], Stop: a[2]})
		msg = c16_errOf(e)
	case "strslice":
		var e *object.Error
		res, e = a[0].(object.Container).GetSlice(object.Slice{Start: a[1], Stop: a[2]})
		msg = c16_errOf(e)
	case "lset", "mset", "bset":
		msg = c16_errOf(a[0].(object.Container).SetItem(a[1], a[2]))
	case "ldel", "mdel", "sdel":
		msg = c16_errOf(a[0].(object.Container).DelItem(a[1]))
	case "laddassign", "maddassign":
		compound(a[0].(object.Container))
	case "lcontains", "mcontains", "scontains":
		res = a[0].(object.Container).Contains(a[1])
	case "llen", "mlen", "slen", "blen", "strlen":
		res = a[0].(object.Container).Len()
	// lists
	case "lappend":
		a[0].(*object.List).Append(a[1])
	case "linsert":
		res, msg = c16_call(ctx, a[0], "insert", a[1], a[2])
	case "lpop":
		res, msg = c16_call(ctx, a[0], "pop", a[1])
	case "lremove":
		a[0].(*object.List).Remove(a[1])
	case "lextend":
		res, msg = c16_call(ctx, a[0], "extend", a[1])
	case "lreverse":
		a[0].(*object.List).Reverse()
	case "lsort":
		res, msg = c16_call(ctx, a[0], "sort")
	case "lcopy":
		res = a[0].(*object.List).Copy()
	case "lclear":
		a[0].(*object.List).Clear()
	case "lindex":
		res = object.NewInt(a[0].(*object.List).Index(a[1]))
	case "lcount":
		res = object.NewInt(a[0].(*object.List).Count(a[1]))
	case "lconcat":
		r, err := object.BinaryOp(op.Add, a[0], a[1])
		if err != nil {
			msg = err.Error()
		}
		res = r
	case "lsorted":
		res = builtins.Sorted(ctx, a[0])
	case "lreversed":
		res = a[0].(*object.List).Reversed()
	case "lkeys":
		res = a[0].(*object.List).Keys()
	// maps
	case "mgetdef":
		res, msg = c16_call(ctx, a[0], "get", c16_optArgs(a[1], a[2])...)
	case "mpop":
		res, msg = c16_call(ctx, a[0], "pop", c16_optArgs(a[1], a[2])...)
	case "mupdate":
		res, msg = c16_call(ctx, a[0], "update", a[1])
	case "msetdefault":
		res, msg = c16_call(ctx, a[0], "setdefault", a[1], a[2])
	case "mcopy":
		res = a[0].(*object.Map).Copy()
	case "mclear":
		a[0].(*object.Map).Clear()
	case "mkeys":
		res = a[0].(*object.Map).Keys()
	case "mvalues":
		res = a[0].(*object.Map).Values()
	// sets
	case "sadd":
		res, msg = c16_call(ctx, a[0], "add", a[1])
	case "sremove":
		res, msg = c16_call(ctx, a[0], "remove", a[1])
	case "sunion":
		res, msg = c16_call(ctx, a[0], "union", a[1])
	case "sinter":
		res, msg = c16_call(ctx, a[0], "intersection", a[1])
	case "sclear":
		a[0].(*object.Set).Clear()
	// byte slices
	case "bclone":
		res = a[0].(*object.ByteSlice).Clone()
	// builtins that must leave their operand untouched
	case "xsorted":
		res = builtins.Sorted(ctx, a[0])
	case "xreversed":
		res = builtins.Reversed(ctx, a[0])
	case "tolist":
		res = builtins.List(ctx, a[0])
	case "toset":
		res = builtins.Set(ctx, a[0])
	case "keysof":
		res = builtins.Keys(ctx, a[0])
	case "mitems":
		res, msg = c16_call(ctx, a[0], "items")
	case "lchunk":
		res = builtins.Chunk(ctx, a[0], a[1])
	// list iterators
	case "inew":
		res = builtins.Iter(ctx, a[0])
	case "inext":
		res, msg = c16_call(ctx, a[0], "next")
	case "irest":
		res = builtins.List(ctx, a[0])
	default:
		msg = "other: unknown op " + o.name
	}
	return w.finish(o.name, res, msg)
}

// c16Source is the single statement the real compiler and VM run for the op; handles and
// values are supplied as globals (h0.., p1..).
func c16Source(o c16Op) string {
	h := "p0"
	sl := func() string {
		s := h + "["
		if o.args[1] != "_" {
			s += "p1"
		}
		s += ":"
		if o.args[2] != "_" {
			s += "p2"
		}
		return s + "]"
	}
	opt := func(method string) string {
		if o.args[2] == "_" {
			return h + "." + method + "(p1)"
		}
		return h + "." + method + "(p1, p2)"
	}
	switch o.name {
	case "lget", "mget", "sget", "bget", "strget":
		return h + "[p1]"
	case "lslice", "bslice", "strslice":
		return sl()
	case "lset", "mset", "bset":
		return h + "[p1] = p2"
	case "ldel", "mdel", "sdel":
		return "delete(" + h + ", p1)"
	case "laddassign", "maddassign":
		return h + "[p1] += p2"
	case "lcontains", "mcontains", "scontains":
		return "p1 in " + h
	case "llen", "mlen", "slen", "blen", "strlen":
		return "len(" + h + ")"
	case "lappend":
		return h + ".append(p1)"
	case "linsert":
		return h + ".insert(p1, p2)"
	case "lpop":
		return h + ".pop(p1)"
	case "lremove":
		return h + ".remove(p1)"
	case "lextend":
		return h + ".extend(p1)"
	case "lreverse":
		return h + ".reverse()"
	case "lsort":
		return h + ".sort()"
	case "lcopy", "mcopy":
		return h + ".copy()"
	case "lclear", "mclear", "sclear":
		return h + ".clear()"
	case "lindex":
		return h + ".index(p1)"
	case "lcount":
		return h + ".count(p1)"
	case "lconcat":
		return h + " + p1"
	case "lsorted":
		return "sorted(" + h + ")"
	case "lreversed":
		return "reversed(" + h + ")"
	case "lkeys":
		return "keys(" + h + ")"
	case "lmap":
		switch o.args[1] {
		case "idx":
			return h + ".map(func(i, x) { return i })"
		case "val":
			return h + ".map(func(i, x) { return x })"
		case "idxplus":
			return h + ".map(func(i, x) { return i + 0 })"
		default:
			return h + ".map(func(x) { return x })"
		}
	case "lmapacc":
		return h + ".map(func(i, x) { p1.append(i); return x })"
	case "mgetdef":
		return opt("get")
	case "mpop":
		return opt("pop")
	case "mupdate":
		return h + ".update(p1)"
	case "msetdefault":
		return h + ".setdefault(p1, p2)"
	case "mkeys":
		return h + ".keys()"
	case "mvalues":
		return h + ".values()"
	case "sadd":
		return h + ".add(p1)"
	case "sremove":
		return h + ".remove(p1)"
	case "sunion":
		return h + ".union(p1)"
	case "sinter":
		return h + ".intersection(p1)"
	case "bclone":
		return h + ".clone()"
	case "sortedby":
		body := map[string]string{"lt": "a < b", "gt": "a > b", "le": "a <= b", "ge": "a >= b", "always": "true", "never": "false"}[o.args[1]]
		if o.args[2] == "_" {
			return "sorted(" + h + ", func(a, b) { return " + body + " })"
		}
		// call number K (0-based) of the comparison function raises
		return "c16n := [0]\nsorted(" + h + ", func(a, b) {\n  if c16n[0] == " + o.args[2] + " {\n    error(\"type error: comparison function failed\")\n  }\n  c16n[0] += 1\n  return " + body + "\n})"
	case "xsorted":
		return "sorted(" + h + ")"
	case "xreversed":
		return "reversed(" + h + ")"
	case "tolist":
		return "list(" + h + ")"
	case "toset":
		return "set(" + h + ")"
	case "keysof":
		return "keys(" + h + ")"
	case "mitems":
		return h + ".items()"
	case "lfilter":
		body := map[string]string{"ne": "x != p2", "eq": "x == p2", "all": "true", "nothing": "false"}[o.args[1]]
		return h + ".filter(func(x) { return " + body + " })"
	case "leach":
		return h + ".each(func(x) { x })"
	case "leachacc":
		return h + ".each(func(x) { p1.append(x) })"
	case "lchunk":
		return "chunk(" + h + ", p1)"
	case "inew":
		return "iter(" + h + ")"
	case "inext":
		return h + ".next()"
	case "irest":
		return "list(" + h + ")"
	case "lfor":
		// args: handle, idx|noidx, body, body argument
		body := map[string]string{
			"none":        "",
			"grow":        "  if len(p0) < " + o.args[3] + " { p0.append(x) }\n",
			"poplast":     "  p0.pop(-1)\n",
			"removecur":   "  p0.remove(x)\n",
			"clear":       "  p0.clear()\n",
			"setnext":     "  if c16k + 1 < len(p0) { p0[c16k + 1] = p3 }\n",
			"insertfront": "  if len(p0) < " + o.args[3] + " { p0.insert(0, x) }\n",
		}[o.args[2]]
		head := "for x in p0 {\n  c16rec.append(x)\n"
		if o.args[1] == "idx" {
			head = "for i, x := range p0 {\n  c16rec.append(i)\n  c16rec.append(x)\n"
		}
		return "c16rec := []\nc16k := 0\n" + head + body + "  c16k += 1\n}\nc16rec"
	}
	return "error(\"unknown op\")"
}

func (w *c16World) execScript(o c16Op) (out string) {
	defer func() {
		if r := recover(); r != nil {
			out = c16ErrClass(fmt.Sprintf("panic: %v", r))
		}
	}()
	globals := map[string]any{}
	for k, v := range c16Builtins {
		globals[k] = v
	}
	for i, t := range o.args {
		if t == "_" {
			continue
		}
		if c16SymbolArgs[o.name][i] || (o.name == "lfor" && i == 3 && o.args[2] != "setnext") {
			continue
		}
		if c16HandleArg1[o.name] && i == 1 {
			k, _ := strconv.Atoi(t)
			globals["p1"] = w.objs[k]
			continue
		}
		if i == 0 && t[0] != 's' {
			k, _ := strconv.Atoi(t)
			globals["p0"] = w.objs[k]
			continue
		}
		globals["p"+strconv.Itoa(i)] = c16Obj(t, w.objs)
	}
	ctx := w.ctx
	if o.name == "lfor" {
		// a loop over a list its body changes must end by itself; the deadline only keeps a
		// run-away loop of a broken iterator from hanging the run (it then shows as an error)
		var cancel context.CancelFunc
		ctx, cancel = context.WithTimeout(ctx, 20*time.Second)
		defer cancel()
	}
	res, err := risor.Eval(ctx, c16Source(o), risor.WithoutDefaultGlobals(), risor.WithGlobals(globals))
	if err != nil {
		return w.finish(o.name, nil, err.Error())
	}
	return w.finish(o.name, res, "")
}

// ---------------------------------------------------------------- generator

var c16SmallVals = []string{"i0", "i1", "i2", "i3", "i-1", c16_sTok("a"), c16_sTok("b"), c16_sTok("c"), "t", "f", "n"}
var c16WideVals = []string{"i7", "i255", "i256", "i-2147483648", "i9007199254740993", "i9223372036854775807", "i-9223372036854775808",
	c16_sTok(""), c16_sTok("ab"), c16_sTok("é"), c16_sTok("日本"), c16_sTok("a b"), c16_sTok("\x00"), c16_sTok("Z"), c16_sTok("😀"), c16_sTok("\xff"), c16_sTok("aé😀b")}

// numbers of the other numeric types: risor's equality is by value across int, float and byte
// (2 == 2.0 == byte(2)), so these collide with the ints of the small pool
var c16NumVals = []string{"d0", "d2", "d4", "d6", "d3", "d-2", "d1", "y0", "y1", "y2", "y3", "y255"}
var c16Keys = []string{"a", "b", "c", "", "é", "ab", "k1", "日本"}
var c16Strings = []string{"", "a", "abc", "héllo", "日本語テキスト", "a😀b😀c", "x\xffy", "\xe2\x82", "naïve café", "\x00\x01", "ÿ"}

type c16Gen struct {
	rng    *RNG
	w      *c16World
	kind   string
	leaf   map[int]bool // objects that were inserted into another container: they never receive references
	nBound int          // boundary / negative indices used
	nMut   int
	e      *Env
	probe  *c16Probe // a builtin just returned a new container: mutate result and operand next
	// list iterators: the list each one runs over, how often each list was changed, and the
	// change count an iterator last saw (for the histogram of steps taken after a change)
	iterOf   map[int]int
	ver      map[int]int
	iterSeen map[int]int
	// kind `numsort`: every value drawn is a number (g.numVal)
	numOnly bool
}

// an operand and the container a builtin made from it, both kept live: the next steps mutate
// the result, then the operand (every live object is compared after every step)
type c16Probe struct {
	operand, result, stage int
}

// numbers of every magnitude, in clusters of NEIGHBOURS around the points where float64 stops
// telling ints apart (2^53, 2^54, 2^60, 2^62, MaxInt64, MinInt64): kind `numsort` sorts lists
// of them. Floats stay half-integers of small magnitude (exactly modelled), bytes are bytes.
var c16NumClusters = []struct {
	base int64
	offs []int64
}{
	{1 << 53, []int64{-2, -1, 0, 1, 2, 3, 4}},
	{-(1 << 53), []int64{2, 1, 0, -1, -2, -3, -4}},
	{math.MaxInt64, []int64{0, -1, -2, -3, -511, -512, -513, -1023, -1024}},
	{math.MinInt64, []int64{0, 1, 2, 3, 512, 513, 1024, 1025}},
	{1 << 62, []int64{-2, -1, 0, 1, 2, 255, 256, 257}},
	{1 << 60, []int64{-1, 0, 1, 63, 64, 65, 127, 128, 129}},
	{1 << 54, []int64{-3, -2, -1, 0, 1, 2, 3, 5, 6}},
	{-(1 << 62), []int64{1, 0, -1, -255, -256, -257}},
}

func (g *c16Gen) numVal() string {
	r := g.rng.Intn(100)
	switch {
	case r < 60:
		c := c16NumClusters[g.rng.Intn(len(c16NumClusters))]
		return c16_iTok(c.base + Pick(g.rng, c.offs))
	case r < 80:
		return c16_iTok(int64(g.rng.Intn(9) - 3))
	case r < 90:
		return Pick(g.rng, []string{"y0", "y1", "y2", "y3", "y255"})
	}
	return Pick(g.rng, []string{"d0", "d2", "d4", "d3", "d-2", "d1", "d510", "d-7", "d2199023255552"})
}

func (g *c16Gen) val() string {
	if g.numOnly {
		return g.numVal()
	}
	if g.rng.Chance(14) {
		return Pick(g.rng, c16NumVals)
	}
	if g.rng.Chance(75) {
		return Pick(g.rng, c16SmallVals)
	}
	return Pick(g.rng, c16WideVals)
}

func (g *c16Gen) atomSameKind(l *object.List) string {
	// a value likely to be present / of the element type
	if l.Size() > 0 && g.rng.Chance(60) {
		it := l.Value()[g.rng.Intn(l.Size())]
		if !c16_isContainer(it) && !c16_isIter(it) {
			// a needle that EQUALS the item but is of another numeric type
			if t, ok := c16_retype(g.rng, it); ok && g.rng.Chance(50) {
				g.e.R.H("needle", "equal-item-of-other-numeric-type")
				return t
			}
			g.e.R.H("needle", "an-item-of-the-list")
			return c16Render(it, 0)
		}
	}
	g.e.R.H("needle", "from-the-pool")
	return g.val()
}

// c16_retype: the same number as an object of another numeric type (int <-> float <-> byte)
func c16_retype(rng *RNG, o object.Object) (string, bool) {
	var v int64
	switch x := o.(type) {
	case *object.Int:
		v = x.Value()
	case *object.Byte:
		v = int64(x.Value())
	case *object.Float:
		if x.Value() != math.Trunc(x.Value()) || math.Abs(x.Value()) > 1<<40 {
			return "", false
		}
		v = int64(x.Value())
	default:
		return "", false
	}
	if v > 1<<40 || v < -(1<<40) {
		return "", false
	}
	var cands []string
	if _, isInt := o.(*object.Int); !isInt {
		cands = append(cands, c16_iTok(v))
	}
	if _, isFlt := o.(*object.Float); !isFlt {
		cands = append(cands, "d"+strconv.FormatInt(2*v, 10))
	}
	if _, isByte := o.(*object.Byte); !isByte && v >= 0 && v < 256 {
		cands = append(cands, "y"+strconv.FormatInt(v, 10))
	}
	return Pick(rng, cands), true
}

// c16_addOperand: the right operand of `l[i] += v` / `m[k] += v`. Float sums are modelled
// exactly for half-integers of small magnitude only, so a float never meets a huge int.
func c16_addOperand(old object.Object, v string) string {
	huge := func(o object.Object) bool {
		i, ok := o.(*object.Int)
		return ok && (i.Value() > 1<<40 || i.Value() < -(1<<40))
	}
	_, oldFlt := old.(*object.Float)
	if (oldFlt && huge(c16Obj(v, nil))) || (v[0] == 'd' && old != nil && huge(old)) {
		return "i1"
	}
	return v
}

func c16_containsContainer(o object.Object) bool {
	switch v := o.(type) {
	case *object.List:
		for _, it := range v.Value() {
			if c16_isContainer(it) {
				return true
			}
		}
	case *object.Map:
		for _, it := range v.Value() {
			if c16_isContainer(it) {
				return true
			}
		}
	}
	return false
}

// handles of a given Go type
func (g *c16Gen) handles(pred func(object.Object) bool) []int {
	var out []int
	for i, o := range g.w.objs {
		if pred(o) {
			out = append(out, i)
		}
	}
	return out
}

func c16_isList(o object.Object) bool  { _, ok := o.(*object.List); return ok }
func c16_isMap(o object.Object) bool   { _, ok := o.(*object.Map); return ok }
func c16_isSet(o object.Object) bool   { _, ok := o.(*object.Set); return ok }
func c16_isBytes(o object.Object) bool { _, ok := o.(*object.ByteSlice); return ok }

// valOrRef: a value to store into container `into`; sometimes a reference to a (leaf) list/map
func (g *c16Gen) valOrRef(into int) string {
	if g.numOnly || g.leaf[into] || !g.rng.Chance(12) {
		return g.val()
	}
	cands := g.handles(func(o object.Object) bool {
		return (c16_isList(o) || c16_isMap(o) || c16_isSet(o)) && !c16_containsContainer(o)
	})
	var ok []int
	for _, c := range cands {
		if c != into {
			ok = append(ok, c)
		}
	}
	if len(ok) == 0 {
		return g.val()
	}
	c := Pick(g.rng, ok)
	g.leaf[c] = true
	return "r" + strconv.Itoa(c)
}

// index drawn from [-n-2, n+2], sometimes extreme or wrongly typed
func (g *c16Gen) index(n int, intOnlyErr bool) string {
	r := g.rng.Intn(100)
	switch {
	case r < 6:
		g.e.R.H("index_class", "wrong-type")
		return Pick(g.rng, []string{c16_sTok("a"), "n", "t", "y1", c16_sTok("0"), "d2", "d0"})
	case r < 10:
		g.e.R.H("index_class", "extreme")
		g.nBound++
		return Pick(g.rng, []string{"i9223372036854775807", "i-9223372036854775808", "i4294967296", "i-4294967296"})
	}
	i := g.rng.Intn(2*n+5) - n - 2
	switch {
	case i < -n || i >= n:
		g.e.R.H("index_class", "out-of-range")
		g.nBound++
	case i < 0:
		g.e.R.H("index_class", "negative-in-range")
		g.nBound++
	case i == 0 || i == n-1:
		g.e.R.H("index_class", "boundary-in-range")
		g.nBound++
	default:
		g.e.R.H("index_class", "interior")
	}
	return c16_iTok(int64(i))
}

func (g *c16Gen) optIndex(n int) string {
	if g.rng.Chance(20) {
		return "_"
	}
	return g.index(n, true)
}

// c16_numItems: all items are numbers the model represents exactly (ints of any magnitude,
// bytes, half-integer floats of small magnitude). They are mutually comparable and ordered by
// value, so every stable sort of them has the same result at any length.
func c16_numItems(items []object.Object) bool {
	for _, it := range items {
		switch v := it.(type) {
		case *object.Int, *object.Byte:
		case *object.Float:
			if strings.HasPrefix(c16_fTok(v.Value()), "?") || math.Abs(v.Value()) > 1<<41 {
				return false
			}
		default:
			return false
		}
	}
	return true
}

// c16_sortClass: what a sort of these numbers has to tell apart
func c16_sortClass(items []object.Object) string {
	type seen struct {
		v   int64
		pos int
	}
	groups := map[float64][]seen{}
	big := false
	for i, it := range items {
		if n, ok := it.(*object.Int); ok && (n.Value() > 1<<53 || n.Value() < -(1<<53)) {
			big = true
			groups[float64(n.Value())] = append(groups[float64(n.Value())], seen{n.Value(), i})
		}
	}
	collide, desc := false, false
	for _, g := range groups {
		for i := range g {
			for j := i + 1; j < len(g); j++ {
				if g[i].v != g[j].v {
					collide = true
					if g[i].v > g[j].v {
						desc = true
					}
				}
			}
		}
	}
	switch {
	case desc:
		return "distinct-ints-with-one-float64-value/out-of-order-in-the-input"
	case collide:
		return "distinct-ints-with-one-float64-value/in-order-in-the-input"
	case big:
		return "ints-beyond-2^53/no-two-share-a-float64-value"
	}
	return "numbers-within-float64-exact-range"
}

func c16_regularForSort(l *object.List) bool {
	if c16_numItems(l.Value()) {
		return true
	}
	var t object.Type
	for i, it := range l.Value() {
		switch it.(type) {
		case *object.Int, *object.String, *object.Bool, *object.NilType:
		default:
			return false
		}
		if i == 0 {
			t = it.Type()
		} else if it.Type() != t {
			return false
		}
	}
	return true
}

func c16_regularItems(items []object.Object) bool {
	return c16_regularForSort(object.NewList(items))
}

// the items sorted() sorts for operand o
func c16_sortItems(o object.Object) []object.Object {
	switch v := o.(type) {
	case *object.List:
		return v.Value()
	case *object.Map:
		return v.Keys().Value()
	case *object.Set:
		return v.List().Value()
	case *object.ByteSlice:
		return v.Integers()
	}
	return nil
}

// mutate: one mutation of container h with atom values (used to probe independence)
func (g *c16Gen) mutate(h int) (c16Op, bool) {
	H := strconv.Itoa
	g.nMut++
	switch v := g.w.objs[h].(type) {
	case *object.List:
		n := v.Size()
		name := Pick(g.rng, []string{"lset", "lset", "lset", "lappend", "lappend", "lpop", "lreverse", "linsert", "lsort", "ldel"})
		if n == 0 {
			name = "lappend"
		}
		if name == "lsort" && n > 20 && !c16_regularForSort(v) {
			name = "lreverse"
		}
		switch name {
		case "lset":
			return c16Op{name, []string{H(h), c16_iTok(int64(g.rng.Intn(n))), g.val()}}, true
		case "lappend":
			return c16Op{name, []string{H(h), g.val()}}, true
		case "linsert":
			return c16Op{name, []string{H(h), g.index(n, false), g.val()}}, true
		case "lpop", "ldel":
			return c16Op{name, []string{H(h), c16_iTok(int64(g.rng.Intn(n)) - int64(g.rng.Intn(2)*n))}}, true
		default:
			return c16Op{name, []string{H(h)}}, true
		}
	case *object.Map:
		if g.rng.Chance(70) {
			return c16Op{"mset", []string{H(h), c16_sTok(Pick(g.rng, c16Keys)), g.val()}}, true
		}
		return c16Op{"mdel", []string{H(h), c16_sTok(Pick(g.rng, c16Keys))}}, true
	case *object.Set:
		if g.rng.Chance(70) {
			return c16Op{"sadd", []string{H(h), g.val()}}, true
		}
		return c16Op{"sremove", []string{H(h), g.val()}}, true
	case *object.ByteSlice:
		n := len(v.Value())
		if n == 0 {
			break
		}
		return c16Op{"bset", []string{H(h), c16_iTok(int64(g.rng.Intn(n))), c16_sTok(Pick(g.rng, []string{"z", "Q", "\x00"}))}}, true
	}
	g.nMut--
	return c16Op{}, false
}

// probeOp: the follow-up of a builtin that returned a new container
func (g *c16Gen) probeOp() (c16Op, bool) {
	p := g.probe
	if p == nil || p.result >= len(g.w.objs) || p.operand >= len(g.w.objs) {
		g.probe = nil
		return c16Op{}, false
	}
	target := p.result
	if p.stage == 1 {
		target = p.operand
	}
	p.stage++
	if p.stage >= 2 {
		g.probe = nil
	}
	o, ok := g.mutate(target)
	if ok {
		g.e.R.H("independence_probe", []string{"mutate-result", "mutate-operand"}[p.stage-1])
	}
	return o, ok
}

// comparison function + raising call number for sorted(x, f) over these items
func (g *c16Gen) cmpArgs(items []object.Object) (fn, k string, ok bool) {
	n := len(items)
	if n > 20 {
		// beyond 20 items sort.SliceStable merges blocks: only consistent strict orders on
		// mutually comparable items have an algorithm-independent result
		if !c16_regularItems(items) {
			return "", "", false
		}
		return Pick(g.rng, []string{"lt", "gt"}), "_", true
	}
	fn = Pick(g.rng, []string{"lt", "lt", "lt", "lt", "gt", "gt", "le", "ge", "always", "never"})
	k = "_"
	if g.rng.Chance(30) {
		k = strconv.Itoa(g.rng.Intn(n + 3)) // sometimes beyond the number of calls made
	}
	return fn, k, true
}

// builtinOp: an operation of the class "takes a container, must leave it untouched, returns
// an independent container" on operand r
func (g *c16Gen) builtinOp(r int) (c16Op, bool) {
	H := strconv.Itoa
	o := g.w.objs[r]
	var menu []c16_wop
	switch o.(type) {
	case *object.List:
		if g.numOnly {
			menu = []c16_wop{{8, "sortedby"}, {8, "xsorted"}, {2, "xreversed"}, {2, "tolist"}, {2, "toset"}, {2, "lfilter"}, {1, "lchunk"}}
			break
		}
		menu = []c16_wop{{12, "sortedby"}, {3, "xsorted"}, {3, "xreversed"}, {3, "tolist"}, {2, "toset"}, {1, "keysof"}, {3, "lfilter"}, {1, "leach"}, {2, "leachacc"}, {3, "lchunk"}}
	case *object.Map:
		menu = []c16_wop{{6, "sortedby"}, {2, "xsorted"}, {2, "tolist"}, {2, "toset"}, {2, "keysof"}, {3, "mitems"}}
	case *object.Set:
		menu = []c16_wop{{6, "sortedby"}, {2, "xsorted"}, {3, "tolist"}, {2, "toset"}, {2, "keysof"}}
	case *object.ByteSlice:
		menu = []c16_wop{{5, "sortedby"}, {2, "xsorted"}, {3, "xreversed"}}
	default:
		return c16Op{}, false
	}
	name := c16_pickW(g.rng, menu)
	g.e.R.H("builtin_operand", name+"/"+string(o.Type()))
	switch name {
	case "sortedby":
		fn, k, ok := g.cmpArgs(c16_sortItems(o))
		if !ok {
			return c16Op{}, false
		}
		cls := fn
		if k != "_" {
			cls += "+raises-at-k"
		}
		g.e.R.H("sorted_cmp_fn", cls)
		return c16Op{name, []string{H(r), fn, k}}, true
	case "xsorted":
		if items := c16_sortItems(o); len(items) > 20 && !c16_regularItems(items) {
			return c16Op{}, false
		}
		return c16Op{name, []string{H(r)}}, true
	case "lfilter":
		return c16Op{name, []string{H(r), Pick(g.rng, []string{"ne", "ne", "ne", "eq", "eq", "all", "nothing"}), g.atomSameKind(o.(*object.List))}}, true
	case "leachacc":
		acc := Pick(g.rng, g.handles(c16_isList))
		if g.rng.Chance(30) || (g.leaf[acc] && c16_containsContainer(o)) {
			acc = r // the list appends to itself while it is iterated
		}
		g.nMut++
		return c16Op{name, []string{H(r), H(acc)}}, true
	case "lchunk":
		n := "i" + strconv.Itoa(1+g.rng.Intn(4))
		if g.rng.Chance(25) {
			n = Pick(g.rng, []string{"i0", "i-1", "i7", "i9223372036854775807", "i-9223372036854775808", "n", c16_sTok("a")})
		}
		return c16Op{name, []string{H(r), n}}, true
	}
	return c16Op{name, []string{H(r)}}, true
}

type c16_wop struct {
	w    int
	name string
}

var c16ListOps = []c16_wop{{8, "lget"}, {6, "lslice"}, {7, "lset"}, {4, "laddassign"}, {8, "lappend"}, {8, "linsert"}, {8, "lpop"},
	{6, "lremove"}, {4, "lextend"}, {4, "lreverse"}, {4, "lsort"}, {4, "lcopy"}, {1, "lclear"}, {3, "lindex"}, {2, "lcount"},
	{2, "lcontains"}, {2, "llen"}, {4, "ldel"}, {2, "lconcat"}, {2, "lsorted"}, {2, "lreversed"}, {1, "lkeys"}, {2, "lmap"}, {1, "lmapacc"}, {2, "inew"}, {2, "lfor"}}

// kind `numsort`: lists of numbers of every magnitude that are sorted again and again between
// the operations that put further numbers into them
var c16NumSortOps = []c16_wop{{9, "lsort"}, {6, "lsorted"}, {7, "lappend"}, {5, "linsert"}, {5, "lset"}, {3, "lpop"}, {3, "lreverse"},
	{2, "lextend"}, {2, "lconcat"}, {2, "lindex"}, {1, "lcount"}, {2, "lremove"}, {2, "lget"}, {2, "lslice"}, {1, "lcopy"}, {1, "ldel"}, {1, "lcontains"}}

// kind `iter`: iterators and loops over lists that change meanwhile; the list operations in
// between are mostly mutations
var c16IterListOps = []c16_wop{{8, "lappend"}, {6, "lpop"}, {4, "lremove"}, {6, "lset"}, {5, "linsert"}, {1, "lclear"}, {4, "ldel"},
	{2, "lsort"}, {2, "lreverse"}, {2, "lextend"}, {1, "laddassign"}, {2, "lget"}, {1, "lcopy"}, {4, "inew"}, {7, "lfor"}}
var c16ForBodies = []c16_wop{{2, "none"}, {4, "grow"}, {3, "poplast"}, {3, "removecur"}, {1, "clear"}, {3, "setnext"}, {2, "insertfront"}}
var c16MapOps = []c16_wop{{10, "mset"}, {8, "mget"}, {6, "mgetdef"}, {6, "mpop"}, {6, "mdel"}, {4, "mupdate"}, {5, "msetdefault"},
	{4, "mcopy"}, {1, "mclear"}, {3, "mkeys"}, {3, "mvalues"}, {3, "mcontains"}, {2, "mlen"}, {4, "maddassign"}}
var c16SetOps = []c16_wop{{10, "sadd"}, {7, "sremove"}, {5, "sunion"}, {5, "sinter"}, {4, "scontains"}, {3, "sget"}, {4, "sdel"}, {2, "slen"}, {1, "sclear"}}
var c16BytesOps = []c16_wop{{8, "bget"}, {8, "bset"}, {6, "bslice"}, {4, "bclone"}, {2, "blen"}}
var c16StrOps = []c16_wop{{8, "strget"}, {8, "strslice"}, {2, "strlen"}}

func c16_pickW(r *RNG, ops []c16_wop) string {
	t := 0
	for _, o := range ops {
		t += o.w
	}
	k := r.Intn(t)
	for _, o := range ops {
		if k < o.w {
			return o.name
		}
		k -= o.w
	}
	return ops[0].name
}

// allowDefects: whether this sequence may contain the operations of the known findings
// (byte_slice slicing; list.map callbacks that keep their index were among them until the repair)
func (g *c16Gen) next(allowDefects bool, curStr *string) (c16Op, bool) {
	objs := g.w.objs
	kind := g.kind
	if g.probe != nil {
		if g.rng.Chance(80) {
			if o, ok := g.probeOp(); ok {
				return o, true
			}
		} else {
			g.probe = nil
		}
	}
	builtinChance := 10
	if kind == "builtins" {
		builtinChance = 45
		kind = "mixed"
	}
	iterChance, listOps := 25, c16ListOps
	if kind == "iter" {
		iterChance, listOps = 45, c16IterListOps
		kind = "list"
	}
	if kind == "numsort" {
		builtinChance, listOps = 22, c16NumSortOps
		kind = "list"
	}
	if kind == "mixed" {
		kind = Pick(g.rng, []string{"list", "list", "map", "set", "bytes"})
	}
	pickH := func(pred func(object.Object) bool) (int, bool) {
		hs := g.handles(pred)
		if len(hs) == 0 {
			return 0, false
		}
		// prefer the early (long-lived) objects, but also touch derived ones
		if g.rng.Chance(60) {
			return hs[0], true
		}
		return Pick(g.rng, hs), true
	}
	H := strconv.Itoa
	switch kind {
	case "list":
		// an iterator that exists is stepped (or drained) between the other list operations,
		// which change the list it runs over
		if its := g.handles(c16_isIter); len(its) > 0 && g.rng.Chance(iterChance) {
			it := Pick(g.rng, its)
			name := "inext"
			if g.rng.Chance(15) {
				name = "irest"
			}
			cls := name + "/list-unchanged-since-last-step"
			if g.ver[g.iterOf[it]] != g.iterSeen[it] {
				cls = name + "/list-changed-since-last-step"
			}
			g.iterSeen[it] = g.ver[g.iterOf[it]]
			g.e.R.H("iter_step", cls)
			return c16Op{name, []string{H(it)}}, true
		}
		r, ok := pickH(c16_isList)
		if !ok {
			return c16Op{}, false
		}
		if g.rng.Chance(builtinChance) {
			if o, ok := g.builtinOp(r); ok {
				return o, true
			}
		}
		l := objs[r].(*object.List)
		n := l.Size()
		name := c16_pickW(g.rng, listOps)
		switch name {
		case "inew":
			return c16Op{name, []string{H(r)}}, true
		case "lfor":
			form := Pick(g.rng, []string{"idx", "noidx"})
			body := c16_pickW(g.rng, c16ForBodies)
			arg := "_"
			switch body {
			case "grow", "insertfront":
				arg = strconv.Itoa(g.rng.Intn(n + 7)) // a bound below, at or above the current length
			case "setnext":
				arg = g.val()
			}
			if body != "none" {
				g.nMut++
			}
			g.e.R.H("for_body", body+"/"+form)
			return c16Op{name, []string{H(r), form, body, arg}}, true
		case "lget", "lpop", "ldel":
			if name != "lget" {
				g.nMut++
			}
			return c16Op{name, []string{H(r), g.index(n, name != "lpop")}}, true
		case "lslice":
			return c16Op{name, []string{H(r), g.optIndex(n), g.optIndex(n)}}, true
		case "lset":
			g.nMut++
			return c16Op{name, []string{H(r), g.index(n, true), g.valOrRef(r)}}, true
		case "laddassign":
			g.nMut++
			v := Pick(g.rng, []string{"i1", "i5", "i-3", c16_sTok("x"), c16_sTok("é"), "i9223372036854775807", "d0", "d1", "d4", "y2"})
			idx := g.index(n, true)
			if k, err := strconv.ParseInt(strings.TrimPrefix(idx, "i"), 10, 64); err == nil && idx[0] == 'i' {
				if k < 0 {
					k += int64(n)
				}
				if k >= 0 && k < int64(n) {
					v = c16_addOperand(l.Value()[k], v)
				}
			}
			return c16Op{name, []string{H(r), idx, v}}, true
		case "lappend":
			g.nMut++
			return c16Op{name, []string{H(r), g.valOrRef(r)}}, true
		case "linsert":
			g.nMut++
			return c16Op{name, []string{H(r), g.index(n, false), g.valOrRef(r)}}, true
		case "lremove", "lindex", "lcount", "lcontains":
			if name == "lremove" {
				g.nMut++
			}
			return c16Op{name, []string{H(r), g.atomSameKind(l)}}, true
		case "lextend", "lconcat":
			if name == "lextend" {
				g.nMut++
			}
			var arg string
			if g.rng.Chance(8) {
				arg = Pick(g.rng, []string{"n", "i1", c16_sTok("ab")})
				if hs := g.handles(c16_isMap); len(hs) > 0 && g.rng.Bool() {
					arg = "r" + H(hs[0])
				}
			} else {
				o, _ := pickH(c16_isList)
				if g.rng.Chance(30) {
					o = r
				}
				if g.leaf[r] && name == "lextend" && c16_containsContainer(objs[o]) {
					o = r
				}
				arg = "r" + H(o)
			}
			return c16Op{name, []string{H(r), arg}}, true
		case "lsort", "lsorted":
			if n > 20 && !c16_regularForSort(l) {
				return c16Op{"llen", []string{H(r)}}, true
			}
			if name == "lsort" {
				g.nMut++
			}
			return c16Op{name, []string{H(r)}}, true
		case "lmap":
			// every callback shape, in every sequence: the index-returning one is no known
			// defect any more (fix: give every list.map callback its own index object)
			cb := Pick(g.rng, []string{"val", "idxplus", "one", "idx"})
			return c16Op{name, []string{H(r), cb}}, true
		case "lmapacc":
			acc, _ := pickH(c16_isList)
			hs := g.handles(c16_isList)
			acc = Pick(g.rng, hs)
			g.nMut++
			return c16Op{name, []string{H(r), H(acc)}}, true
		default:
			if name == "lreverse" || name == "lclear" {
				g.nMut++
			}
			return c16Op{name, []string{H(r)}}, true
		}
	case "map":
		r, ok := pickH(c16_isMap)
		if !ok {
			return c16Op{}, false
		}
		if g.rng.Chance(builtinChance) {
			if o, ok := g.builtinOp(r); ok {
				return o, true
			}
		}
		key := func() string {
			if g.rng.Chance(5) {
				return Pick(g.rng, []string{"i1", "n", "t"})
			}
			return c16_sTok(Pick(g.rng, c16Keys))
		}
		optv := func() string {
			if g.rng.Bool() {
				return "_"
			}
			return g.val()
		}
		name := c16_pickW(g.rng, c16MapOps)
		switch name {
		case "mset", "msetdefault":
			g.nMut++
			return c16Op{name, []string{H(r), key(), g.valOrRef(r)}}, true
		case "mget", "mdel", "mcontains":
			if name == "mdel" {
				g.nMut++
			}
			return c16Op{name, []string{H(r), key()}}, true
		case "mgetdef", "mpop":
			if name == "mpop" {
				g.nMut++
			}
			return c16Op{name, []string{H(r), key(), optv()}}, true
		case "maddassign":
			g.nMut++
			k := key()
			v := Pick(g.rng, []string{"i1", "i-7", c16_sTok("z"), "d1"})
			if k[0] == 's' {
				kb, _ := hex.DecodeString(k[1:])
				if old, ok := objs[r].(*object.Map).Value()[string(kb)]; ok {
					v = c16_addOperand(old, v)
				}
			}
			return c16Op{name, []string{H(r), k, v}}, true
		case "mupdate":
			g.nMut++
			o, _ := pickH(c16_isMap)
			hs := g.handles(c16_isMap)
			o = Pick(g.rng, hs)
			arg := "r" + H(o)
			if g.leaf[r] && c16_containsContainer(objs[o]) {
				arg = "r" + H(r)
			}
			if g.rng.Chance(6) {
				arg = Pick(g.rng, []string{"n", "i1", c16_sTok("ab")})
			}
			return c16Op{name, []string{H(r), arg}}, true
		default:
			if name == "mclear" {
				g.nMut++
			}
			return c16Op{name, []string{H(r)}}, true
		}
	case "set":
		r, ok := pickH(c16_isSet)
		if !ok {
			return c16Op{}, false
		}
		if g.rng.Chance(builtinChance) {
			if o, ok := g.builtinOp(r); ok {
				return o, true
			}
		}
		name := c16_pickW(g.rng, c16SetOps)
		switch name {
		case "sadd", "sremove", "scontains", "sget", "sdel":
			if name == "sadd" || name == "sremove" || name == "sdel" {
				g.nMut++
			}
			v := g.val()
			if g.rng.Chance(5) {
				if hs := g.handles(c16_isList); len(hs) > 0 {
					v = "r" + H(hs[0]) // unhashable
				}
			}
			return c16Op{name, []string{H(r), v}}, true
		case "sunion", "sinter":
			hs := g.handles(c16_isSet)
			arg := "r" + H(Pick(g.rng, hs))
			if g.rng.Chance(6) {
				arg = Pick(g.rng, []string{"n", "i1"})
			}
			return c16Op{name, []string{H(r), arg}}, true
		default:
			if name == "sclear" {
				g.nMut++
			}
			return c16Op{name, []string{H(r)}}, true
		}
	case "bytes":
		r, ok := pickH(c16_isBytes)
		if !ok {
			return c16Op{}, false
		}
		if g.rng.Chance(builtinChance) {
			if o, ok := g.builtinOp(r); ok {
				return o, true
			}
		}
		n := len(objs[r].(*object.ByteSlice).Value())
		name := c16_pickW(g.rng, c16BytesOps)
		switch name {
		case "bget":
			return c16Op{name, []string{H(r), g.index(n, true)}}, true
		case "bset":
			g.nMut++
			v := Pick(g.rng, []string{c16_sTok("z"), c16_sTok("\x00"), c16_sTok("Q"), c16_sTok("é"), c16_sTok(""), "i7", "y7", "n"})
			return c16Op{name, []string{H(r), g.index(n, true), v}}, true
		case "bslice":
			if !allowDefects {
				return c16Op{"bclone", []string{H(r)}}, true
			}
			return c16Op{name, []string{H(r), g.optIndex(n), g.optIndex(n)}}, true
		default:
			return c16Op{name, []string{H(r)}}, true
		}
	case "string":
		s := *curStr
		n := len([]rune(s))
		name := c16_pickW(g.rng, c16StrOps)
		switch name {
		case "strget":
			return c16Op{name, []string{c16_sTok(s), g.index(n, true)}}, true
		case "strslice":
			return c16Op{name, []string{c16_sTok(s), g.optIndex(n), g.optIndex(n)}}, true
		default:
			return c16Op{name, []string{c16_sTok(s)}}, true
		}
	}
	return c16Op{}, false
}

// initial objects as protocol text + real objects
func (g *c16Gen) initObjects() []string {
	var specs []string
	add := func(spec string) {
		specs = append(specs, spec)
		g.w.objs = append(g.w.objs, c16Build(spec))
	}
	mkList := func() string {
		n := g.rng.Intn(7)
		if g.rng.Chance(10) {
			n = 18 + g.rng.Intn(8)
		}
		vs := make([]string, n)
		mode := g.rng.Intn(5)
		for i := range vs {
			switch mode {
			case 4: // numbers of all three numeric types, many of them equal by value
				vs[i] = Pick(g.rng, []string{"i0", "i1", "i2", "i3", "d0", "d2", "d4", "d6", "d3", "y1", "y2", "y3"})
			case 0:
				vs[i] = c16_iTok(int64(g.rng.Intn(7) - 2))
			case 1:
				vs[i] = c16_sTok(Pick(g.rng, []string{"a", "b", "c", "é", "ab", ""}))
			default:
				vs[i] = g.val()
			}
		}
		return "L:" + strings.Join(vs, ",")
	}
	mkMap := func() string {
		n := g.rng.Intn(5)
		var kvs []string
		for i := 0; i < n; i++ {
			kvs = append(kvs, hex.EncodeToString([]byte(Pick(g.rng, c16Keys)))+"="+g.val())
		}
		return "M:" + strings.Join(kvs, ",")
	}
	mkSet := func() string {
		n := g.rng.Intn(6)
		vs := make([]string, n)
		for i := range vs {
			vs[i] = g.val()
		}
		return "S:" + strings.Join(vs, ",")
	}
	mkBytes := func() string {
		n := g.rng.Intn(7)
		b := make([]byte, n)
		for i := range b {
			b[i] = byte(g.rng.Intn(256))
		}
		return "B:" + hex.EncodeToString(b)
	}
	mkNumList := func() string {
		n := 2 + g.rng.Intn(9)
		if g.rng.Chance(12) {
			n = 21 + g.rng.Intn(12) // beyond sort.SliceStable's insertion-sort blocks
		}
		vs := make([]string, n)
		for i := range vs {
			vs[i] = g.numVal()
		}
		if g.rng.Chance(30) { // one cluster only: many items differ in their last bits
			c := c16NumClusters[g.rng.Intn(len(c16NumClusters))]
			for i := range vs {
				vs[i] = c16_iTok(c.base + Pick(g.rng, c.offs))
			}
		}
		return "L:" + strings.Join(vs, ",")
	}
	switch g.kind {
	case "numsort":
		add(mkNumList())
		add(mkNumList())
	case "list":
		add(mkList())
		add(mkList())
		if g.rng.Bool() {
			add(mkMap())
		}
	case "map":
		add(mkMap())
		add(mkMap())
		if g.rng.Bool() {
			add(mkList())
		}
	case "set":
		add(mkSet())
		add(mkSet())
		if g.rng.Bool() {
			add(mkList())
		}
	case "bytes":
		add(mkBytes())
		add(mkBytes())
	case "iter":
		add(mkList())
		add(mkList())
	case "string":
	default:
		add(mkList())
		add(mkMap())
		add(mkSet())
		add(mkBytes())
		add(mkList())
	}
	return specs
}

func c16Build(spec string) object.Object {
	body := spec[2:]
	var parts []string
	if body != "" {
		parts = strings.Split(body, ",")
	}
	switch spec[0] {
	case 'L':
		items := make([]object.Object, len(parts))
		for i, p := range parts {
			items[i] = c16Obj(p, nil)
		}
		return object.NewList(items)
	case 'S':
		items := make([]object.Object, len(parts))
		for i, p := range parts {
			items[i] = c16Obj(p, nil)
		}
		return object.NewSet(items)
	case 'M':
		m := map[string]object.Object{}
		for _, p := range parts {
			kv := strings.SplitN(p, "=", 2)
			k, _ := hex.DecodeString(kv[0])
			m[string(k)] = c16Obj(kv[1], nil)
		}
		return object.NewMap(m)
	case 'B':
		b, _ := hex.DecodeString(body)
		return object.NewByteSlice(b)
	}
	return object.Nil
}

// ---------------------------------------------------------------- one case

type c16Case struct {
	key     string
	objs    string
	ops     []c16Op
	mode    string
	goInit  string
	goRes   []string
	goState []string
	nontriv bool
	// sorts of numbers performed by the real code: (step, items before, items after)
	sortChecks []c16SortCheck
}

type c16SortCheck struct {
	step          int
	before, after string
}

func c16_renderItems(items []object.Object) string {
	parts := make([]string, len(items))
	for i, it := range items {
		parts[i] = c16Render(it, 0)
	}
	return strings.Join(parts, ",")
}

// the items a one-argument sort (l.sort(), l.sorted(), sorted(x)) is about to sort, when they
// are all numbers
func (w *c16World) sortOperand(o c16Op) ([]object.Object, bool) {
	if o.name != "lsort" && o.name != "lsorted" && o.name != "xsorted" {
		return nil, false
	}
	k, err := strconv.Atoi(o.args[0])
	if err != nil || k < 0 || k >= len(w.objs) {
		return nil, false
	}
	if (o.name == "lsort" || o.name == "lsorted") && !c16_isList(w.objs[k]) {
		return nil, false
	}
	items := c16_sortItems(w.objs[k])
	if len(items) == 0 || !c16_numItems(items) {
		return nil, false
	}
	return append([]object.Object(nil), items...), true
}

// oracle tag -> id of the known finding. C16-list-map-shared-index (tag `map`) was repaired
// (fix: give every list.map callback its own index object): the oracle no longer issues the
// tag and no case is attributed to it, so a recurrence is an unlisted VIOLATION.
var c16FindingIDs = map[string]string{"bytes": "C16-byteslice-slice-shares-bytes"}

func (c *c16Case) request() string {
	ops := make([]string, len(c.ops))
	for i, o := range c.ops {
		ops[i] = o.String()
	}
	return "C16\tseq\t" + cleanField(c.objs) + "\t" + cleanField(strings.Join(ops, ";"))
}

func c16Describe(c *c16Case, upto int) string {
	ops := make([]string, 0, upto+1)
	for i := 0; i <= upto && i < len(c.ops); i++ {
		ops = append(ops, c.ops[i].String())
	}
	return fmt.Sprintf("mode=%s objs=[%s] ops=[%s]", c.mode, c.objs, strings.Join(ops, ";"))
}

func c16Judge(e *Env, c *c16Case, reply string) {
	e.R.Case(c.key, c.nontriv)
	f := strings.Split(reply, "\t")
	if len(f) != 3 || f[0] != "ok" {
		e.R.Mismatch(c16Describe(c, len(c.ops)), "-", reply, "oracle rejected the request")
		return
	}
	if f[1] != c.goInit {
		e.R.Mismatch(c16Describe(c, -1), c.goInit, f[1], "initial objects render differently")
		return
	}
	var steps []string
	if f[2] != "" {
		steps = strings.Split(f[2], "|")
	}
	if len(steps) != len(c.ops) {
		e.R.Mismatch(c16Describe(c, len(c.ops)), fmt.Sprint(len(c.ops)), fmt.Sprint(len(steps)), "step count")
		return
	}
	specAlive := true // Spec is followed until Impl and Spec first part ways
	for k, st := range steps {
		p := strings.Split(st, ";")
		if len(p) < 4 {
			e.R.Mismatch(c16Describe(c, k), "-", st, "malformed step reply")
			return
		}
		implRes, implState, tag := p[0], p[1], p[2]
		goOut := c.goRes[k] + " / " + c.goState[k]
		agrees := c.goRes[k] == implRes && c.goState[k] == implState
		specRes, specState := implRes, implState
		if p[3] != "=" && len(p) >= 5 {
			specRes, specState = p[3], p[4]
		}
		specSame := p[3] == "="
		if specAlive {
			if !c16SameForSpec(c.goRes[k], specRes) || c.goState[k] != specState {
				finding := ""
				if agrees && !specSame && tag != "-" {
					finding = c16FindingIDs[tag]
				}
				detail := fmt.Sprintf("step %d (%s): real code gives %s; the reference containers give %s / %s", k, c.ops[k], goOut, specRes, specState)
				e.R.Spec(c16Describe(c, k), detail, finding)
				specAlive = false
			} else if !specSame {
				specAlive = false // the real code follows Spec where Impl does not: reported below as a mismatch
			}
		}
		if !agrees {
			e.R.Mismatch(c16Describe(c, k), goOut, implRes+" / "+implState, fmt.Sprintf("step %d (%s): real objects vs Lean Impl model", k, c.ops[k]))
			return
		}
	}
}

// The property asks that bad accesses "raise errors": for the Spec verdict every raised
// error class is as good as another (the class is still compared with the Impl model);
// a Go panic is not counted as a raised error.
func c16SameForSpec(goRes, specRes string) bool {
	if goRes == specRes {
		return true
	}
	isErr := func(s string) bool { return strings.HasPrefix(s, "err:") && s != "err:panic" }
	return isErr(goRes) && isErr(specRes)
}

func c16RunCase(e *Env, rng *RNG, kind, mode string, maxLen int, allowDefects bool, fixed *c16Case) *c16Case {
	w := &c16World{ctx: context.Background()}
	g := &c16Gen{rng: rng, w: w, kind: kind, leaf: map[int]bool{}, e: e, iterOf: map[int]int{}, ver: map[int]int{}, iterSeen: map[int]int{}, numOnly: kind == "numsort"}
	c := &c16Case{mode: mode}
	var specs []string
	if fixed != nil {
		if fixed.objs != "" {
			specs = strings.Split(fixed.objs, ";")
		}
		for _, s := range specs {
			w.objs = append(w.objs, c16Build(s))
		}
	} else {
		specs = g.initObjects()
	}
	c.objs = strings.Join(specs, ";")
	c.goInit = c16State(w.objs)
	curStr := Pick(rng, c16Strings)
	n := maxLen
	if fixed != nil {
		n = len(fixed.ops)
	}
	for k := 0; k < n; k++ {
		var o c16Op
		if fixed != nil {
			o = fixed.ops[k]
		} else {
			var ok bool
			o, ok = g.next(allowDefects, &curStr)
			if !ok {
				break
			}
		}
		var res string
		nBefore := len(w.objs)
		sortIn, sortNums := w.sortOperand(o)
		useScript := mode == "script" || c16ScriptOnly[o.name] || (mode == "both" && rng.Bool())
		if useScript {
			res = w.execScript(o)
			e.R.H("exec", "script")
		} else {
			res = w.execAPI(o)
			e.R.H("exec", "api")
		}
		if sortNums {
			// Spec on the real result: is what the real code left behind the reference sort?
			var after []object.Object
			switch {
			case o.name == "lsort" && res == "unit":
				k, _ := strconv.Atoi(o.args[0])
				after = w.objs[k].(*object.List).Value()
			case o.name != "lsort" && res == "new":
				if l, ok := w.objs[len(w.objs)-1].(*object.List); ok {
					after = l.Value()
				}
			}
			if after != nil {
				c.sortChecks = append(c.sortChecks, c16SortCheck{len(c.ops), c16_renderItems(sortIn), c16_renderItems(after)})
				e.R.H("sort_of_numbers", c16_sortClass(sortIn))
				e.R.H("sort_of_numbers_len", fmt.Sprintf("%02d-%02d", len(sortIn)/10*10, len(sortIn)/10*10+9))
			}
		}
		if fixed == nil {
			nObj := len(w.objs)
			if c16NestedNew[o.name] {
				for q := nBefore; q < nObj-1; q++ {
					g.leaf[q] = true // the nested new lists sit inside the result
				}
			}
			if res == "new" && c16ProducesNew[o.name] && o.args[0][0] >= '0' && o.args[0][0] <= '9' {
				operand, _ := strconv.Atoi(o.args[0])
				g.probe = &c16Probe{operand: operand, result: nObj - 1}
			}
			if o.args[0][0] >= '0' && o.args[0][0] <= '9' {
				operand, _ := strconv.Atoi(o.args[0])
				if o.name == "inew" && res == "new" {
					g.iterOf[nObj-1] = operand
					g.iterSeen[nObj-1] = g.ver[operand]
				}
				if c16Unit[o.name] || o.name == "lpop" || (o.name == "lfor" && o.args[2] != "none") {
					g.ver[operand]++
				}
				if c16HandleArg1[o.name] {
					acc, _ := strconv.Atoi(o.args[1])
					g.ver[acc]++
				}
			}
		}
		c.ops = append(c.ops, o)
		c.goRes = append(c.goRes, res)
		c.goState = append(c.goState, c16State(w.objs))
		e.R.H("op", o.name)
		rk := res
		if strings.HasPrefix(res, "v:") {
			rk = "value"
		}
		e.R.H("result", rk)
		// string chains: a successful slice becomes the next subject
		if o.name == "strslice" && strings.HasPrefix(res, "v:s") {
			b, _ := hex.DecodeString(res[3:])
			if len(b) > 0 {
				curStr = string(b)
			}
		}
		if len(w.objs) > 14 && (kind != "builtins" || len(w.objs) > 22) {
			break
		}
	}
	e.R.H("container", kind)
	e.R.H("seq_len", fmt.Sprintf("%02d-%02d", len(c.ops)/10*10, len(c.ops)/10*10+9))
	if kind == "builtins" {
		e.R.H("seq_len_builtins", fmt.Sprintf("%02d-%02d", len(c.ops)/10*10, len(c.ops)/10*10+9))
	}
	c.nontriv = len(c.ops) >= 3 && (g.nMut >= 1 || kind == "string") && g.nBound >= 1
	ops := make([]string, len(c.ops))
	for i, o := range c.ops {
		ops[i] = o.String()
	}
	c.key = mode + "\t" + c.objs + "\t" + strings.Join(ops, ";")
	return c
}

func c16_parseOps(s string) []c16Op {
	var out []c16Op
	for _, t := range strings.Split(s, ";") {
		p := strings.Split(t, ",")
		out = append(out, c16Op{p[0], p[1:]})
	}
	return out
}

func c16_runC16(e *Env) {
	e.R.Rule = "a case = initial containers + an operation sequence (length <= 40) over one container type (list, map, set, byte_slice, string) " +
		"or a mix with nested references (kind `builtins`: a mix in which ~45% of the steps are builtins that must leave their operand untouched and return an independent container " +
		"-- sorted(x) / sorted(x, f) with f in {<, >, <=, >=, true, false} optionally raising at call k, reversed, list(), set(), keys(), items(), filter, each, chunk -- on list/map/set/byte_slice operands, " +
		"each followed by a mutation of the result and then of the operand; kind `iter`: lists with iterators -- iter(l), it.next(), list(it) -- stepped between mutations of the list they run over, " +
		"and `for i, x := range l` / `for x in l` loops whose body changes l: grows it up to a bound, pops, removes the current item, clears, assigns the next item, inserts at the front), run on the real objects through the object API or through single-statement scripts on the real VM; " +
		"indices drawn from [-len-2, len+2] plus extremes and wrongly typed ones; values from a C15-style pool plus floats that are half-integers of small magnitude and bytes (2 == 2.0 == byte(2)); the needles of index/count/remove/in/filter are drawn from the list and re-typed to another numeric type half of the time; after EVERY step " +
		"the result and the content of EVERY live container are compared with the Lean Impl model and the Lean Spec. " +
		"kind `numsort`: lists of numbers of every magnitude -- ints drawn in clusters of neighbours around 2^53, 2^54, 2^60, 2^62, MaxInt64, MinInt64 (where float64 stops telling ints apart), small ints, bytes, small floats -- " +
		"sorted again and again (l.sort(), l.sorted(), sorted(l), sorted(l, f)) between appends/inserts/assignments of further such numbers; every one-argument sort of numbers the real code performs is also judged against the reference reading Spec.isSortOf (ascending by exact value, stable, nothing lost). " +
		"non-trivial: length >= 3 with >= 1 mutation and >= 1 boundary/negative/out-of-range index; distinct by (mode, initial objects, op list). " +
		"Three further streams (keys C16s|…): `slicego` = one call of the real object.ResolveIntSlice (bounds omitted / int in [-n-3, n+3] / int64 extremes / wrongly typed; n in 0..8, sometimes up to 999) against the function translated from its source on this run (non-trivial: a bound is given); " +
		"`insact` = one (*List).Insert on [0..n-1] (where the item lands vs the translated choice of slice operation); `alias` = 1-3 real lists of ints and 3..24 operations (append, item assignment, pop, slice, copy, extend, +, clear), compared after every step with the Lean lists-with-backing-arrays model " +
		"and checked for pairwise disjoint backing arrays through List.Value() (non-trivial: a slice was taken and operations followed)"
	nSeq := 12000
	if !e.Quick {
		nSeq = 200000
	}
	// directed scenarios first (the design-time probes and aliasing scenarios)
	directed := []struct{ kind, objs, ops string }{
		{"list", "L:s61,s62,s63", "lmap,0,idx"},
		{"list", "L:s61,s62,s63;L:", "lmapacc,0,1;lget,1,i0"},
		{"list", "L:s61,s62,s63", "lmapacc,0,0;lmap,0,idx;lmap,1,idx;lset,2,i0,i9;lget,0,i3"},
		{"bytes", "B:01020304", "bslice,0,i1,i3;bset,1,i0,s7a;bget,0,i1"},
		{"bytes", "B:01020304", "bslice,0,i1,i3;bset,0,i2,s7a;bget,1,i1"},
		{"bytes", "B:01020304", "bclone,0;bset,1,i0,s7a;bset,0,i-1,s51"},
		{"list", "L:i1,i2,i3", "lslice,0,i0,i2;lset,1,i0,i9;lset,0,i1,i8;lpop,0,i0;lappend,1,i4"},
		{"list", "L:i1,i2,i3", "lcopy,0;lpop,0,i-1;lappend,0,i7;linsert,1,i0,i5;lreverse,1"},
		{"list", "L:i1,i2,i3;L:i5", "lappend,0,r1;lcopy,0;lappend,1,i6;lset,2,i0,i0"},
		{"list", "L:i3,i1,i2", "lsorted,0;lreversed,0;lkeys,0;lsort,0;lconcat,0,r0;lextend,0,r0"},
		{"map", "M:61=i1,62=i2", "mcopy,0;mset,0,s61,i9;mdel,1,s62;mkeys,0;mvalues,1;mupdate,0,r1;mpop,0,s61,_;msetdefault,0,s7a,i5"},
		{"set", "S:i1,i2,s61;S:i2,t", "sunion,0,r1;sinter,0,r1;sadd,0,i9;sremove,1,i2;sdel,2,t"},
		{"list", "L:i1,i2", "lget,0,i2;lget,0,i-3;lget,0,s61;lslice,0,i2,_;lslice,0,_,i3;lpop,0,i2;linsert,0,i-9,i0;linsert,0,i99,i5;ldel,0,i-5"},
		{"list", "L:i1,s61,i0", "lsort,0;lget,0,i0"},
		// builtins that must leave their operand untouched and return an independent container
		{"list", "L:i3,i1,i2", "sortedby,0,lt,_;lget,0,i0;lset,1,i0,i100;lget,0,i0;lappend,0,i7;llen,1;sortedby,0,gt,_;lreverse,2;lget,0,i0"},
		{"list", "L:i3,i1,i2,i0", "sortedby,0,lt,1;lget,0,i0;sortedby,0,lt,0;sortedby,0,lt,5;sortedby,0,lt,99;lget,0,i-1"},
		{"list", "L:i3,i1,s61,i0", "sortedby,0,lt,_;lget,0,i0;sortedby,0,always,_;sortedby,0,never,_;sortedby,0,le,_;sortedby,0,ge,_;xsorted,0"},
		{"list", "L:i2,i1,i2,i1;L:", "sortedby,0,le,_;sortedby,0,ge,_;sortedby,0,always,2;lfilter,0,ne,i1;lfilter,0,eq,i1;leachacc,0,1;leachacc,0,0;leach,0;tolist,0;toset,0;keysof,0;xreversed,0;lset,0,i0,i9"},
		{"map", "M:62=i1,61=i2,63=i0", "sortedby,0,gt,_;xsorted,0;tolist,0;toset,0;keysof,0;mitems,0;lset,1,i0,s7a;lappend,6,i5;lset,9,i0,i7;mset,0,s61,i9;mdel,0,s62;sadd,4,i1"},
		{"set", "S:i3,i1,i2", "sortedby,0,gt,_;sortedby,0,lt,1;xsorted,0;tolist,0;toset,0;keysof,0;sadd,0,i9;lappend,2,i5;sremove,4,i1;lset,1,i0,i7"},
		{"set", "S:i3,i1,s61", "sortedby,0,gt,_;xsorted,0;sortedby,0,always,_;tolist,0;sadd,0,i9;lpop,1,i0"},
		{"bytes", "B:030102", "sortedby,0,lt,_;xsorted,0;xreversed,0;bset,3,i0,s7a;bset,0,i1,s51;lset,1,i0,i9;sortedby,0,gt,1"},
		// searching by value across the numeric types (2 == 2.0 == byte(2)); a float made by arithmetic
		{"list", "L:i1,d4,i3", "lindex,0,i2;lcount,0,i2;lcontains,0,i2;lindex,0,y2;lremove,0,i2;llen,0;lindex,0,i2"},
		{"list", "L:i4,i8,i9", "laddassign,0,i1,d0;lindex,0,i8;lcount,0,y8;lremove,0,i8;llen,0;lpop,0,i-1;lget,0,i1"},
		{"list", "L:y2,i2,d4,s61,d3", "lcount,0,i2;lcount,0,d4;lcount,0,y2;lindex,0,d4;lremove,0,d4;lremove,0,d4;lremove,0,d4;lremove,0,d4;lfilter,0,eq,i2;lindex,0,i1;lcontains,0,d3"},
		{"list", "L:i3,d2,y2,d5,i0", "lsort,0;xsorted,0;toset,0;sortedby,0,gt,_;lindex,0,d6;lremove,0,y1;lget,0,i0"},
		// sorting ints a float64 cannot tell apart (2^53+1 / 2^53, MaxInt64 / MaxInt64-1), alone and among floats and bytes
		{"list", "L:i9007199254740993,i9007199254740992", "lsort,0;lget,0,i0"},
		{"list", "L:i9223372036854775807,i9223372036854775806,i9223372036854775805", "lsorted,0;xsorted,0;sortedby,0,lt,_;lsort,0;lget,0,i0"},
		{"list", "L:i-9007199254740993,d3,i-9007199254740992,y2,i9007199254740993,d4,i9007199254740992,i2", "xsorted,0;lsorted,0;lsort,0;lreverse,0;lsort,0"},
		// iterate a list that changes meanwhile: the iterator is a cursor into the live list
		{"list", "L:i1,i2,i3", "inew,0;inext,1;lappend,0,i4;inext,1;inext,1;inext,1;inext,1;lappend,0,i5;inext,1;irest,1"},
		{"list", "L:i1,i2,i3", "inew,0;inext,1;lclear,0;inext,1;lappend,0,i7;lappend,0,i8;irest,1;inext,1"},
		{"list", "L:i1,i2,i3,i4", "inew,0;lpop,0,i0;inext,1;lset,0,i1,i9;inext,1;linsert,0,i0,i5;irest,1;irest,1"},
		{"list", "L:i1,i2", "inew,0;lappend,0,i3;lappend,0,i4;lappend,0,i5;lset,0,i0,i9;inext,1;irest,1;inew,0;lremove,0,i3;irest,3"},
		{"list", "L:i1,i2,i3,i4", "lfor,0,idx,none,_;lfor,0,noidx,none,_;lfor,0,idx,grow,7;lfor,0,noidx,poplast,_;lfor,0,idx,removecur,_;lfor,0,idx,setnext,s7a;lfor,0,noidx,insertfront,6;lfor,0,idx,clear,_;llen,0"},
		{"list", "L:i1,i2;L:i5", "lappend,0,r1;lfor,0,idx,grow,5;lfor,0,noidx,removecur,_;lfor,0,idx,grow,2;lget,0,i-1"},
		{"list", "L:i1,i2,i3,i4,i5;L:i9", "lappend,0,r1;lchunk,0,i2;lset,2,i0,i8;lget,0,i0;lappend,0,i6;lpop,5,i0;lchunk,0,i0;lchunk,0,i9223372036854775807;lchunk,0,n;lappend,1,i7"},
	}
	var cases []*c16Case
	flush := func() {
		if len(cases) == 0 {
			return
		}
		reqs := make([]string, len(cases))
		for i, c := range cases {
			reqs[i] = c.request()
		}
		reps := e.O.AskBatch(reqs)
		for i, c := range cases {
			c16Judge(e, c, reps[i])
		}
		// every sort of numbers the real code performed against the reference reading
		// (Risor.C16.Spec.isSortOf: ascending by exact value, stable, nothing lost)
		var sreqs []string
		var sown []*c16Case
		var sidx []int
		for _, c := range cases {
			for k, sc := range c.sortChecks {
				sreqs = append(sreqs, "C16\tsortspec\t"+cleanField(sc.before)+"\t"+cleanField(sc.after))
				sown = append(sown, c)
				sidx = append(sidx, k)
			}
		}
		if len(sreqs) > 0 {
			sreps := e.O.AskBatch(sreqs)
			for i, rep := range sreps {
				c, sc := sown[i], sown[i].sortChecks[sidx[i]]
				switch {
				case rep == "ok\tsorted":
				case strings.HasPrefix(rep, "ok\tnot-the-sort"):
					e.R.Spec(c16Describe(c, sc.step), fmt.Sprintf("step %d (%s): the real code sorted the numbers [%s] into [%s], which is not their sort by value (%s)",
						sc.step, c.ops[sc.step], sc.before, sc.after, strings.TrimPrefix(rep, "ok\tnot-the-sort;")), "")
				default:
					e.R.Mismatch(c16Describe(c, sc.step), sc.before+" -> "+sc.after, rep, "oracle rejected the sortspec request")
				}
			}
		}
		cases = cases[:0]
	}
	for _, d := range directed {
		for _, mode := range []string{"api", "script"} {
			fixed := &c16Case{objs: d.objs, ops: c16_parseOps(d.ops)}
			cases = append(cases, c16RunCase(e, e.Rng.Fork(), d.kind, mode, 0, true, fixed))
		}
	}
	flush()
	// the translated index functions and the lists-with-backing-arrays model against the real code
	// (before the long random stream, so that their mismatches are among those kept)
	c16SliceStreams(e)
	kinds := []string{"list", "list", "list", "map", "map", "set", "bytes", "string", "mixed", "mixed", "builtins", "builtins", "builtins", "iter", "iter", "iter", "numsort", "numsort"}
	for i := 0; i < nSeq; i++ {
		rng := e.Rng.Fork()
		kind := kinds[i%len(kinds)]
		mode := []string{"api", "script", "both"}[rng.Intn(3)]
		maxLen := 3 + rng.Intn(38)
		if e.Quick && rng.Chance(60) {
			maxLen = 3 + rng.Intn(15)
		}
		allowDefects := rng.Chance(10) // >= 85% of the sequences stay inside the guards
		if allowDefects {
			e.R.H("sequence_guard", "may-contain-known-defect-ops")
		} else {
			e.R.H("sequence_guard", "inside-guards")
		}
		cases = append(cases, c16RunCase(e, rng, kind, mode, maxLen, allowDefects, nil))
		if len(cases) >= 200 {
			flush()
		}
	}
	flush()
}
