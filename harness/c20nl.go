package main

// C20 — parser-level newline invariance: correspondence for `parse_newline_invariant`
// (lean/RisorModel/C20/ParseNewlineProps.lean).
//
// The theorem says: for every expression tree of the core and EVERY layout (any number of NEWLINE
// tokens in each permitted gap: after a binary operator, after the `.` of a method call, and in
// non-empty call arguments / list literals after the opening bracket, after each comma and
// before the closing bracket, with or without a trailing comma) the Pratt model parses the
// laid-out tokens back to the tree.  This stream exercises the REAL lexer and parser on exactly
// those layouts, and the Lean objects of the theorem on the real tokens:
//
//   tree    = a random expression tree of the core (C01's generator c01parseGen);
//   layout  = a count per permitted gap, numbered left to right as in Lean's `gaps`
//             (random mixes, and every gap on its own);
//   text    = the tree printed with minimal parentheses and the layout's line breaks
//             (c20nlPrinter; optional indentation and `// comment` before a break);
//   tokens  = the REAL lexer on the text;
//   real    = the REAL parser on the text, converted back to a tree;
//   oracle  = `C20 parsenl`: Lean `parseExpr` on the real tokens, and Lean
//             `renderNLTop (Layout.ofLists …) tree` compared with the real tokens.
// Checked: real == tree (else Spec: a permitted line break changed the syntax tree),
// Lean parse == real (else Mismatch), Lean renderNL == real tokens (else Mismatch: the harness
// layouts are not the theorem's layouts).
// Negative cases: one line break at a token gap that is NOT permitted; the real parser must not
// return the tree there either (it fails, or reads several statements) and the Pratt model must
// agree — this keeps the permitted set of the theorem equal to the real parser's.

import (
	"fmt"
	"strconv"
	"strings"

	"github.com/risor-io/risor/lexer"
	"github.com/risor-io/risor/token"
)

// c20nlPrinter prints a tree; at every permitted gap it asks gap() for the number of newlines
// (and, before a closing bracket, for a trailing comma) and records the rune offset of the gap
// in the text printed so far.
type c20nlPrinter struct {
	sb     strings.Builder
	nRunes int
	nls    []int    // count per gap, in gap order
	lits   []string // per gap: "0", or one letter per NEWLINE token (n = "\n", r = "\r\n")
	crlf   func() bool
	commas []bool // trailing comma per gap (false at gaps where it does not apply)
	offs   []int  // rune offset of each gap in the text WITHOUT line breaks (flat printing only)
	choose func(i int, closing bool) (n int, comma bool)
	deco   func() (before, after string) // blanks/comment before a break, indentation after it
}

func (p *c20nlPrinter) w(s string) {
	p.sb.WriteString(s)
	p.nRunes += len([]rune(s))
}

func (p *c20nlPrinter) gap(closing bool) {
	i := len(p.nls)
	n, comma := 0, false
	if p.choose != nil {
		n, comma = p.choose(i, closing)
	}
	if !closing {
		comma = false
	}
	p.nls = append(p.nls, n)
	p.commas = append(p.commas, comma)
	p.offs = append(p.offs, p.nRunes)
	if comma {
		p.w(",")
	}
	lit := ""
	for k := 0; k < n; k++ {
		before, after := "", ""
		if p.deco != nil {
			before, after = p.deco()
		}
		if before == "" && p.crlf != nil && p.crlf() {
			p.w("\r\n" + after)
			lit += "r"
		} else {
			p.w(before + "\n" + after)
			lit += "n"
		}
	}
	if lit == "" {
		lit = "0"
	}
	p.lits = append(p.lits, lit)
}

// expr: x as an operand in a position with parse level q followed by a token of precedence fl
// (the parenthesisation of c01parseRender / Lean `render`).
func (p *c20nlPrinter) expr(x *N, q, fl int) {
	top := c01parseTop(x)
	stop := top
	if x.K == "tern" {
		stop = 1
	}
	bare := (q < top && fl <= stop) || top == 100
	f := fl
	if !bare {
		f = 1
		p.w("(")
	}
	switch x.K {
	case "int":
		p.w(strconv.FormatInt(x.I, 10))
	case "bool":
		if x.I == 1 {
			p.w("true")
		} else {
			p.w("false")
		}
	case "nil":
		p.w("nil")
	case "str":
		p.w(quote(x.S))
	case "id":
		p.w(x.S)
	case "infix":
		pr := precTable[x.S]
		p.expr(x.C[0], pr-1, pr)
		p.w(" " + x.S + " ")
		p.gap(false)
		p.expr(x.C[1], pr, f)
	case "prefix":
		p.w(x.S)
		p.expr(x.C[0], 13, f)
	case "tern":
		p.expr(x.C[0], 6, 6)
		p.w(" ? ")
		p.expr(x.C[1], 6, 1)
		p.w(" : ")
		p.expr(x.C[2], 6, f)
	case "in":
		p.expr(x.C[0], 13, 13)
		p.w(" in ")
		p.expr(x.C[1], 13, f)
	case "notin":
		p.expr(x.C[0], 13, 13)
		p.w(" not in ")
		p.expr(x.C[1], 13, f)
	case "call":
		p.expr(x.C[0], 13, 14)
		p.w("(")
		p.list(x.C[1:])
		p.w(")")
	case "mcall":
		p.expr(x.C[0], 14, 15)
		p.w(".")
		p.gap(false)
		p.w(x.S + "(")
		p.list(x.C[1:])
		p.w(")")
	case "index":
		p.expr(x.C[0], 14, 15)
		p.w("[")
		p.expr(x.C[1], 1, 1)
		p.w("]")
	case "slice":
		p.expr(x.C[0], 14, 15)
		p.w("[")
		if x.C[1].K != "none" {
			p.expr(x.C[1], 1, 1)
		}
		p.w(":")
		if x.C[2].K != "none" {
			p.expr(x.C[2], 1, 1)
		}
		p.w("]")
	case "list":
		p.w("[")
		p.list(x.C)
		p.w("]")
	default:
		p.w("<?" + x.K + ">")
	}
	if !bare {
		p.w(")")
	}
}

// list: the items between the brackets.  An empty list has no gap (`f(⏎)` does not parse).
func (p *c20nlPrinter) list(xs []*N) {
	if len(xs) == 0 {
		return
	}
	for i, a := range xs {
		if i == 0 {
			p.gap(false) // after the opening bracket
		} else {
			p.w(", ")
			p.gap(false) // after the comma
		}
		p.expr(a, 1, 1)
	}
	p.gap(true) // before the closing bracket
}

func c20nlJoinLits(xs []string) string {
	if len(xs) == 0 {
		return "0" // a tree without gaps: the (empty) layout is still compared
	}
	return strings.Join(xs, ".")
}

func c20nlJoinBools(xs []bool) string {
	if len(xs) == 0 {
		return "-"
	}
	var sb strings.Builder
	for _, x := range xs {
		if x {
			sb.WriteByte('1')
		} else {
			sb.WriteByte('0')
		}
	}
	return sb.String()
}

// c20nlTokenStarts: rune offsets at which the tokens of src start (real lexer) and their types,
// EOF excluded.
func c20nlTokenStarts(src string) ([]int, []string) {
	w, ok := c20Call("starts", src) // the real lexer runs in the worker only
	if !ok {
		return nil, nil
	}
	return w.Starts, w.Types
}

// worker side
func c20nlTokenStartsLocal(src string) ([]int, []string) {
	l := lexer.New(src)
	var out []int
	var types []string
	for i := 0; i < 100000; i++ {
		t, err := l.Next()
		if err != nil || t.Type == token.EOF {
			return out, types
		}
		out = append(out, t.StartPosition.Char)
		types = append(types, string(t.Type))
	}
	return out, types
}

// the recorded defect: a line break right after the `[` or the `:` of an index/slice expression is
// accepted and silently drops the bound that follows (`x[1:⏎2]` is read as `x[1:]`).
const c20nl_fIndexBreak = "C20-newline-in-slice-drops-bound"

type c20nlCase struct {
	toks     string // the oracle's encoding of the real tokens
	nlTok    int    // negative cases: index of the inserted NEWLINE token in the token list
	tree     *N
	src      string
	nls      string // layout fields for the oracle ("-" for negative cases)
	commas   string
	kind     string // "mix", "single", "flat", "forbidden"
	positive bool
	where    string // negative cases: the tokens around the break
	nBreaks  int
}

func c20nlOps(x *N) int {
	ops := 0
	Walk(x, func(y *N, _ []*N) {
		if c01parseOpName(y) != "" {
			ops++
		}
	}, nil)
	return ops
}

func c20ParseNL(e *Env, rng *RNG) {
	e.R.Rule += "; PARSER NEWLINES (c20nl.go): random core expression trees x layouts (random newline counts 0..3 in every permitted gap, " +
		"trailing commas, every gap on its own) printed, lexed by the real lexer, parsed by the real parser and by Lean parseExpr; Lean renderNL " +
		"of the same layout compared with the real tokens; plus one line break at every kind of non-permitted gap (both must refuse); " +
		"distinct by text, non-trivial when the tree has >= 2 operators and the text has a line break"
	nTrees := 500
	if !e.Quick {
		nTrees = 8000
	}
	g := &c01parseGen{r: rng.Fork()}
	r := rng.Fork()
	seen := map[string]bool{}
	var cases []c20nlCase

	deco := func() (string, string) {
		before, after := "", ""
		if r.Chance(12) {
			before = " // c"
		} else if r.Chance(10) {
			before = " # x + ("
		} else if r.Chance(15) {
			before = "  "
		}
		if r.Chance(50) {
			after = strings.Repeat(" ", 1+r.Intn(6))
		} else if r.Chance(20) {
			after = "\t"
		}
		return before, after
	}
	render := func(t *N, choose func(i int, closing bool) (int, bool), withDeco bool) *c20nlPrinter {
		p := &c20nlPrinter{choose: choose}
		if withDeco {
			p.deco = deco
			p.crlf = func() bool { return r.Chance(8) }
		}
		p.expr(t, 1, 1)
		return p
	}
	add := func(t *N, p *c20nlPrinter, kind string) {
		nb := 0
		for _, n := range p.nls {
			nb += n
		}
		cases = append(cases, c20nlCase{tree: t, src: p.sb.String(), nls: c20nlJoinLits(p.lits), commas: c20nlJoinBools(p.commas),
			kind: kind, positive: true, nBreaks: nb})
	}

	for i := 0; i < nTrees; i++ {
		t := g.expr(2+g.r.Intn(5), false)
		if len(t.C) == 0 || !c01parseCore(t) {
			continue
		}
		flat := render(t, nil, false)
		nGaps := len(flat.nls)
		e.R.H("nl_gaps_per_tree", fmt.Sprintf("%02d-%02d", nGaps/5*5, nGaps/5*5+4))
		if i%10 == 0 {
			add(t, flat, "flat")
		}
		if nGaps > 0 {
			// random mixes
			for m := 0; m < 2; m++ {
				pct := 20 + r.Intn(80)
				p := render(t, func(_ int, closing bool) (int, bool) {
					n := 0
					if r.Chance(pct) {
						n = 1 + r.Intn(3)
					}
					return n, closing && r.Chance(40)
				}, true)
				add(t, p, "mix")
			}
			// every gap on its own (all of them for small trees, a sample otherwise)
			for k := 0; k < nGaps; k++ {
				if nGaps > 6 && !r.Chance(600/nGaps) {
					continue
				}
				k := k
				p := render(t, func(i int, closing bool) (int, bool) {
					if i == k {
						return 1 + r.Intn(2), closing && r.Bool()
					}
					return 0, false
				}, r.Bool())
				add(t, p, "single")
			}
		}
		// one break at a token gap that is not permitted
		flatSrc := flat.sb.String()
		starts, types := c20nlTokenStarts(flatSrc)
		permitted := map[int]bool{}
		for _, o := range flat.offs {
			permitted[o] = true
		}
		var forbidden []int
		for k, s := range starts {
			if k > 0 && !permitted[s] {
				forbidden = append(forbidden, k)
			}
		}
		runes := []rune(flatSrc)
		for m := 0; m < 2 && len(forbidden) > 0; m++ {
			k := Pick(r, forbidden)
			s := starts[k]
			src := string(runes[:s]) + "\n" + string(runes[s:])
			where := types[k-1] + " ⏎ " + types[k]
			cases = append(cases, c20nlCase{tree: t, src: src, nls: "-", commas: "-", kind: "forbidden", positive: false, where: where, nBreaks: 1, nlTok: k})
		}
	}

	// ask the oracle in batches
	type pending struct {
		c    c20nlCase
		real string
		sexp string
	}
	var pend []pending
	var reqs []string
	flush := func() {
		if len(reqs) == 0 {
			return
		}
		reps := e.O.AskBatch(reqs)
		for i, pd := range pend {
			c20nlJudge(e, pd.c, pd.real, pd.sexp, reps[i])
		}
		pend, reqs = pend[:0], reqs[:0]
	}
	for _, c := range cases {
		if seen[c.src] {
			e.R.H("nl_cases", "duplicate text (skipped)")
			continue
		}
		seen[c.src] = true
		toks, _, err := c20wLex(e, c.src)
		if err != nil {
			e.R.Mismatch(c.src, "lexer error: "+err.Error(), "-", "real lexer rejects an expression text with line breaks")
			continue
		}
		sexp := Sexp(c.tree)
		c.toks = toks
		pend = append(pend, pending{c: c, real: c20wReal(e, c.src), sexp: sexp})
		reqs = append(reqs, "C20\tparsenl\t"+cleanField(toks)+"\t"+sexp+"\t"+c.nls+"\t"+c.commas)
		if len(reqs) >= 200 {
			flush()
		}
	}
	flush()
}

func c20nlJudge(e *Env, c c20nlCase, real, sexp, rep string) {
	f := strings.Split(rep, "\t")
	e.R.H("nl_cases", c.kind)
	e.R.Case("nl:"+c.src, c20nlOps(c.tree) >= 2 && strings.Contains(c.src, "\n"))
	if f[0] != "ok" || len(f) < 4 {
		e.R.H("nl_model", "unsupported/"+f[0])
		e.R.Mismatch(c.src, real, rep, "C20 parsenl cannot handle the real token list of a core expression with line breaks")
		return
	}
	leanParsed, rt, rend := f[1], f[2], f[3]
	realTree := !strings.HasPrefix(real, "fail:") && !strings.Contains(real, "other:")
	leanTree := leanParsed != "none" && leanParsed != "leftover"

	// (a) the Pratt model against the real parser on the real tokens
	switch {
	case !realTree && !leanTree:
		e.R.H("nl_model", "both refuse")
	case !c.positive && realTree && !leanTree && real != sexp && c20nlIndexBreakDefect(e, c, real):
		// the recorded defect: the real parser accepts the break and drops a bound.  Its Impl model:
		// the NEWLINE and the one token after it are swallowed (parseNewline returns no node, and
		// parseIndex does not look at what it got), i.e. real == Lean parse of the tokens without them.
		e.R.H("nl_model", "recorded defect: break after `[`/`:` of an index drops the bound (real == model of the defect)")
		e.R.Spec(c.src, "a line break after the `[` or `:` of an index/slice ("+c.where+") is accepted and silently changes the tree: the real parser returns "+
			c01parseShow(real)+" for a text that without the break is "+c01parseShow(sexp), c20nl_fIndexBreak)
	case realTree != leanTree || leanParsed != real:
		e.R.H("nl_model", "differs")
		e.R.Mismatch(c.src, real, leanParsed, "parser.Parse vs Pratt.parseExpr on the real lexer's tokens of a text with line breaks")
	default:
		e.R.H("nl_model", "same tree")
	}
	if (rt == "1") != (leanTree && leanParsed == sexp) {
		e.R.Mismatch(c.src, sexp, leanParsed, "oracle's round-trip flag disagrees with the canonical texts")
	}

	if !c.positive {
		// (b') a break at a gap outside the theorem's set: the real parser must not return the tree
		e.R.H("nl_forbidden_gap", c.where)
		if real == sexp {
			e.R.H("nl_forbidden_verdict", "real parser returns the tree (the permitted set of the theorem is smaller than the parser's)")
			e.R.Note("c20nl: the real parser returns the same tree for a line break at a gap outside the theorem's set (%s): %q", c.where, c.src)
		} else {
			e.R.H("nl_forbidden_verdict", "real parser does not return the tree")
		}
		return
	}

	// (b) the property on the real parser: a permitted line break never changes the tree
	e.R.H("nl_breaks_per_text", fmt.Sprintf("%02d", min(c.nBreaks, 20)))
	if real != sexp {
		e.R.H("nl_verdict", "DIFFERENT")
		e.R.Spec(c.src, "line breaks at permitted gaps (layout "+c.nls+", trailing commas "+c.commas+") change what the real parser returns: "+
			c01parseShow(real)+" instead of "+c01parseShow(sexp)+" (parse_newline_invariant proves the model parser returns the tree for every layout)", "")
	} else {
		e.R.H("nl_verdict", "same tree")
	}
	// (c) the theorem's printer on the harness's layout is the real token list
	if rend != "same" {
		e.R.H("nl_render", "differs")
		e.R.Mismatch(c.src, "tokens of the harness text", UnHex(rend), "real lexer's tokens vs NL.renderNLTop of the tree under the same layout (types and literals)")
	} else {
		e.R.H("nl_render", "same tokens")
	}
}

// c20nlIndexBreakDefect: does the real parser's tree equal what the Pratt model returns for the
// token list without the inserted NEWLINE and the token after it?
func c20nlIndexBreakDefect(e *Env, c c20nlCase, real string) bool {
	items := strings.Split(c.toks, ",")
	k := c.nlTok
	if k < 0 || k+1 >= len(items) {
		return false
	}
	reduced := append(append([]string{}, items[:k]...), items[k+2:]...)
	rep := e.O.Ask("C20", "parsenl", strings.Join(reduced, ","), "-", "-", "-")
	f := strings.Split(rep, "\t")
	return len(f) >= 2 && f[0] == "ok" && f[1] == real
}
