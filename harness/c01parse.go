package main

// C01 — operator precedence and associativity: correspondence between the REAL lexer + parser and
// the Lean Pratt model (lean/RisorModel/C01/Pratt.lean), the theorem about which is `parse_render`
// (PrattProps.lean): parsing the rendering of any expression tree gives the tree back.
//
// For every expression tree (those of the generated programs, plus operator-dense trees built
// here: every pair of binary-like constructs in both nesting shapes, and random deep trees):
//   text    = the tree rendered with minimal parentheses (c01parseRender: harness/gen.go's
//             Expr/sub plus the rule the fixed parser needs — a ternary followed by an operator is
//             parenthesised, because its false branch is parsed at LOWEST);
//   tokens  = the REAL lexer on that text (lexer.New / Next until EOF);
//   real    = the REAL parser on that text, its ast converted back to a tree;
//   oracle  = Lean `parseExpr` on the REAL tokens, and Lean `renderTop` of the tree.
// Checked: real == tree (else the code violates the source-level meaning the proven printer
// defines: e.R.Spec), Lean parse == real (else e.R.Mismatch), Lean render == real tokens (else
// e.R.Mismatch).  Also: texts with newlines at the places the parser skips them, and nested
// ternaries (which both sides must reject).

import (
	"context"
	"fmt"
	"strconv"
	"strings"
	"sync"

	"github.com/risor-io/risor/ast"
	"github.com/risor-io/risor/lexer"
	"github.com/risor-io/risor/parser"
	"github.com/risor-io/risor/token"
)

var c01parseInfixOps = []string{"+", "-", "*", "/", "%", "**", "<<", ">>", "&", "<", "<=", ">", ">=", "==", "!=", "&&", "||"}

var c01parseInfixSet = func() map[string]bool {
	m := map[string]bool{}
	for _, o := range c01parseInfixOps {
		m[o] = true
	}
	return m
}()

// c01parseCore: the tree lies entirely inside the printable core of the Lean model.
func c01parseCore(x *N) bool {
	switch x.K {
	case "int":
		return x.I >= 0 && len(x.C) == 0
	case "bool", "nil", "str":
		return len(x.C) == 0
	case "id":
		return x.S != "" && len(x.C) == 0
	case "infix":
		if !c01parseInfixSet[x.S] || len(x.C) != 2 {
			return false
		}
	case "prefix":
		if (x.S != "-" && x.S != "!") || len(x.C) != 1 {
			return false
		}
	case "tern":
		if len(x.C) != 3 {
			return false
		}
	case "in", "notin", "index":
		if len(x.C) != 2 {
			return false
		}
	case "call":
		if len(x.C) < 1 {
			return false
		}
	case "mcall":
		if len(x.C) < 1 || x.S == "" {
			return false
		}
	case "slice":
		if len(x.C) != 3 {
			return false
		}
		if !c01parseCore(x.C[0]) {
			return false
		}
		for _, b := range x.C[1:] {
			if b.K != "none" && !c01parseCore(b) {
				return false
			}
		}
		return true
	case "list":
	default:
		return false
	}
	for _, c := range x.C {
		if !c01parseCore(c) {
			return false
		}
	}
	return true
}

var c01parseExprKinds = map[string]bool{"int": true, "bool": true, "nil": true, "str": true, "id": true, "infix": true,
	"prefix": true, "tern": true, "in": true, "notin": true, "call": true, "mcall": true, "index": true, "slice": true,
	"list": true, "tmpl": true, "func": true, "if": true, "switch": true, "set": true, "map": true, "pipe": true, "paren": true}

// c01parseExtract: the maximal core expression trees of a program (leaves alone are skipped).
func c01parseExtract(x *N, out *[]*N, skipped *int) {
	if c01parseExprKinds[x.K] {
		if c01parseCore(x) {
			if len(x.C) > 0 {
				*out = append(*out, x)
			}
			return
		}
		*skipped++
	}
	for _, c := range x.C {
		c01parseExtract(c, out, skipped)
	}
}

// ---------------------------------------------------------------- rendering

func c01parseTop(x *N) int {
	switch x.K {
	case "infix":
		return precTable[x.S]
	case "tern":
		return 6
	case "in", "notin", "prefix":
		return 13
	}
	return 100
}

// c01parseRender: x as an operand in a position with parse level q that is followed by a token of
// precedence fl.  Same decisions as gen.go's sub (parenthesise iff the root level is not above
// q), plus: a ternary is parenthesised whenever fl > LOWEST.  nl, when non-nil, decides where
// to insert a newline at the places the parser skips them.
func c01parseRender(x *N, q, fl int, nl func() bool) string {
	br := func() string {
		if nl != nil && nl() {
			return "\n"
		}
		return ""
	}
	top := c01parseTop(x)
	stop := top
	if x.K == "tern" {
		stop = 1
	}
	bare := q < top && fl <= stop
	if top == 100 {
		bare = true
	}
	f := fl
	if !bare {
		f = 1
	}
	var s string
	switch x.K {
	case "int":
		s = strconv.FormatInt(x.I, 10)
	case "bool":
		s = "false"
		if x.I == 1 {
			s = "true"
		}
	case "nil":
		s = "nil"
	case "str":
		s = quote(x.S)
	case "id":
		s = x.S
	case "infix":
		p := precTable[x.S]
		s = c01parseRender(x.C[0], p-1, p, nl) + " " + x.S + " " + br() + c01parseRender(x.C[1], p, f, nl)
	case "prefix":
		s = x.S + c01parseRender(x.C[0], 13, f, nl)
	case "tern":
		s = c01parseRender(x.C[0], 6, 6, nl) + " ? " + c01parseRender(x.C[1], 6, 1, nl) + " : " + c01parseRender(x.C[2], 6, f, nl)
	case "in":
		s = c01parseRender(x.C[0], 13, 13, nl) + " in " + c01parseRender(x.C[1], 13, f, nl)
	case "notin":
		s = c01parseRender(x.C[0], 13, 13, nl) + " not in " + c01parseRender(x.C[1], 13, f, nl)
	case "call":
		s = c01parseRender(x.C[0], 13, 14, nl) + "(" + c01parseList(x.C[1:], nl) + ")"
	case "mcall":
		s = c01parseRender(x.C[0], 14, 15, nl) + "." + x.S + "(" + c01parseList(x.C[1:], nl) + ")"
	case "index":
		s = c01parseRender(x.C[0], 14, 15, nl) + "[" + c01parseRender(x.C[1], 1, 1, nl) + "]"
	case "slice":
		lo, hi := "", ""
		if x.C[1].K != "none" {
			lo = c01parseRender(x.C[1], 1, 1, nl)
		}
		if x.C[2].K != "none" {
			hi = c01parseRender(x.C[2], 1, 1, nl)
		}
		s = c01parseRender(x.C[0], 14, 15, nl) + "[" + lo + ":" + hi + "]"
	case "list":
		s = "[" + c01parseList(x.C, nl) + "]"
	default:
		s = "<?" + x.K + ">"
	}
	if !bare {
		return "(" + s + ")"
	}
	return s
}

func c01parseList(xs []*N, nl func() bool) string {
	var sb strings.Builder
	for i, a := range xs {
		if i > 0 {
			sb.WriteString(", ")
			if nl != nil && nl() {
				sb.WriteString("\n")
			}
		} else if nl != nil && nl() {
			// `[` NEWLINE item: skipped by parseExprList unless the list is then empty
			sb.WriteString("\n")
		}
		sb.WriteString(c01parseRender(a, 1, 1, nl))
	}
	if len(xs) > 0 && nl != nil && nl() {
		sb.WriteString("\n")
	}
	return sb.String()
}

// ---------------------------------------------------------------- the real lexer and parser

// c01parseLex: token types and literals of src up to (excluding) EOF, in the oracle's encoding.
func c01parseLex(src string) (string, int, error) {
	l := lexer.New(src)
	var items []string
	for i := 0; i < 100000; i++ {
		t, err := l.Next()
		if err != nil {
			return "", 0, err
		}
		if t.Type == token.EOF {
			return strings.Join(items, ","), len(items), nil
		}
		items = append(items, Hex(string(t.Type))+":"+Hex(t.Literal))
	}
	return "", 0, fmt.Errorf("lexer does not reach EOF")
}

func c01parseFromAst(nd ast.Node) *N {
	other := func() *N { return &N{K: fmt.Sprintf("other:%T", nd)} }
	if nd == nil {
		return &N{K: "other:nil"}
	}
	switch v := nd.(type) {
	case *ast.Int:
		if v.Value() < 0 {
			return other()
		}
		return &N{K: "int", I: v.Value()}
	case *ast.Bool:
		return nBool(v.Value())
	case *ast.Nil:
		return c01parseN0("nil")
	case *ast.String:
		if v.Template() != nil {
			return other()
		}
		return nStr(v.Value())
	case *ast.Ident:
		return nId(v.String())
	case *ast.Infix:
		return nInfix(v.Operator(), c01parseFromAst(v.Left()), c01parseFromAst(v.Right()))
	case *ast.Prefix:
		return ns("prefix", v.Operator(), c01parseFromAst(v.Right()))
	case *ast.Ternary:
		return n("tern", c01parseFromAst(v.Condition()), c01parseFromAst(v.IfTrue()), c01parseFromAst(v.IfFalse()))
	case *ast.In:
		return n("in", c01parseFromAst(v.Left()), c01parseFromAst(v.Right()))
	case *ast.NotIn:
		return n("notin", c01parseFromAst(v.Left()), c01parseFromAst(v.Right()))
	case *ast.Call:
		out := n("call", c01parseFromAst(v.Function()))
		for _, a := range v.Arguments() {
			out.C = append(out.C, c01parseFromAst(a))
		}
		return out
	case *ast.ObjectCall:
		call, ok := v.Call().(*ast.Call)
		if !ok {
			return other()
		}
		name, ok := call.Function().(*ast.Ident)
		if !ok {
			return other()
		}
		out := ns("mcall", name.String(), c01parseFromAst(v.Object()))
		for _, a := range call.Arguments() {
			out.C = append(out.C, c01parseFromAst(a))
		}
		return out
	case *ast.Index:
		return n("index", c01parseFromAst(v.Left()), c01parseFromAst(v.Index()))
	case *ast.Slice:
		lo, hi := c01parseN0("none"), c01parseN0("none")
		if v.FromIndex() != nil {
			lo = c01parseFromAst(v.FromIndex())
		}
		if v.ToIndex() != nil {
			hi = c01parseFromAst(v.ToIndex())
		}
		return n("slice", c01parseFromAst(v.Left()), lo, hi)
	case *ast.List:
		out := c01parseN0("list")
		for _, a := range v.Items() {
			out.C = append(out.C, c01parseFromAst(a))
		}
		return out
	}
	return other()
}

func c01parseN0(k string) *N { return &N{K: k} }

// c01parseReal: the real parser's tree for src as S-expression, or "fail:<message>".
func c01parseReal(src string) (res string) {
	defer func() {
		if r := recover(); r != nil {
			res = fmt.Sprintf("fail:PANIC %v", r)
		}
	}()
	prog, err := parser.Parse(context.Background(), src)
	if err != nil {
		msg := err.Error()
		if i := strings.IndexByte(msg, '\n'); i >= 0 {
			msg = msg[:i]
		}
		return "fail:" + msg
	}
	st := prog.Statements()
	if len(st) != 1 {
		return fmt.Sprintf("fail:%d statements", len(st))
	}
	return Sexp(c01parseFromAst(st[0]))
}

// ---------------------------------------------------------------- generation of expression trees

type c01parseGen struct {
	r *RNG
}

var c01parseNames = []string{"a", "b", "c", "x", "y", "f", "g", "xs", "n1"}

func (g *c01parseGen) leaf() *N {
	switch g.r.Intn(10) {
	case 0:
		return nBool(g.r.Bool())
	case 1:
		return c01parseN0("nil")
	case 2:
		return nStr(Pick(g.r, words))
	case 3, 4:
		return &N{K: "int", I: int64(g.r.Intn(100))}
	}
	return nId(Pick(g.r, c01parseNames))
}

// binary-like constructs: 17 infix operators, in, notin; unary-like: prefix -, !;
// postfix-like: call, mcall, index, slice; others: tern, list.
var c01parseBinary = append(append([]string{}, c01parseInfixOps...), "in", "notin")

func c01parseMkBinary(kind string, l, r *N) *N {
	switch kind {
	case "in", "notin":
		return n(kind, l, r)
	}
	return nInfix(kind, l, r)
}

// expr: a random tree of depth <= d; noTern forbids ternaries (inside a ternary's branches).
func (g *c01parseGen) expr(d int, noTern bool) *N {
	if d <= 0 || g.r.Chance(8) {
		return g.leaf()
	}
	switch k := g.r.Intn(100); {
	case k < 52:
		return c01parseMkBinary(Pick(g.r, c01parseBinary), g.expr(d-1, noTern), g.expr(d-1, noTern))
	case k < 62:
		return ns("prefix", Pick(g.r, []string{"-", "!"}), g.expr(d-1, noTern))
	case k < 72:
		if noTern {
			return c01parseMkBinary(Pick(g.r, c01parseBinary), g.expr(d-1, true), g.expr(d-1, true))
		}
		return n("tern", g.expr(d-1, false), g.expr(d-1, true), g.expr(d-1, true))
	case k < 79:
		args := make([]*N, g.r.Intn(4))
		for i := range args {
			args[i] = g.expr(d-1, noTern)
		}
		return nCall(g.expr(d-1, noTern), args...)
	case k < 83:
		args := []*N{g.expr(d-1, noTern)}
		if args[0].K == "int" {
			// `98.m()` does not lex (the lexer reads a malformed decimal): a lexical matter outside
			// the token-level model, so the receiver is never an integer literal
			args[0] = nId(Pick(g.r, c01parseNames))
		}
		for i := g.r.Intn(3); i > 0; i-- {
			args = append(args, g.expr(d-1, noTern))
		}
		return ns("mcall", Pick(g.r, []string{"m", "append", "k9"}), args...)
	case k < 89:
		return n("index", g.expr(d-1, noTern), g.expr(d-1, noTern))
	case k < 94:
		lo, hi := c01parseN0("none"), c01parseN0("none")
		if g.r.Bool() {
			lo = g.expr(d-1, noTern)
		}
		if g.r.Bool() {
			hi = g.expr(d-1, noTern)
		}
		return n("slice", g.expr(d-1, noTern), lo, hi)
	default:
		items := make([]*N, g.r.Intn(4))
		for i := range items {
			items[i] = g.expr(d-1, noTern)
		}
		return n("list", items...)
	}
}

// c01parseConstructs: every construct as a function of operands, for the systematic pair sweep
// (operand positions: 0 = left / condition / callee / object, last = right / false branch).
var c01parseConstructs = func() map[string]func(l, r *N) *N {
	m := map[string]func(l, r *N) *N{}
	for _, o := range c01parseBinary {
		o := o
		m[o] = func(l, r *N) *N { return c01parseMkBinary(o, l, r) }
	}
	m["prefix-"] = func(l, r *N) *N { return ns("prefix", "-", r) }
	m["prefix!"] = func(l, r *N) *N { return ns("prefix", "!", r) }
	m["tern"] = func(l, r *N) *N { return n("tern", l, nId("t"), r) }
	m["tern-mid"] = func(l, r *N) *N { return n("tern", nId("c"), l, nId("e")) }
	m["call"] = func(l, r *N) *N { return nCall(l, r) }
	m["mcall"] = func(l, r *N) *N { return ns("mcall", "m", l, r) }
	m["index"] = func(l, r *N) *N { return n("index", l, r) }
	m["slice"] = func(l, r *N) *N { return n("slice", l, r, c01parseN0("none")) }
	m["list"] = func(l, r *N) *N { return n("list", l, r) }
	return m
}()

func c01parseHasTern(x *N) bool {
	found := false
	Walk(x, func(y *N, _ []*N) {
		if y.K == "tern" {
			found = true
		}
	}, nil)
	return found
}

// c01parseUnnested: the branches of every ternary contain no ternary.
func c01parseUnnested(x *N) bool {
	ok := true
	Walk(x, func(y *N, _ []*N) {
		if y.K == "tern" && (c01parseHasTern(y.C[1]) || c01parseHasTern(y.C[2])) {
			ok = false
		}
	}, nil)
	return ok
}

func c01parseOpName(x *N) string {
	switch x.K {
	case "infix":
		return x.S
	case "prefix":
		return "prefix" + x.S
	case "int", "bool", "nil", "str", "id", "none":
		return ""
	}
	return x.K
}

// ---------------------------------------------------------------- the check

type c01parseCase struct {
	tree   *N     // nil for parse-only cases
	src    string // the text given to the real lexer and parser
	origin string
	expect string // "tree" (round trip), "same-as-model" (layout variants: real == tree too), "reject"
}

type c01parseStateT struct {
	once sync.Once
	rng  *RNG
	seen map[string]bool
	sys  []c01parseCase // systematic cases, emitted on the first calls
}

var c01parseState c01parseStateT

func c01parseInit(e *Env) {
	st := &c01parseState
	st.rng = e.Rng.Fork()
	st.seen = map[string]bool{}
	e.R.Rule += "; PARSER (c01parse.go): every core expression tree of the generated programs plus own trees — all pairs of " +
		"binary-like/unary/postfix/ternary constructs in both nesting shapes, random operator-dense trees of depth <= 7, " +
		"newline-layout variants, nested ternaries (must be rejected) — rendered with minimal parentheses, lexed by the real lexer, " +
		"parsed by the real parser and by Lean parseExpr on the real tokens; distinct by tree + text"
	names := sortedKeys(c01parseConstructs)
	leaf := func(s string) *N { return nId(s) }
	for _, outer := range names {
		for _, inner := range names {
			in1 := c01parseConstructs[inner](leaf("a"), leaf("b"))
			in2 := c01parseConstructs[inner](leaf("b"), leaf("c"))
			// inner construct as left operand and as right operand of the outer one
			for _, t := range []*N{c01parseConstructs[outer](in1, leaf("c")), c01parseConstructs[outer](leaf("a"), in2)} {
				if !c01parseCore(t) {
					continue
				}
				if c01parseUnnested(t) {
					st.sys = append(st.sys, c01parseCase{tree: t, src: c01parseRender(t, 1, 1, nil), origin: "pairs", expect: "tree"})
				} else {
					st.sys = append(st.sys, c01parseCase{tree: nil, src: c01parseRender(t, 1, 1, nil), origin: "nested-ternary", expect: "reject"})
				}
			}
		}
	}
}

// c01ParseCheck is called once per generated program.
func c01ParseCheck(e *Env, p *N, src string) {
	st := &c01parseState
	st.once.Do(func() { c01parseInit(e) })
	var cases []c01parseCase

	// 1. the program's own expression trees
	var trees []*N
	skipped := 0
	c01parseExtract(p, &trees, &skipped)
	if skipped > 0 {
		e.R.H("parser_program_exprs", "non-core (not checked here)")
	}
	for _, t := range trees {
		text := c01parseRender(t, 1, 1, nil)
		if g := Expr(t); g != text {
			// the program generator never builds a ternary followed by an operator
			e.R.H("parser_program_exprs", "text differs from gen.go Expr")
			e.R.Note("c01parse: gen.go renders %q, the minimal-parentheses printer %q", g, text)
		}
		cases = append(cases, c01parseCase{tree: t, src: text, origin: "program", expect: "tree"})
	}

	// 2. own trees: a slice of the systematic sweep, then random ones
	for i := 0; i < 4 && len(st.sys) > 0; i++ {
		cases = append(cases, st.sys[0])
		st.sys = st.sys[1:]
	}
	g := &c01parseGen{r: st.rng.Fork()}
	nRandom := 2
	if !e.Quick {
		nRandom = 3
	}
	for i := 0; i < nRandom; i++ {
		t := g.expr(2+g.r.Intn(6), false)
		if len(t.C) == 0 {
			continue
		}
		cases = append(cases, c01parseCase{tree: t, src: c01parseRender(t, 1, 1, nil), origin: "random", expect: "tree"})
		switch g.r.Intn(6) {
		case 0: // the same tree with newlines where the parser skips them
			text := c01parseRender(t, 1, 1, func() bool { return g.r.Chance(35) })
			if strings.Contains(text, "\n") {
				cases = append(cases, c01parseCase{tree: t, src: text, origin: "newlines", expect: "layout"})
			}
		case 1: // a ternary nested in a branch of another: rejected by the language
			bad := n("tern", g.expr(1, true), c01parseMkBinary(Pick(g.r, c01parseBinary), g.expr(1, true), n("tern", nId("p"), g.expr(1, true), nId("q"))), g.expr(1, true))
			if g.r.Bool() {
				bad = nCall(nId("f"), bad, t)
			}
			cases = append(cases, c01parseCase{tree: nil, src: c01parseRender(bad, 1, 1, nil), origin: "nested-ternary", expect: "reject"})
		}
	}

	// 3. ask the oracle (batched) and compare
	type pending struct {
		c    c01parseCase
		real string
		nTok int
		sexp string
	}
	var pend []pending
	var reqs []string
	var bridgeSrcs, bridgeToks []string // the lexer model + adapter of C20/Bridge.lean on the same texts
	for _, c := range cases {
		key := c.src // the same text is the same case whatever its origin
		if st.seen[key] {
			e.R.H("parser_cases", "duplicate text (skipped)")
			continue
		}
		st.seen[key] = true
		toks, nTok, err := c01parseLex(c.src)
		if err != nil {
			e.R.Mismatch(c.src, "lexer error: "+err.Error(), "-", "real lexer rejects the rendering of an expression tree")
			continue
		}
		treeField := "-"
		sexp := ""
		if c.tree != nil && c.expect == "tree" {
			sexp = Sexp(c.tree)
			treeField = sexp
		} else if c.tree != nil {
			sexp = Sexp(c.tree)
		}
		pend = append(pend, pending{c: c, real: c01parseReal(c.src), nTok: nTok, sexp: sexp})
		reqs = append(reqs, "C01\tpratt\tcheck\t"+cleanField(toks)+"\t"+treeField)
		bridgeSrcs = append(bridgeSrcs, c.src)
		bridgeToks = append(bridgeToks, toks)
	}
	if len(reqs) == 0 {
		return
	}
	reps := e.O.AskBatch(reqs)
	// the tokens the Pratt model is run on are the conversion of the REAL lexer's tokens; the adapter
	// `toToken` of C20/Bridge.lean (theorem parse_lex_renderSrc) must be that same conversion
	c20bridgeAdapter(e, bridgeSrcs, bridgeToks, "parser stream")
	for i, pd := range pend {
		c := pd.c
		f := strings.Split(reps[i], "\t")
		e.R.H("parser_cases", c.origin)
		if f[0] != "ok" || len(f) < 4 {
			e.R.H("parser_model", "unsupported/"+f[0])
			e.R.Mismatch(c.src, pd.real, reps[i], "Pratt oracle cannot handle the real token list of a core expression")
			continue
		}
		leanParsed, rt, rend := f[1], f[2], f[3]
		realFail := strings.HasPrefix(pd.real, "fail:")
		leanFail := leanParsed == "none" || leanParsed == "leftover"
		nontrivial := false
		if c.tree != nil {
			ops := 0
			Walk(c.tree, func(y *N, path []*N) {
				if on := c01parseOpName(y); on != "" {
					ops++
					if len(path) > 0 {
						if pn := c01parseOpName(path[len(path)-1]); pn != "" && c.origin != "program" {
							side := "R"
							if path[len(path)-1].C[0] == y {
								side = "L"
							}
							e.R.H("parser_operator_pairs", pn+" over "+on+" ("+side+")")
						}
					}
					e.R.H("parser_constructs", on)
				}
			}, nil)
			nontrivial = ops >= 2
		}
		e.R.Case("expr:"+c.src, nontrivial)
		e.R.H("parser_tokens", fmt.Sprintf("%02d-%02d", pd.nTok/10*10, pd.nTok/10*10+9))

		// (a) the Lean parser model against the real parser, on the real tokens
		switch {
		case realFail && leanFail:
			e.R.H("parser_model", "both reject")
		case realFail != leanFail || (!realFail && leanParsed != pd.real):
			e.R.H("parser_model", "differs")
			e.R.Mismatch(c.src, pd.real, leanParsed, "parser.Parse vs Pratt.parseExpr on the real lexer's tokens")
		default:
			e.R.H("parser_model", "same tree")
		}
		switch c.expect {
		case "reject":
			if !realFail {
				e.R.Spec(c.src, "a ternary nested in a branch of another is accepted by the real parser: "+pd.real, "")
			}
			continue
		}
		// (b) the real parser against the tree: parse (render e) = e
		if pd.real != pd.sexp {
			e.R.H("parser_roundtrip", "real parser returns another tree")
			small, text, real := c.tree, c.src, pd.real
			if c.expect == "tree" {
				small = c01parseShrink(c.tree)
				text = c01parseRender(small, 1, 1, nil)
				real = c01parseReal(text)
			}
			e.R.Spec(text, "precedence/associativity: the real parser reads this as "+c01parseShow(real)+" but the tree it renders is "+c01parseShow(Sexp(small))+
				" (the text is the tree's minimal-parentheses rendering for the precedence table of the Lean model; parse_render proves the model parser returns the tree)", "")
		} else {
			e.R.H("parser_roundtrip", "real parser returns the tree")
		}
		if c.expect != "tree" {
			continue
		}
		if c.origin != "program" {
			// harness/gen.go's Expr differs from the minimal-parentheses printer exactly on a ternary
			// that is followed by an operator (gen.go leaves it bare; the program generator never
			// builds one): record what the real parser makes of gen.go's text
			if g := Expr(c.tree); g == c.src {
				e.R.H("parser_gen_go_Expr", "same text")
			} else if c01parseReal(g) == pd.sexp {
				e.R.H("parser_gen_go_Expr", "other text, same tree")
			} else {
				e.R.H("parser_gen_go_Expr", "other text, parses to ANOTHER tree (ternary followed by an operator)")
			}
		}
		// (c) Lean's own verdicts: parseExpr returned the tree; renderTop tree == real tokens
		if rt != "1" && pd.real == pd.sexp && leanParsed == pd.real {
			e.R.Mismatch(c.src, pd.sexp, leanParsed, "oracle says parseExpr did not return the tree although the canonical texts agree")
		}
		if rend != "same" {
			e.R.H("parser_render", "differs")
			e.R.Mismatch(c.src, "tokens of the harness text", UnHex(rend), "real lexer's tokens vs Pratt.renderTop of the tree (types and literals)")
		} else {
			e.R.H("parser_render", "same tokens")
		}
	}
}

// c01parseShrink: greedily replaces the tree by a sub-expression, or an operand by a leaf, while the
// real parser still returns another tree for the rendering.
func c01parseShrink(t *N) *N {
	fails := func(x *N) bool {
		return c01parseCore(x) && len(x.C) > 0 && c01parseReal(c01parseRender(x, 1, 1, nil)) != Sexp(x)
	}
	cur := cloneN(t)
	for changed := true; changed; {
		changed = false
		// a proper sub-expression that still fails
		var sub *N
		Walk(cur, func(y *N, path []*N) {
			if sub == nil && len(path) > 0 && y.K != "none" && fails(y) {
				sub = y
			}
		}, nil)
		if sub != nil {
			cur, changed = cloneN(sub), true
			continue
		}
		// one operand replaced by a leaf
		var nodes []*N
		Walk(cur, func(y *N, _ []*N) { nodes = append(nodes, y) }, nil)
	outer:
		for _, y := range nodes {
			for i, c := range y.C {
				if len(c.C) == 0 {
					continue
				}
				y.C[i] = nId("z")
				if fails(cur) {
					changed = true
					break outer
				}
				y.C[i] = c
			}
		}
	}
	return cur
}

// c01parseShow: an S-expression with the hex fields decoded, for messages.
func c01parseShow(s string) string {
	f := strings.Fields(strings.NewReplacer("(", " ( ", ")", " ) ").Replace(s))
	for i, w := range f {
		if strings.HasPrefix(w, "s:") {
			f[i] = strconv.Quote(UnHex(w[2:]))
		}
	}
	out := strings.Join(f, " ")
	out = strings.ReplaceAll(out, "( ", "(")
	out = strings.ReplaceAll(out, " )", ")")
	return out
}
