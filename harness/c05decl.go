package main

// C05 stream L: declarations that introduce several names at once.
//
// Generated programs are sequences of declaring statements — multi-name from-imports (plain,
// aliased, parenthesised, repeated names, names that exist already; modules math/strings so no
// files are needed), destructuring assignments, single declarations and functions with 0-4
// parameters (with defaults) whose bodies again contain declaring statements.  Each program is
// compiled by the real compiler `reps` (>= 32) times in-process; the instructions, constants,
// names and local symbols of every code object, GlobalNames() and the MarshalCode bytes of all
// compilations must be identical, and the symbol table of every scope (global slots; local slots
// of each function) must be the one the Lean model `declProgram declStmt` computes from the source
// order (asked under a different adversary annotation in every request: the model's answer must
// not depend on it — `slot_assignment_perm_invariant`).

import (
	"crypto/sha256"
	"encoding/hex"
	"fmt"
	"strconv"
	"strings"

	"github.com/risor-io/risor"
	"github.com/risor-io/risor/compiler"
)

type c05_declStmt struct {
	src   string
	pairs []string // name:alias in source order
	imp   bool
}

type c05_declFunc struct {
	name   string
	params []string
	body   []c05_declStmt
}

var c05_modAttrs = map[string][]string{
	"math":    {"abs", "sqrt", "min", "max", "pow", "floor", "ceil", "round", "sum", "log"},
	"strings": {"contains", "fields", "index", "join", "split", "trim_space", "to_upper", "repeat", "count", "compare"},
}

type c05_declGen struct {
	r     *RNG
	fresh int
}

func (g *c05_declGen) name(prefix string) string {
	g.fresh++
	return fmt.Sprintf("%s%d", prefix, g.fresh)
}

// fromImport: 1-5 names of one module; some aliased; sometimes a name repeated or one that the
// scope has already (declared: names visible in this scope so far)
func (g *c05_declGen) fromImport(declared []string) c05_declStmt {
	r := g.r
	mod := Pick(r, []string{"math", "strings"})
	attrs := c05_modAttrs[mod]
	k := 1 + r.Intn(5)
	if r.Chance(70) && k < 2 {
		k = 2 + r.Intn(3)
	}
	start := r.Intn(len(attrs))
	step := 1 + 2*r.Intn(2) // 1 or 3: coprime with 10
	var items, pairs []string
	var names, aliases []string
	for j := 0; j < k; j++ {
		n := attrs[(start+j*step)%len(attrs)]
		if j > 0 && r.Chance(8) {
			n = names[r.Intn(len(names))] // the same name twice
		}
		a := n
		switch {
		case r.Chance(25):
			a = g.name("al")
		case r.Chance(8) && len(declared) > 0:
			a = declared[r.Intn(len(declared))] // a name of the scope: keeps its slot
		case r.Chance(6) && len(aliases) > 0:
			a = aliases[r.Intn(len(aliases))] // two imports stored under one alias
		}
		names = append(names, n)
		aliases = append(aliases, a)
		if a == n {
			items = append(items, n)
		} else {
			items = append(items, n+" as "+a)
		}
		pairs = append(pairs, n+":"+a)
	}
	list := strings.Join(items, ", ")
	if r.Chance(35) {
		if r.Bool() {
			list = "(" + list + ")"
		} else {
			list = "(\n  " + strings.Join(items, ",\n  ") + ",\n)"
		}
	}
	return c05_declStmt{"from " + mod + " import " + list, pairs, true}
}

func (g *c05_declGen) stmt(declared []string) c05_declStmt {
	r := g.r
	switch r.Intn(10) {
	case 0, 1, 2, 3, 4, 5:
		return g.fromImport(declared)
	case 6, 7:
		k := 2 + r.Intn(3)
		var ns, vs, pairs []string
		for j := 0; j < k; j++ {
			n := g.name("d")
			ns = append(ns, n)
			vs = append(vs, strconv.Itoa(r.Intn(9)))
			// compileMultiVar declares (and stores) the names from the last to the first: that
			// is the order of the declaration list the model is given
			pairs = append([]string{n + ":" + n}, pairs...)
		}
		return c05_declStmt{strings.Join(ns, ", ") + " := [" + strings.Join(vs, ", ") + "]", pairs, false}
	default:
		n := g.name("v")
		return c05_declStmt{n + " := " + strconv.Itoa(r.Intn(9)), []string{n + ":" + n}, false}
	}
}

func c05_pairAliases(ps []string, into []string) []string {
	for _, p := range ps {
		into = append(into, p[strings.Index(p, ":")+1:])
	}
	return into
}

type c05_declObs struct {
	err     string
	text    string   // everything compared across compilations
	globals []string // GlobalNames()
	locals  map[string][]string
	stores  string // operands of the root code's StoreGlobal instructions
}

func c05_observeDecl(src string) (o c05_declObs) {
	code, err := CompileSrc(src)
	if err != nil {
		o.err = err.Error()
		o.text = "ERR:" + o.err
		return
	}
	o.locals = map[string][]string{}
	var sb strings.Builder
	for _, cc := range code.Flatten() {
		var names, locals []string
		for i := 0; i < cc.NameCount(); i++ {
			names = append(names, cc.Name(i))
		}
		if !cc.IsRoot() {
			for i := 0; i < cc.LocalsCount(); i++ {
				locals = append(locals, cc.Local(i).Name())
			}
			o.locals[cc.CodeName()] = locals
		}
		fmt.Fprintf(&sb, "code %q: %s | consts %s | names %s | locals %s\n", cc.CodeName(), CodeText(cc), c05_constsText(cc),
			strings.Join(names, ","), strings.Join(locals, ","))
	}
	o.globals = code.GlobalNames()
	fmt.Fprintf(&sb, "globals %s\n", strings.Join(o.globals, ","))
	var st []string
	for _, f := range strings.Fields(CodeText(code)) {
		if strings.HasPrefix(f, "STORE_GLOBAL:") {
			st = append(st, f[len("STORE_GLOBAL:"):])
		}
	}
	o.stores = strings.Join(st, ".")
	b, err := compiler.MarshalCode(code)
	if err != nil {
		fmt.Fprintf(&sb, "marshal error %s\n", err)
	} else {
		h := sha256.Sum256(b)
		fmt.Fprintf(&sb, "marshalled %d bytes %s\n", len(b), hex.EncodeToString(h[:8]))
	}
	o.text = sb.String()
	return
}

func c05DeclSlots(e *Env, n, reps int) {
	rng := e.Rng.Fork()
	tab0 := risor.NewConfig().GlobalNames()
	type prog struct {
		src   string
		top   []c05_declStmt
		funcs []c05_declFunc
		multi int
	}
	gen := func(r *RNG) prog {
		g := &c05_declGen{r: r}
		var p prog
		var lines []string
		var declared []string
		nst := 1 + r.Intn(5)
		for i := 0; i < nst; i++ {
			if r.Chance(30) {
				// a function: parameters (some with defaults), then declaring statements
				f := c05_declFunc{name: g.name("fn")}
				var ps []string
				for j, k := 0, r.Intn(5); j < k; j++ {
					pn := g.name("p")
					f.params = append(f.params, pn)
					if j >= 2 && r.Bool() || len(ps) > 0 && strings.Contains(ps[len(ps)-1], "=") {
						ps = append(ps, pn+"="+strconv.Itoa(j))
					} else {
						ps = append(ps, pn)
					}
				}
				local := append([]string{}, f.params...)
				var body []string
				for j, k := 0, 1+r.Intn(3); j < k; j++ {
					s := g.stmt(local)
					if s.imp && len(s.pairs) >= 2 {
						p.multi++
					}
					f.body = append(f.body, s)
					local = c05_pairAliases(s.pairs, local)
					body = append(body, "  "+strings.ReplaceAll(s.src, "\n", "\n  "))
				}
				lines = append(lines, "func "+f.name+"("+strings.Join(ps, ", ")+") {\n"+strings.Join(body, "\n")+"\n  return "+strconv.Itoa(len(local))+"\n}")
				p.funcs = append(p.funcs, f)
				p.top = append(p.top, c05_declStmt{"", []string{f.name + ":" + f.name}, false})
				declared = append(declared, f.name)
				continue
			}
			s := g.stmt(declared)
			if s.imp && len(s.pairs) >= 2 {
				p.multi++
			}
			p.top = append(p.top, s)
			declared = c05_pairAliases(s.pairs, declared)
			lines = append(lines, s.src)
		}
		p.src = strings.Join(lines, "\n") + "\n"
		return p
	}
	var progs []prog
	for i := 0; i < n; i++ {
		progs = append(progs, gen(rng.Fork()))
	}
	// directed programs (always present)
	for _, d := range []prog{
		{src: "from math import abs, sqrt, min\n", top: []c05_declStmt{{"", []string{"abs:abs", "sqrt:sqrt", "min:min"}, true}}, multi: 1},
		{src: "from strings import (join as j, split, fields as f, count)\n", top: []c05_declStmt{{"", []string{"join:j", "split:split", "fields:f", "count:count"}, true}}, multi: 1},
		{src: "func load() {\n  from math import pow, floor as fl, ceil\n  return pow\n}\n", top: []c05_declStmt{{"", []string{"load:load"}, false}},
			funcs: []c05_declFunc{{"load", nil, []c05_declStmt{{"", []string{"pow:pow", "floor:fl", "ceil:ceil"}, true}}}}, multi: 1},
	} {
		progs = append(progs, d)
	}
	stmtField := func(ss []c05_declStmt) string {
		var parts []string
		for _, s := range ss {
			parts = append(parts, strings.Join(s.pairs, ","))
		}
		if len(parts) == 0 {
			return "-"
		}
		return strings.Join(parts, ";")
	}
	permsField := func(r *RNG, ss []c05_declStmt) string {
		var parts []string
		for _, s := range ss {
			parts = append(parts, c05_permField(c05_randPerm(r, len(s.pairs))))
		}
		if len(parts) == 0 {
			return "-"
		}
		return strings.Join(parts, "/")
	}
	for _, p := range progs {
		e.R.Case("decl-slots: "+p.src, p.multi > 0)
		e.R.H("decl_multi_name_from_imports", strconv.Itoa(min(p.multi, 4)))
		e.R.H("decl_functions", strconv.Itoa(len(p.funcs)))
		first := c05_observeDecl(p.src)
		if first.err != "" {
			msg := first.err
			if i := strings.Index(msg, "(line"); i > 0 {
				msg = msg[:i]
			}
			e.R.H("decl_compile_errors", msg[:min(60, len(msg))])
		} else {
			e.R.H("decl_compile_errors", "none")
		}
		// repetition: every compilation gives the same code, tables and serialised bytes
		varied := false
		for k := 1; k < reps && !varied; k++ {
			o := c05_observeDecl(p.src)
			if o.text != first.text {
				varied = true
				e.R.H("decl_variation", "varies")
				e.R.Spec(p.src, fmt.Sprintf("compiled %d times: compilation %d differs from the first in %s\nfirst:\n%s\nother:\n%s",
					reps, k+1, c05_firstDiffLine(first.text, o.text), first.text, o.text), "")
			}
		}
		if !varied {
			e.R.H("decl_variation", "none")
		}
		if first.err != "" {
			continue
		}
		// correspondence: the global table and the local table of every function are the model's
		// the declaration list as the compiler walks it: the names of the top-level functions
		// first (collectFunctionDeclarations, in source order), then statement by statement
		pr := rng.Fork()
		top := p.top
		if len(p.funcs) > 0 {
			var hoisted []string
			for _, f := range p.funcs {
				hoisted = append(hoisted, f.name+":"+f.name)
			}
			top = append([]c05_declStmt{{"", hoisted, false}}, p.top...)
		}
		want := e.O.Ask("C05", "declSlots", "impl", permsField(pr, top), strings.Join(tab0, ","), stmtField(top))
		wf := strings.Split(want, "\t")
		if got := strings.Join(first.globals, ","); wf[0] != got {
			e.R.Mismatch(p.src, "GlobalNames() = "+c05_tail(got, len(tab0)), "declProgram: "+c05_tail(wf[0], len(tab0)), "global slots against the model (source order)")
		}
		onlyImports := len(p.funcs) == 0
		for _, s := range p.top {
			onlyImports = onlyImports && s.imp
		}
		if onlyImports && len(wf) > 1 {
			if ops := strings.ReplaceAll(wf[1], "/", "."); ops != first.stores {
				e.R.Mismatch(p.src, "StoreGlobal operands "+first.stores, "declProgram: "+ops, "store operands of from-imports against the model")
			}
		}
		for _, f := range p.funcs {
			// the parameters, then the function's own name, then the body: a block scope of its
			// own (compileFunctionBlock), whose names get the next slots of the function
			ss := f.body
			w := strings.Split(e.O.Ask("C05", "declSlots", "impl", permsField(pr, ss), "-", stmtField(ss)), "\t")[0]
			head := strings.Join(append(append([]string{}, f.params...), f.name), ",")
			if w == "-" {
				w = head
			} else {
				w = head + "," + w
			}
			got := strings.Join(first.locals[f.name], ",")
			if got == "" {
				got = "-"
			}
			if w != got {
				e.R.Mismatch(p.src, "locals of "+f.name+" = "+got, "declProgram: "+w, "local slots against the model (source order)")
			}
		}
	}
}

func c05_tail(list string, skip int) string {
	parts := strings.Split(list, ",")
	if len(parts) > skip {
		return fmt.Sprintf("[%d default globals],%s", skip, strings.Join(parts[skip:], ","))
	}
	return list
}

func c05_firstDiffLine(a, b string) string {
	la, lb := strings.Split(a, "\n"), strings.Split(b, "\n")
	for i := 0; i < len(la) && i < len(lb); i++ {
		if la[i] != lb[i] {
			return fmt.Sprintf("line %d: %q vs %q", i+1, la[i], lb[i])
		}
	}
	return "length"
}
