package main

// C02, third stream — activations that end by an ERROR after creating closures, and owners that
// keep running after a callee captured one of their variables.
//
// A case is a program of 1-3 "maker" functions `mk(a, z)` in the closure language of c02.go
// (so the Lean model evaluates it: Impl = positional, Spec = lexical).  A maker owns 1-3 int
// variables (optionally more than 8 local slots), and runs a generated sequence of operations:
//
//   mk1     c := func(q) { <write x>; return x + q }                      (capture of an own variable)
//   mk2     c := func(p) { return func(q) { <write x>; return x + p } }(k)  and variants (three and
//           four function levels, through list.map, with a middle function that has captured
//           variables of its own / writes x itself): the capturing literal is executed in a
//           NESTED call while the owner is suspended; its lexical ancestors are the topmost
//           frames, so positional = lexical (no witness of C02-positional-capture is generated)
//   write   x = x + k | x += k | x++ | x-- | x, y = [y, x]                 (the OWNER, after a capture)
//   read    acc = acc + acc + x                                           (the OWNER sees closure writes)
//   call    acc = acc + acc + c(k)                                        (the closure sees owner writes)
//   keep    keep = c                                                      (the closure escapes to a global)
//   fail    switch z { case <code>: error("boom") | boom(1) | boomc(1) | [..].each(failing callback) | … }
//   nested  acc = acc + acc + mkJ(x, z)[0]  /  … + try(func() { return mkJ(x, <code>)[0] }, -1)
//
// and returns `[acc, x…, c…]`.  The top level is a sequence of ATTEMPTS — `try(func() { return
// mk(a, z) }, -1)`, through wrapper functions of 1-2 more frames, through an `att(a, z)` function
// that contains the try, plain calls, or vm.Call from Go where a failed call is recorded as -1
// and the host goes on using the VM — in which failing and succeeding attempts alternate at the
// same and at different frame depths, and of USES of the closures that successful attempts
// returned (and of the global `keep`, which may hold a closure of an aborted activation).

import (
	"fmt"
	"strconv"
	"time"
)

type c02ScnMaker struct {
	name  string
	xs    []string
	nclo  int
	codes []int64 // the values of z that make it fail (own fail points and those of untried nested makers)
	wide  bool
	slots int // local slots of the maker (parameters, self, locals)
}

type c02Scn struct {
	r      *RNG
	ctr    int
	makers []*c02ScnMaker
	h      map[string]int // statistics of the case
}

func (s *c02Scn) fresh(p string) string {
	s.ctr++
	return fmt.Sprintf("%s%d", p, s.ctr)
}

func (s *c02Scn) lit() *c02_ct { return c02_cI(int64(1 + s.r.Intn(5))) }

// acc = ((acc + acc) + e)
func c02ScnAcc(e *c02_ct) *c02_ct {
	return c02_cA("acc", c02_cAdd(c02_cAdd(c02_cV("acc"), c02_cV("acc")), e))
}

// one write to x in a generated form (inside a closure: `q` is its parameter; in the owner: a literal)
func (s *c02Scn) write(x string, xs []string, operand *c02_ct) *c02_ct {
	switch v := s.r.Intn(100); {
	case v < 30:
		return c02_cOp("+=", x, operand)
	case v < 50:
		return c02_cA(x, c02_cAdd(c02_cV(x), operand))
	case v < 65:
		return c02_cPost("++", x)
	case v < 75:
		return c02_cPost("--", x)
	case v < 85:
		return c02_cOp("-=", x, operand)
	default:
		if len(xs) >= 2 {
			y := xs[s.r.Intn(len(xs))]
			if y != x {
				return c02_cMA([]string{x, y}, c02_cL(c02_cV(y), c02_cAdd(c02_cV(x), operand)))
			}
		}
		return c02_cA(x, c02_cAdd(c02_cV(x), operand))
	}
}

// the innermost closure `func(q) { <write x>; return x + q [+ extra…] }`
func (s *c02Scn) inner(xs []string, extra ...string) *c02_ct {
	x := xs[s.r.Intn(len(xs))]
	var body []*c02_ct
	if s.r.Chance(75) {
		body = append(body, s.write(x, xs, c02_cV("q")))
		s.h["closure writes a captured variable"]++
	}
	ret := c02_cAdd(c02_cV(x), c02_cV("q"))
	if len(xs) >= 2 && s.r.Chance(40) {
		ret = c02_cAdd(ret, c02_cV(xs[s.r.Intn(len(xs))]))
	}
	for _, e := range extra {
		ret = c02_cAdd(ret, c02_cV(e))
	}
	return c02_cFn("_", []string{"q"}, append(body, c02_cRet(ret))...)
}

// the statements that make one closure of the maker; returns them and the number of local slots they claim
func (s *c02Scn) mkClosure(c string, xs []string) ([]*c02_ct, int) {
	if s.r.Chance(35) {
		s.h["closure made by the owner itself (depth-1 capture)"]++
		return []*c02_ct{c02_cD(c, s.inner(xs))}, 1
	}
	k := s.lit()
	switch v := s.r.Intn(100); {
	case v < 22: // m := func(p) { return func(q) {…} }; c := m(k)
		s.h["closure made in a nested call: f > g > h"]++
		m := s.fresh("m")
		return []*c02_ct{
			c02_cD(m, c02_cFn("_", []string{"p"}, c02_cRet(s.inner(xs, "p")))),
			c02_cD(c, c02_cCall(c02_cV(m), k))}, 2
	case v < 40: // c := func(p) { return func(q) {…} }(k)
		s.h["closure made in a nested call: f > g > h"]++
		return []*c02_ct{c02_cD(c, c02_cCall(c02_cFn("_", []string{"p"}, c02_cRet(s.inner(xs, "p"))), k))}, 1
	case v < 55: // through list.map
		s.h["closure made in a list.map callback: f > g > h"]++
		return []*c02_ct{c02_cD(c, c02_cX(c02_cR("map", c02_cL(k), c02_cFn("_", []string{"p"}, c02_cRet(s.inner(xs, "p")))), 0))}, 1
	case v < 72: // four levels
		s.h["closure made two calls down: f > g > g2 > h"]++
		n := s.fresh("g")
		return []*c02_ct{c02_cD(c, c02_cCall(c02_cFn("_", []string{"p"},
			c02_cD(n, c02_cFn("_", []string{"e"}, c02_cRet(s.inner(xs, "p", "e")))),
			c02_cRet(c02_cCall(c02_cV(n), s.lit()))), k))}, 1
	case v < 86: // the middle function has a captured variable of its own
		s.h["closure made in a nested call: f > g > h, g's own variable captured too"]++
		y := s.fresh("y")
		in := s.inner(xs, "p", y)
		in.C = append([]*c02_ct{c02_cPost("++", y)}, in.C...)
		return []*c02_ct{c02_cD(c, c02_cCall(c02_cFn("_", []string{"p"},
			c02_cD(y, c02_cAdd(c02_cV("p"), s.lit())), c02_cRet(in)), k))}, 1
	default: // the middle function writes the owner's variable itself, after making h
		s.h["closure made in a nested call: f > g > h, g writes the owner's variable"]++
		hn := s.fresh("t")
		x := xs[s.r.Intn(len(xs))]
		return []*c02_ct{c02_cD(c, c02_cCall(c02_cFn("_", []string{"p"},
			c02_cD(hn, s.inner(xs, "p")), s.write(x, xs, c02_cV("p")), c02_cRet(c02_cV(hn))), k))}, 1
	}
}

var c02ScnFailKinds = []string{"error", "error", "nested call", "nested call that made closures", "list.each callback", "list.map callback", "filter callback calling a failing function"}

func (s *c02Scn) failStmt() *c02_ct {
	kind := Pick(s.r, c02ScnFailKinds)
	s.h["error raised by: "+kind]++
	F := &c02_ct{K: "F"}
	switch kind {
	case "error":
		return F
	case "nested call":
		return c02_cCall(c02_cV("boom"), c02_cI(1))
	case "nested call that made closures":
		return c02_cCall(c02_cV("boomc"), c02_cI(1))
	case "list.each callback":
		return c02_cR("each", c02_cL(c02_cI(1), c02_cI(2)), c02_cFn("_", []string{"e"}, F))
	case "list.map callback":
		return c02_cR("map", c02_cL(c02_cI(1)), c02_cFn("_", []string{"e"}, F))
	default:
		return c02_cR("filter", c02_cL(c02_cI(0), c02_cI(3)), c02_cFn("_", []string{"e"}, c02_cRet(c02_cCall(c02_cV("boom"), c02_cV("e")))))
	}
}

func (s *c02Scn) maker(idx int) *c02_ct {
	mk := &c02ScnMaker{name: fmt.Sprintf("mk%d", idx)}
	named := s.r.Bool()
	mk.slots = 2
	if named {
		mk.slots++
	}
	var body []*c02_ct
	if s.r.Chance(22) {
		mk.wide = true
		for i := 0; i < 8; i++ {
			body = append(body, c02_cD(s.fresh("w"), c02_cI(int64(s.r.Intn(10)))))
		}
		mk.slots += 8
	}
	nx := 1
	if s.r.Chance(45) {
		nx = 2 + s.r.Intn(2)
	}
	for i := 0; i < nx; i++ {
		x := s.fresh("x")
		mk.xs = append(mk.xs, x)
		body = append(body, c02_cD(x, c02_cAdd(c02_cV("a"), c02_cI(int64(i)))))
	}
	body = append(body, c02_cD("acc", c02_cI(0)))
	mk.slots += nx + 1
	var clos []string
	nops := 3 + s.r.Intn(6)
	nfail := 0
	captured := false
	var ops [][]*c02_ct
	for i := 0; i < nops; i++ {
		v := s.r.Intn(100)
		switch {
		case (v < 38 || (i == 0 && v < 70)) && len(clos) < 3:
			c := s.fresh("c")
			st, n := s.mkClosure(c, mk.xs)
			mk.slots += n
			clos = append(clos, c)
			captured = true
			ops = append(ops, st)
		case v < 54:
			x := mk.xs[s.r.Intn(len(mk.xs))]
			if captured {
				s.h["owner writes a variable after it was captured"]++
			}
			ops = append(ops, []*c02_ct{s.write(x, mk.xs, s.lit())})
		case v < 63:
			if captured {
				s.h["owner reads a variable after it was captured"]++
			}
			ops = append(ops, []*c02_ct{c02ScnAcc(c02_cV(mk.xs[s.r.Intn(len(mk.xs))]))})
		case v < 80 && len(clos) > 0:
			s.h["owner calls its closure"]++
			ops = append(ops, []*c02_ct{c02ScnAcc(c02_cCall(c02_cV(Pick(s.r, clos)), s.lit()))})
		case v < 84 && len(clos) > 0:
			s.h["closure escapes to a global before the activation ends"]++
			ops = append(ops, []*c02_ct{c02_cA("keep", c02_cV(Pick(s.r, clos)))})
		case v < 93 && nfail < 2:
			nfail++
			code := int64(10*(idx+1) + nfail)
			mk.codes = append(mk.codes, code)
			ops = append(ops, []*c02_ct{c02_cSw(c02_cV("z"), c02_cCase(code, s.failStmt()))})
		case idx > 0:
			j := s.r.Intn(idx)
			other := s.makers[j]
			x := mk.xs[s.r.Intn(len(mk.xs))]
			if s.r.Bool() {
				s.h["maker calls another maker (its failure aborts both)"]++
				mk.codes = append(mk.codes, other.codes...)
				ops = append(ops, []*c02_ct{c02ScnAcc(c02_cX(c02_cCall(c02_cV(other.name), c02_cV(x), c02_cV("z")), 0))})
			} else {
				s.h["maker calls another maker inside try"]++
				z := int64(0)
				if len(other.codes) > 0 && s.r.Chance(70) {
					z = Pick(s.r, other.codes)
				}
				ops = append(ops, []*c02_ct{c02ScnAcc(c02_cR("try",
					c02_cFn("_", nil, c02_cRet(c02_cX(c02_cCall(c02_cV(other.name), c02_cV(x), c02_cI(z)), 0))), c02_cI(-1)))})
				captured = true // the thunk captures x
			}
		}
	}
	if nfail == 0 {
		code := int64(10*(idx+1) + 1)
		mk.codes = append(mk.codes, code)
		st := []*c02_ct{c02_cSw(c02_cV("z"), c02_cCase(code, s.failStmt()))}
		at := len(ops)
		if len(ops) > 0 {
			at = 1 + s.r.Intn(len(ops))
		}
		ops = append(ops[:at], append([][]*c02_ct{st}, ops[at:]...)...)
	}
	for _, st := range ops {
		body = append(body, st...)
	}
	ret := []*c02_ct{c02_cV("acc")}
	for _, x := range mk.xs {
		ret = append(ret, c02_cV(x))
	}
	for _, c := range clos {
		ret = append(ret, c02_cV(c))
	}
	mk.nclo = len(clos)
	body = append(body, c02_cRet(c02_cL(ret...)))
	s.makers = append(s.makers, mk)
	if named {
		return c02_cFn(mk.name, []string{"a", "z"}, body...)
	}
	return c02_cD(mk.name, c02_cFn("_", []string{"a", "z"}, body...))
}

func c02ScnFails(mk *c02ScnMaker, z int64) bool {
	for _, c := range mk.codes {
		if c == z {
			return true
		}
	}
	return false
}

func c02GenScenario(r *RNG) *c02Case {
	s := &c02Scn{r: r, h: map[string]int{}}
	V, I, D := c02_cV, c02_cI, c02_cD
	F := &c02_ct{K: "F"}
	var main []*c02_ct
	obs := []string{"keep"}
	main = append(main,
		D("keep", c02_cFn("_", []string{"q"}, c02_cRet(I(0)))),
		c02_cFn("boom", []string{"e"}, c02_cIf(V("e"), []*c02_ct{F}, nil), c02_cRet(I(0))),
		c02_cFn("boomc", []string{"e"}, D("t", c02_cAdd(V("e"), I(1))), D("u", c02_cFn("_", nil, c02_cPost("++", "t"), c02_cRet(V("t")))),
			c02_cIf(V("e"), []*c02_ct{F}, nil), c02_cRet(c02_cCall(V("u")))))
	nm := 1 + r.Intn(3)
	for i := 0; i < nm; i++ {
		main = append(main, s.maker(i))
	}
	// the routes an attempt can take to a maker
	type target struct {
		name  string
		depth int
		att   bool
	}
	targets := make([][]target, nm)
	for i, mk := range s.makers {
		targets[i] = []target{{mk.name, 0, false}}
		if r.Chance(60) {
			w := fmt.Sprintf("w%d", i)
			main = append(main, c02_cFn(w, []string{"a", "z"}, D(s.fresh("y"), c02_cAdd(V("a"), I(1))), c02_cRet(c02_cCall(V(mk.name), V("a"), V("z")))))
			targets[i] = append(targets[i], target{w, 1, false})
			if r.Chance(50) {
				w2 := fmt.Sprintf("v%d", i)
				main = append(main, D(w2, c02_cFn("_", []string{"a", "z"}, c02_cRet(c02_cCall(V(w), V("a"), V("z"))))))
				targets[i] = append(targets[i], target{w2, 2, false})
			}
		}
		if r.Chance(45) {
			at := fmt.Sprintf("att%d", i)
			main = append(main, c02_cFn(at, []string{"a", "z"}, c02_cRet(c02_cR("try", c02_cFn("_", nil, c02_cRet(c02_cCall(V(mk.name), V("a"), V("z")))), I(-1)))))
			targets[i] = append(targets[i], target{at, 1, true})
		}
	}
	c := &c02Case{gen: &c02Gen{routes: map[string]int{}}, scn: s.h}
	hostMode := r.Chance(25)
	nEv := 4 + r.Intn(7)
	hostFrom := nEv
	if hostMode {
		hostFrom = 1 + r.Intn(3)
		c.hostTry = true
	}
	// a case mostly keeps to one route, so that failed and later attempts meet at the same frame depth
	fixed := r.Chance(65)
	fixedKind := r.Intn(3)
	type okRes struct {
		name string
		mk   *c02ScnMaker
	}
	var oks []okRes
	prevFailed := false
	seq := ""
	for ev := 0; ev < nEv; ev++ {
		host := ev >= hostFrom
		if len(oks) > 0 && r.Chance(38) {
			// use a closure of an earlier successful attempt, or the escaped one
			name := s.fresh("u")
			var call *c02_ct
			if r.Chance(15) {
				call = c02_cCall(V("keep"), s.lit())
				s.h["use: the global keep is called"]++
			} else {
				o := Pick(r, oks)
				if o.mk.nclo == 0 {
					continue
				}
				call = c02_cCall(c02_cX(V(o.name), 1+len(o.mk.xs)+r.Intn(o.mk.nclo)), s.lit())
				s.h["use: a returned closure is called"]++
			}
			if host {
				c.host = append(c.host, D(name, call))
			} else {
				main = append(main, D(name, call))
			}
			obs = append(obs, name)
			seq += "u"
			continue
		}
		i := r.Intn(nm)
		mk := s.makers[i]
		z := int64(0)
		if r.Chance(50) {
			z = Pick(r, mk.codes)
		}
		fails := c02ScnFails(mk, z)
		tg := targets[i][0]
		if !host {
			if fixed {
				tg = targets[i][fixedKind%len(targets[i])]
			} else {
				tg = Pick(r, targets[i])
			}
		} else if !fixed {
			// from Go only plain functions are called
			for tries := 0; tries < 4; tries++ {
				if t := Pick(r, targets[i]); !t.att {
					tg = t
					break
				}
			}
		}
		name := s.fresh("r")
		call := c02_cCall(V(tg.name), s.lit(), I(z))
		switch {
		case host:
			c.host = append(c.host, D(name, call))
			s.h["attempt: vm.Call from Go"]++
		case tg.att:
			main = append(main, D(name, call))
			s.h["attempt: through a function that contains the try"]++
		case !fails && r.Chance(30):
			main = append(main, D(name, call))
			s.h["attempt: plain call"]++
		default:
			main = append(main, D(name, c02_cR("try", c02_cFn("_", nil, c02_cRet(call)), I(-1))))
			s.h[fmt.Sprintf("attempt: try at the top level, %d frame(s) between the thunk and the maker", tg.depth)]++
		}
		if fails {
			s.h["attempts that end by an error"]++
			seq += "E"
		} else {
			s.h["attempts that return"]++
			if prevFailed {
				s.h["successful attempt right after a failed one"]++
			}
			oks = append(oks, okRes{name, mk})
			seq += "S"
		}
		prevFailed = fails
		obs = append(obs, name)
	}
	for _, mk := range s.makers {
		if mk.slots > 8 {
			s.h["makers with more than 8 local slots"]++
		} else {
			s.h["makers with at most 8 local slots"]++
		}
	}
	if len(seq) > 4 {
		seq = seq[:4] + "…"
	}
	c.scnSeq = seq
	c.main = main
	c.obs = obs
	return c
}

// c02ScenarioCases runs the stream; failing cases are shrunk and reported like those of the main stream
func c02ScenarioCases(e *Env, rng *RNG, n int, budget time.Duration) {
	start := time.Now()
	bad, shrunk := 0, 0
	for i := 0; i < n; i++ {
		if bad >= 15 {
			e.R.Note("scenario stream stopped after %d cases: %d cases already disagree with the model or the specification", i, bad)
			break
		}
		if time.Since(start) > budget {
			e.R.Note("scenario stream stopped after %d of %d cases: wall budget of the tier used up", i, n)
			break
		}
		c := c02GenScenario(rng.Fork())
		v := c02RunCase(e, c, true)
		for k, cnt := range c.scn {
			for j := 0; j < cnt; j++ {
				e.R.H("scenario_ops", k)
			}
		}
		e.R.H("scenario_attempt_sequence(E=error,S=return,u=use)", c.scnSeq)
		failing := v.mismatch != "" || (v.spec != "" && v.finding == "")
		if failing {
			bad++
		}
		if failing && shrunk < 3 {
			shrunk++
			wantMis := v.spec == "" || v.finding != ""
			small := c02Shrink(c, func(q *c02Case) bool {
				w := c02RunCase(e, q, false)
				if wantMis {
					return w.mismatch != "" && !c02HasAnyPrefix(w.mismatch, "oracle reply", "the real compiler")
				}
				return w.spec != "" && w.finding == ""
			})
			w := c02RunCase(e, small, false)
			e.R.Note("shrunk failing scenario case #%d:\n%s\n=> mismatch=%q spec=%q", i, c02Key(small), w.mismatch, w.spec)
			if w.spec != "" && w.finding == "" {
				e.R.Spec(c02Key(small), "(shrunk from scenario case #"+strconv.Itoa(i)+") "+w.spec, "")
			}
			if w.mismatch != "" {
				e.R.Mismatch(c02Key(small), "(shrunk from scenario case #"+strconv.Itoa(i)+")", w.impl, w.mismatch)
			}
		}
		c02Flush()
	}
}

func c02HasAnyPrefix(s string, ps ...string) bool {
	for _, p := range ps {
		if len(s) >= len(p) && s[:len(p)] == p {
			return true
		}
	}
	return false
}

// ---------------------------------------------------------------------------------------
// the frame machine on its own (oracle request `frames`): generated sequences of calls (few / many
// locals), returns, ERROR exits, MakeCell at a generated frames-back distance, loads and stores by the
// running function and through cells.  The loads of the Lean frame machine (frame slots, inline
// storage, heap slices, capturedLocals: the model of vm/frame.go) are compared with the loads of
// Lean's variable machine and of a Go reference that keeps one variable per (activation, slot)
// — `frames_refine_variables` proves the first equality, the run shows the model is executable
// and the reference agrees.  Values are all different, so any aliasing or lost write shows.

func c02FrameCases(e *Env, rng *RNG, n int) {
	for ci := 0; ci < n; ci++ {
		r := rng.Fork()
		type cell struct{ act, idx int }
		vars := map[[2]int]int64{}
		stack := []int{0}
		nacts := 1
		var cells []cell
		var ops []string
		var want []string
		val := int64(100)
		aborts, deepCaps, ownerAfter := 0, 0, 0
		captured := map[int]bool{}
		nops := 6 + r.Intn(30)
		for i := 0; i < nops; i++ {
			x := r.Intn(100)
			top := stack[len(stack)-1]
			switch {
			case x < 16 && len(stack) < 7:
				w := 0
				if r.Chance(30) {
					w = 1
				}
				ops = append(ops, fmt.Sprintf("c:%d", w))
				stack = append(stack, nacts)
				nacts++
			case x < 24 && len(stack) > 1:
				ops = append(ops, "r")
				stack = stack[:len(stack)-1]
			case x < 34 && len(stack) > 1:
				ops = append(ops, "a")
				stack = stack[:len(stack)-1]
				aborts++
			case x < 52:
				back := 0
				if r.Chance(45) {
					back = r.Intn(len(stack))
				}
				idx := r.Intn(3)
				ops = append(ops, fmt.Sprintf("m:%d:%d", idx, back))
				a := stack[len(stack)-1-back]
				cells = append(cells, cell{a, idx})
				captured[a] = true
				if back > 0 {
					deepCaps++
				}
			case x < 68:
				idx := r.Intn(3)
				val++
				ops = append(ops, fmt.Sprintf("sf:%d:%d", idx, val))
				vars[[2]int{top, idx}] = val
				if captured[top] {
					ownerAfter++
				}
			case x < 80:
				idx := r.Intn(3)
				ops = append(ops, fmt.Sprintf("lf:%d", idx))
				want = append(want, strconv.FormatInt(vars[[2]int{top, idx}], 10))
			case x < 90 && len(cells) > 0:
				c := r.Intn(len(cells))
				val++
				ops = append(ops, fmt.Sprintf("sF:%d:%d", c, val))
				vars[[2]int{cells[c].act, cells[c].idx}] = val
			case len(cells) > 0:
				c := r.Intn(len(cells))
				ops = append(ops, fmt.Sprintf("lF:%d", c))
				want = append(want, strconv.FormatInt(vars[[2]int{cells[c].act, cells[c].idx}], 10))
			}
		}
		// read everything back at the end: through every cell, and the locals of the running function
		for c := range cells {
			ops = append(ops, fmt.Sprintf("lF:%d", c))
			want = append(want, strconv.FormatInt(vars[[2]int{cells[c].act, cells[c].idx}], 10))
		}
		for idx := 0; idx < 3; idx++ {
			ops = append(ops, fmt.Sprintf("lf:%d", idx))
			want = append(want, strconv.FormatInt(vars[[2]int{stack[len(stack)-1], idx}], 10))
		}
		key := "frames " + c02Join(ops, " ")
		reply := e.O.Ask(append([]string{"C02", "frames"}, ops...)...)
		e.R.Case(key, len(cells) > 0 && (aborts > 0 || ownerAfter > 0))
		e.R.H("frame_sequences_error_exits", strconv.Itoa(min(aborts, 5)))
		e.R.H("frame_sequences_captures_from_a_callee(back>=1)", strconv.Itoa(min(deepCaps, 5)))
		e.R.H("frame_sequences_owner_stores_after_capture", strconv.Itoa(min(ownerAfter, 5)))
		f := c02SplitTabs(reply)
		wantS := "-"
		if len(want) > 0 {
			wantS = c02Join(want, ",")
		}
		if len(f) != 4 || f[0] != "ok" {
			e.R.Mismatch(key, wantS, reply, "oracle reply to the frames request (the generated sequence is valid: no machine may refuse it)")
			continue
		}
		if f[1] != f[2] {
			e.R.Mismatch(key, f[1], f[2], "loads of the frame machine vs loads of the variable machine (frames_refine_variables)")
		}
		if f[2] != wantS {
			e.R.Mismatch(key, wantS, f[2], "loads of the Go reference (one variable per activation and slot) vs the Lean variable machine")
		}
	}
}

func c02Join(xs []string, sep string) string {
	out := ""
	for i, x := range xs {
		if i > 0 {
			out += sep
		}
		out += x
	}
	return out
}

func c02SplitTabs(s string) []string {
	var out []string
	cur := ""
	for _, ch := range s {
		if ch == '\t' {
			out = append(out, cur)
			cur = ""
		} else {
			cur += string(ch)
		}
	}
	return append(out, cur)
}
