package main

// C18 — three further classes of sessions (Model.lean layers 3-5):
//
//   c18Contexts : every piece is run with its OWN context (background / cancellable / cancelled by the piece
//                 itself / already cancelled / short deadline).  A piece ended by its context is a piece that
//                 fails at run time; the pieces after it — under every context kind — must behave as in the whole
//                 program made of what completed.  Model: HRepl (the halt flag), theorem ctx_invisible.
//   c18Marks    : a REJECTED piece of each syntactic kind whose compile error surfaces late (after the compiler
//                 has set compile-only state: pipe stages, loop, block scope, switch) followed by accepted pieces of
//                 every call/expression form.  Model: compileEvs/marksRun, theorem marks_partial; the real
//                 fragment's Call/Partial pattern is compared with the model's emitted forms.
//   c18Binding  : sessions over integer globals and functions that read and write them: declarations in any
//                 piece, first calls in any later piece, top-level reads and writes in between.  Model: generations
//                 of the globals array and the run a function is bound at (bindRun), theorem binding_partial.

import (
	"bytes"
	"context"
	"errors"
	"fmt"
	"strconv"
	"strings"
	"time"

	"github.com/risor-io/risor/op"
	ros "github.com/risor-io/risor/os"
	"github.com/risor-io/risor/vm"
)

// ---------------------------------------------------------------- stdout with a cancellation hook

const c18CancelMarker = "zcancel"

type c18Out struct {
	ros.NilFile
	buf      *bytes.Buffer
	onMarker func()
}

func (m *c18Out) Write(p []byte) (int, error) {
	n, err := m.buf.Write(p)
	if m.onMarker != nil && bytes.Contains(p, []byte(c18CancelMarker)) {
		m.onMarker()
	}
	return n, err
}

var errC18Hang = errors.New("c18: run did not end")

// c18RunGuarded runs the VM; a run under a context that can never be cancelled gets a watchdog (the
// verdict is "did not end", never a duration).
func c18RunGuarded(v *vm.VirtualMachine, ctx context.Context, watchdog bool) error {
	if !watchdog {
		return v.Run(ctx)
	}
	done := make(chan error, 1)
	go func() {
		defer func() {
			if r := recover(); r != nil {
				done <- fmt.Errorf("panic: %v", r)
			}
		}()
		done <- v.Run(ctx)
	}()
	select {
	case err := <-done:
		return err
	case <-time.After(8 * time.Second):
		return errC18Hang
	}
}

// ---------------------------------------------------------------- small statement builders

type c18B struct{}

func (c18B) mk(src string, f func(*c18Stmt)) *c18Stmt {
	s := &c18Stmt{Src: src, Kind: "directed", Need: 3}
	if f != nil {
		f(s)
	}
	return s
}
func (b c18B) expr(src string, uses ...string) *c18Stmt {
	return b.mk(src, func(s *c18Stmt) { s.IsExpr, s.Leaves, s.Uses = true, true, uses })
}
func (b c18B) decl(name, val string, uses ...string) *c18Stmt {
	return b.mk(name+" := "+val, func(s *c18Stmt) { s.VDecl, s.Uses = []string{name}, uses })
}
func (b c18B) asg(name, val string, uses ...string) *c18Stmt {
	return b.mk(name+" = "+val, func(s *c18Stmt) { s.Uses, s.Asg = append([]string{name}, uses...), []string{name} })
}
func (b c18B) spin() *c18Stmt {
	return b.mk("for { }", func(s *c18Stmt) { s.Fails, s.AtomicFail, s.Leak, s.LeakUnknown = true, true, 0, true })
}
func (b c18B) piece(kind string, ss ...*c18Stmt) *c18Piece { return &c18Piece{Stmts: ss, Kind: kind} }

// ---------------------------------------------------------------- contexts

// c18StopPiece builds a piece that its own context ends: kind d = `pre...; print(marker); for { }` (cancelled by
// the piece after `pre`), D = already cancelled, e = deadline; D and e pieces only spin (what else would have run
// before the VM notices is a matter of timing).
func c18StopPiece(kind byte, variant int) *c18Piece {
	var b c18B
	switch kind {
	case 'd':
		marker := b.expr(`print("` + c18CancelMarker + `")`)
		if variant%2 == 0 {
			return b.piece("stopped:d", b.expr(`print("pre", zc1)`, "zc1"), b.asg("zc1", "zc1 + 1"), marker, b.spin())
		}
		return b.piece("stopped:d", marker, b.spin())
	case 'D':
		return b.piece("stopped:D", b.spin())
	}
	return b.piece("stopped:e", b.spin())
}

func c18Contexts(e *Env, env *c18Env) {
	var b c18B
	run := func(tag string, ctxs string, names []string, ps ...*c18Piece) {
		h := &c18History{Pieces: ps, Names: names, Ctxs: ctxs}
		e.R.Case(h.Text(), true)
		e.R.H("history_kind", "contexts: "+tag)
		for i := range ps {
			e.R.H("piece_contexts", string(ctxs[i])+" "+strings.SplitN(ps[i].Kind, ":", 2)[0])
		}
		h.check(e, env, false)
	}
	names := []string{"zc1", "zc2", "zc3"}
	first := func() *c18Piece { return b.piece("ordinary", b.decl("zc1", "5")) }
	f1 := func() *c18Piece {
		return b.piece("ordinary", b.asg("zc1", "zc1 * 2"), b.decl("zc2", "zc1 + 1", "zc1"))
	}
	f2 := func() *c18Piece { return b.piece("ordinary", b.expr(`print("after", zc1, zc2)`, "zc1", "zc2")) }
	f3 := func() *c18Piece { return b.piece("ordinary", b.expr("[zc1, zc2]", "zc1", "zc2")) }
	kinds := []byte{'d', 'D', 'e'}
	live := []string{"b", "c"}
	// (1) ordinary / stopped / three ordinary pieces under every combination of background and cancellable
	n := 0
	for _, x0 := range live {
		for _, k := range kinds {
			for v := 0; v < 2; v++ {
				if k != 'd' && v == 1 {
					continue
				}
				for _, a := range live {
					for _, bb := range live {
						for _, c := range live {
							n++
							run("ordinary / stopped / ordinary x 3", x0+string(k)+a+bb+c, names, first(), c18StopPiece(k, v), f1(), f2(), f3())
						}
					}
				}
			}
		}
	}
	// (2) two stopped pieces in a row, a stopped piece first, a stopped piece last, rejected and failing pieces around it
	uniq := 700000
	ins := func(kind string) *c18Piece { uniq++; return c18Ins(kind, uniq)[0] }
	for _, k1 := range kinds {
		for _, k2 := range kinds {
			for _, a := range live {
				run("stopped twice", "c"+string(k1)+string(k2)+a+a, names, first(), c18StopPiece(k1, 0), c18StopPiece(k2, 1), f1(), f3())
			}
		}
		for _, a := range live {
			if k1 != 'd' {
				run("stopped piece first", string(k1)+a+a+a, names, c18StopPiece(k1, 1), first(), f1(), f3())
			}
			run("stopped piece last", a+a+string(k1), names, first(), f1(), c18StopPiece(k1, 0))
			run("stopped / rejected / ordinary", a+string(k1)+a+a+a, names, first(), c18StopPiece(k1, 0), ins("RU"), f1(), f3())
			run("stopped / syntax error / ordinary", a+string(k1)+a+a+a, names, first(), c18StopPiece(k1, 1), ins("PX"), f1(), f3())
			run("stopped / failing / ordinary", a+string(k1)+a+a+a, names, first(), c18StopPiece(k1, 0), ins("FA"), f1(), f3())
			run("failing / stopped / ordinary", a+a+string(k1)+a+a, names, first(), ins("FP"), c18StopPiece(k1, 1), f1(), f3())
		}
	}
	// (3) random sessions: global-and-function programs cut into pieces, every piece with a random context,
	// stopped pieces at random positions
	r := e.Rng.Fork()
	nRand := 60
	if !e.Quick {
		nRand = 400
	}
	for i := 0; i < nRand; i++ {
		p := c18FnHeavy(r)
		top := append([]*N{ns("const", "zk", nInt(7)), nVar("zc1", nInt(int64(r.Intn(9))))}, p.C...)
		env.names = nil
		if w := env.wholeEval(Stmts(top, 0)); w.Class != "ok" {
			continue
		}
		G := c18TopNames(top)
		sens := c18Sensitive(top, G)
		var stmts []*c18Stmt
		for _, nd := range top {
			stmts = append(stmts, c18Abstract(nd, G, sens))
		}
		var cuts []int
		for c := 2; c < len(stmts); c++ { // zk and zc1 stay in the first piece
			if r.Chance(45) {
				cuts = append(cuts, c)
			}
		}
		base := c18Cut(stmts, cuts)
		var ps []*c18Piece
		ctxs := ""
		for j, bp := range base {
			bp.Kind = "ordinary"
			ps = append(ps, bp)
			ctxs += Pick(r, []string{"b", "b", "c"})
			if j < len(base)-1 && r.Chance(50) || j == 0 {
				k := Pick(r, kinds)
				ps = append(ps, c18StopPiece(k, r.Intn(2)))
				ctxs += string(k)
			}
		}
		run("random session", ctxs, sortedKeys(G), ps...)
	}
	e.R.H("contexts", fmt.Sprintf("enumerated histories: %d", n))
}

// ---------------------------------------------------------------- compile-only state (marks)

type c18MarkPiece struct {
	name   string
	src    string
	events string // Oracle.lean `marks` notation
	pre    int    // rejected kinds: values the leaked instructions push when they run with the next piece
	stmt   func(*c18Stmt)
}

// c18CallPattern: the Call / Partial instructions of a fragment, in order.
func c18CallPattern(frag string) string {
	call, partial := op.GetInfo(op.Call).Name, op.GetInfo(op.Partial).Name
	var sb strings.Builder
	for _, ins := range strings.Fields(frag) {
		switch strings.SplitN(ins, ":", 2)[0] {
		case call:
			sb.WriteByte('C')
		case partial:
			sb.WriteByte('P')
		}
	}
	return sb.String()
}

// c18ModelPattern: the forms the model emits for a piece (`a:-:1.2~p` -> "CP"): an instruction emitted under the
// pipe mark is a Partial, otherwise a Call.
func c18ModelPattern(rep string) (accepted bool, left string, pat string) {
	f := strings.Split(rep, ":")
	if len(f) != 3 {
		return false, "?", "?"
	}
	if f[2] != "-" {
		for _, c := range strings.Split(f[2], ".") {
			if i := strings.Index(c, "~"); i >= 0 && strings.Contains(c[i:], "p") {
				pat += "P"
			} else {
				pat += "C"
			}
		}
	}
	return f[0] == "a", f[1], pat
}

func c18Marks(e *Env, env *c18Env) {
	var b c18B
	undef := func(s *c18Stmt) { s.Uses = append(s.Uses, "undefined_zq") }
	// rejected pieces: the compile error (an undefined name, a constant assigned to) surfaces LATE
	rejected := []c18MarkPiece{
		{"pipe, undefined last stage", "zxs | sorted | undefined_zq", "+p,e1:-,!", 1, nil},
		{"pipe, undefined middle stage", "zxs | undefined_zq | len", "+p,!", 1, nil},
		{"pipe into a call with an undefined argument", "zxs | zid(undefined_zq)", "+p,!", 2, nil},
		{"call, undefined last argument", "len(zxs, undefined_zq)", "!", 2, nil},
		{"nested call, undefined argument of the outer call", "zid(sorted(zxs), undefined_zq)", "e1:p,!", 2, nil},
		{"method call, undefined argument", "zxs.append(undefined_zq)", "!", 1, nil},
		{"list literal", "[1, 2, undefined_zq]", "!", 2, nil},
		{"map literal", `{"a": undefined_zq}`, "!", 1, nil},
		{"index", "zxs[undefined_zq]", "!", 1, nil},
		{"infix", "len(zxs) + undefined_zq", "e1:p,!", 1, nil},
		{"declaration", "zq9 := 1 + undefined_zq", "!", 1, func(s *c18Stmt) { s.IsExpr, s.Leaves = false, false }},
		{"ternary", "true ? undefined_zq : 1", "!", 0, nil},
		{"if block", "if true { undefined_zq }", "+b,!", 0, func(s *c18Stmt) { s.IsExpr = false }},
		{"if block, constant assigned to", "if true { zk = 2 }", "+b,!", 0, func(s *c18Stmt) { s.IsExpr = false; s.Uses, s.Asg = []string{"zk"}, []string{"zk"} }},
		{"for loop body", "for zi := 0; zi < 1; zi++ { undefined_zq }", "+b,+l,+b,!", 0, func(s *c18Stmt) { s.IsExpr, s.Leaves = false, false }},
		{"range loop body", "for _, zv := range zxs { undefined_zq }", "+b,+l,+b,!", 1, func(s *c18Stmt) { s.IsExpr, s.Leaves = false, false }},
		{"condition loop body", "for len(zxs) > 0 { undefined_zq }", "+b,+l,e1:p,+b,!", 0, func(s *c18Stmt) { s.IsExpr, s.Leaves = false, false }},
		{"switch case body", "switch 1 { case 1: undefined_zq }", "+s,+b,!", 1, func(s *c18Stmt) { s.IsExpr = false }},
		{"pipe inside a loop", "for _, zv := range zxs { zv | zid | undefined_zq }", "+b,+l,+b,+p,e1:-,!", 2, func(s *c18Stmt) { s.IsExpr, s.Leaves = false, false }},
		// compile errors INSIDE function bodies (outside the model's guard until C18-compiler-stuck-in-function was repaired)
		{"function literal body", "func() { undefined_zq }", "+f,!", 0, func(s *c18Stmt) { s.InFn = true }},
		{"named function body after a call", "func zq8() { return len(zxs) + undefined_zq }", "+f,e1:p,!", 0, func(s *c18Stmt) { s.IsExpr, s.InFn, s.CDecl = false, true, []string{"zq8"} }},
		{"pipe inside a function literal", "func() { return zxs | sorted | undefined_zq }", "+f,+p,e1:-,!", 0, func(s *c18Stmt) { s.InFn = true }},
		{"function literal as a call argument", "zid(func() { return undefined_zq })", "+f,!", 1, func(s *c18Stmt) { s.InFn = true }},
		{"loop inside a function literal inside a pipe", "zxs | func(v) { for _, zv := range v { undefined_zq } }", "+p,+f,+b,+l,+b,!", 1, func(s *c18Stmt) { s.InFn = true }},
		{"nested function literals, constant assigned to", "func() { return func() { zk = 2 } }", "+f,+f,!", 0, func(s *c18Stmt) { s.InFn = true; s.Uses, s.Asg = []string{"zk"}, []string{"zk"} }},
	}
	// accepted pieces: every form that emits a call, and a few that do not
	use := func(names ...string) func(*c18Stmt) { return func(s *c18Stmt) { s.Uses = names } }
	accepted := []c18MarkPiece{
		{"call into a declaration", "zn1 := len(zxs)", "e1:p", 0, func(s *c18Stmt) { s.IsExpr, s.Leaves, s.VDecl, s.Uses = false, false, []string{"zn1"}, []string{"zxs"} }},
		{"print of a call", `print("p", len(zxs))`, "e1:p,e2:p", 0, use("zxs")},
		{"pipe", "zxs | len", "+p,e1:-,<", 0, use("zxs")},
		{"pipe with two stages", "zxs | sorted | len", "+p,e1:-,e2:-,<", 0, use("zxs")},
		{"pipe into a partial call", "zxs | zid()", "+p,e1:p,e2:-,<", 0, use("zxs", "zid")},
		{"pipe after a call", "sorted(zxs) | len", "e1:p,+p,e2:-,<", 0, use("zxs")},
		{"method call", "zxs.append(4)", "e1:p", 0, use("zxs")},
		{"nested calls", "zid(zid(2))", "e1:p,e2:p", 0, use("zid")},
		{"function literal called", "func(a) { return a + 1 }(2)", "+f,<,e1:p", 0, nil},
		{"call inside a range loop", "for _, zv := range zxs { print(zv) }", "+b,+l,+b,e1:p,<,<,<", 0, func(s *c18Stmt) { s.IsExpr, s.Leaves, s.Uses = false, false, []string{"zxs"} }},
		{"calls in an if", `if len(zxs) > 0 { print("yes") }`, "e1:p,+b,e2:p,<", 0, func(s *c18Stmt) { s.IsExpr, s.Leaves, s.Uses = false, false, []string{"zxs"} }},
		{"calls in a switch", `switch len(zxs) { case 3: print("three") }`, "e1:p,+s,+b,e2:p,<,<", 0, func(s *c18Stmt) { s.IsExpr, s.Leaves, s.Uses = false, false, []string{"zxs"} }},
		{"call indexed", "zs1 := sorted(zxs)[0]", "e1:p", 0, func(s *c18Stmt) { s.IsExpr, s.Leaves, s.VDecl, s.Uses = false, false, []string{"zs1"}, []string{"zxs"} }},
		{"conversion of a call", "string(len(zxs))", "e1:p,e2:p", 0, use("zxs")},
		{"calls in a ternary", "len(zxs) > 2 ? zid(1) : zid(2)", "e1:p,e2:p,e3:p", 0, use("zxs", "zid")},
		{"try with a function literal", "try(func() { return zid(1) }, 0)", "+f,<,e1:p", 0, use("zid")},
		{"loop with break", "for zj := 0; zj < 3; zj++ { if zj == 1 { break } }", "+b,+l,+b,+b,<,<,<,<", 0, func(s *c18Stmt) { s.IsExpr, s.Leaves = false, false }},
		{"no call: index and infix", "zxs[0] + 1", "-", 0, use("zxs")},
		{"no call: function declaration", "func zg1(a) { return len(zxs) + a }", "+f,<", 0, func(s *c18Stmt) { s.IsExpr, s.CDecl, s.Uses = false, []string{"zg1"}, []string{"zxs"} }},
	}
	setup := func() *c18Piece {
		return b.piece("setup", b.mk("const zk = 7", func(s *c18Stmt) { s.CDecl = []string{"zk"} }), b.decl("zxs", "[3, 1, 2]"),
			b.mk("func zid(a) { return a }", func(s *c18Stmt) { s.Leaves, s.CDecl = true, []string{"zid"} }))
	}
	mkStmt := func(m c18MarkPiece, rej bool) *c18Stmt {
		s := b.expr(m.src)
		if rej {
			undef(s)
			s.Pre, s.NeutralLeak = m.pre, m.pre == 0
		}
		if m.stmt != nil {
			m.stmt(s)
		}
		return s
	}
	final := func() *c18Piece { return b.piece("final", b.expr("[zxs, len(zxs), zid(3)]", "zxs", "zid")) }
	check := func(tag string, ms []c18MarkPiece, rej []bool) {
		ps := []*c18Piece{setup()}
		evs := []string{"+f,<"}
		_ = undef
		for i, m := range ms {
			kind := "accepted form"
			if rej[i] {
				kind = "rejected late"
			}
			ps = append(ps, b.piece(kind, mkStmt(m, rej[i])))
			evs = append(evs, m.events)
		}
		ps = append(ps, final())
		evs = append(evs, "e1:p,e2:p")
		h := &c18History{Pieces: ps, Names: []string{"zxs", "zid", "zn1", "zs1", "zg1", "zq9", "zq8"}}
		text := h.Text()
		e.R.Case("compile-only state\n"+text, true)
		e.R.H("history_kind", "compile-only state: "+tag)
		// --- the marks model against the real compiler: which pieces are accepted, and the form of every call
		rep := strings.Split(e.O.Ask("C18", "marks", strings.Join(evs, "|")), "\t")
		if len(rep) != 4 || rep[0] != "ok" {
			e.R.Mismatch(text, "-", strings.Join(rep, " "), "oracle did not answer the marks request")
			return
		}
		impl, spec := strings.Split(rep[1], "|"), strings.Split(rep[2], "|")
		srcs := make([]string, len(ps))
		for i, p := range ps {
			srcs[i] = p.Src()
		}
		env.names = h.Names
		real := env.incremental(srcs, h.Names, false)
		for i, r := range real {
			acc, left, pat := c18ModelPattern(impl[i])
			_, _, spat := c18ModelPattern(spec[i])
			if acc != (r.Class == "ok" || r.Class == "fail") {
				e.R.Mismatch(text, fmt.Sprintf("piece %d: %s %s", i, r.Class, c18_firstLine(r.Err)), impl[i], "acceptance of a piece: real compiler vs Lean marks model")
				break
			}
			if !acc {
				e.R.H("marks_rejected_piece_leaves", left)
				continue
			}
			got := c18CallPattern(r.Frag)
			e.R.H("marks_call_forms", got)
			if got != spat {
				finding := "" // C18-compiler-stuck-in-function was repaired: a recurrence is an unlisted violation
				e.R.Spec(text, fmt.Sprintf("piece %d `%s`: calls emitted as %q (C = Call, P = Partial), a compiler that has seen no rejected piece emits %q", i, srcs[i], got, spat), finding)
			}
			if got != pat {
				e.R.Mismatch(text, fmt.Sprintf("piece %d `%s`: calls emitted as %q (C = Call, P = Partial)", i, srcs[i], got), "model "+impl[i]+" = "+pat,
					"forms of the instructions emitted for an accepted piece (compile-only state left by earlier pieces): real compiler vs Lean marks model")
				break
			}
		}
		// --- and the session against the REPL machine and the whole program (values, globals, stdout)
		h.check(e, env, false)
	}
	for _, k := range rejected {
		for _, f := range accepted {
			check("rejected late / accepted form", []c18MarkPiece{k, f}, []bool{true, false})
			e.R.H("marks_rejected_kinds", k.name)
			e.R.H("marks_accepted_forms", f.name)
		}
	}
	// two rejected pieces in a row, and an accepted form on both sides of a rejected piece
	r := e.Rng.Fork()
	nRand := 150
	if !e.Quick {
		nRand = 1500
	}
	for i := 0; i < nRand; i++ {
		var ms []c18MarkPiece
		var rej []bool
		used := map[string]bool{}
		for j, n := 0, 2+r.Intn(4); j < n; j++ {
			if r.Chance(50) {
				ms, rej = append(ms, Pick(r, rejected)), append(rej, true)
			} else {
				f := Pick(r, accepted)
				if used[f.name] { // a name is declared once per session
					continue
				}
				used[f.name] = true
				ms, rej = append(ms, f), append(rej, false)
			}
		}
		check("random mix of rejected and accepted pieces", ms, rej)
	}
}

// ---------------------------------------------------------------- binding of functions to generations of the globals

type c18BExpr struct {
	k    byte // L G A + C
	v    int
	a, b *c18BExpr
}

func (x *c18BExpr) tokens() string {
	switch x.k {
	case 'L':
		return "L" + strconv.Itoa(x.v)
	case 'G':
		return "G" + strconv.Itoa(x.v)
	case 'A':
		return "A"
	case '+':
		return "+," + x.a.tokens() + "," + x.b.tokens()
	}
	return "C" + strconv.Itoa(x.v) + "," + x.a.tokens()
}

func (x *c18BExpr) src() string {
	switch x.k {
	case 'L':
		return strconv.Itoa(x.v)
	case 'G':
		return "zg" + strconv.Itoa(x.v)
	case 'A':
		return "p"
	case '+':
		return "(" + x.a.src() + " + " + x.b.src() + ")"
	}
	return "zf" + strconv.Itoa(x.v) + "(" + x.a.src() + ")"
}

func (x *c18BExpr) hasCall() bool {
	if x == nil {
		return false
	}
	return x.k == 'C' || x.a.hasCall() || x.b.hasCall()
}

type c18BStmt struct {
	k    byte // s d x
	n    int  // global or function
	e    *c18BExpr
	body [][2]any // (global, expr)
}

type c18BHist struct {
	ng     int
	pieces [][]*c18BStmt
}

func (h *c18BHist) request() string {
	var ps []string
	for _, p := range h.pieces {
		var ss []string
		for _, s := range p {
			switch s.k {
			case 's':
				ss = append(ss, "s"+strconv.Itoa(s.n)+"="+s.e.tokens())
			case 'x':
				ss = append(ss, "x"+s.e.tokens())
			case 'd':
				body := "-"
				if len(s.body) > 0 {
					var as []string
					for _, a := range s.body {
						as = append(as, strconv.Itoa(a[0].(int))+":"+a[1].(*c18BExpr).tokens())
					}
					body = strings.Join(as, "&")
				}
				ss = append(ss, "d"+strconv.Itoa(s.n)+"="+body+"@"+s.e.tokens())
			}
		}
		ps = append(ps, strings.Join(ss, ";"))
	}
	return strings.Join(ps, "|")
}

// sources renders the pieces; the first assignment of a global is its declaration.
func (h *c18BHist) sources() []string {
	declared := map[int]bool{}
	var out []string
	for _, p := range h.pieces {
		var ss []string
		for _, s := range p {
			switch s.k {
			case 's':
				opr := " = "
				if !declared[s.n] {
					opr, declared[s.n] = " := ", true
				}
				ss = append(ss, "zg"+strconv.Itoa(s.n)+opr+s.e.src())
			case 'x':
				ss = append(ss, s.e.src())
			case 'd':
				var sb strings.Builder
				fmt.Fprintf(&sb, "func zf%d(p) {\n", s.n)
				for _, a := range s.body {
					fmt.Fprintf(&sb, "  zg%d = %s\n", a[0].(int), a[1].(*c18BExpr).src())
				}
				fmt.Fprintf(&sb, "  return %s\n}", s.e.src())
				ss = append(ss, sb.String())
			}
		}
		out = append(out, strings.Join(ss, "\n"))
	}
	return out
}

func c18GenBinding(r *RNG) *c18BHist {
	h := &c18BHist{ng: 2 + r.Intn(3)}
	nf := 1 + r.Intn(4)
	var declared []int
	var defined []int
	lit := func() *c18BExpr { return &c18BExpr{k: 'L', v: r.Intn(10)} }
	var fexpr func(d int) *c18BExpr
	fexpr = func(d int) *c18BExpr {
		switch c := r.Intn(6); {
		case c <= 1 && len(declared) > 0:
			return &c18BExpr{k: 'G', v: Pick(r, declared)}
		case c == 2:
			return &c18BExpr{k: 'A'}
		case c == 3 && d > 0:
			return &c18BExpr{k: '+', a: fexpr(d - 1), b: fexpr(d - 1)}
		case c == 4 && len(declared) > 0:
			return &c18BExpr{k: '+', a: &c18BExpr{k: 'G', v: Pick(r, declared)}, b: &c18BExpr{k: 'A'}}
		}
		return lit()
	}
	var texpr func(d int) *c18BExpr
	texpr = func(d int) *c18BExpr {
		switch c := r.Intn(8); {
		case c <= 1 && len(declared) > 0:
			return &c18BExpr{k: 'G', v: Pick(r, declared)}
		case c <= 4 && len(defined) > 0 && d > 0:
			return &c18BExpr{k: 'C', v: Pick(r, defined), a: texpr(d - 1)}
		case c == 5 && d > 0:
			return &c18BExpr{k: '+', a: texpr(d - 1), b: texpr(d - 1)}
		}
		return lit()
	}
	np := 3 + r.Intn(5)
	for pi := 0; pi < np; pi++ {
		var p []*c18BStmt
		for si, ns := 0, 1+r.Intn(3); si < ns; si++ {
			switch c := r.Intn(10); {
			case (c == 0 || len(declared) == 0) && len(declared) < h.ng:
				g := len(declared)
				p = append(p, &c18BStmt{k: 's', n: g, e: texpr(1)})
				declared = append(declared, g)
			case c <= 2 && len(declared) > 0:
				p = append(p, &c18BStmt{k: 's', n: Pick(r, declared), e: texpr(2)})
			case c <= 5 && len(defined) < nf && len(declared) > 0:
				// declarations tend to come in groups: the functions of one piece are bound by the same run
				for k := 0; k < 1+r.Intn(2) && len(defined) < nf; k++ {
					f := len(defined)
					st := &c18BStmt{k: 'd', n: f}
					for j, nb := 0, r.Intn(3); j < nb; j++ {
						st.body = append(st.body, [2]any{Pick(r, declared), fexpr(1)})
					}
					st.e = fexpr(1)
					p = append(p, st)
					defined = append(defined, f)
				}
			default:
				p = append(p, &c18BStmt{k: 'x', e: texpr(2)})
			}
		}
		h.pieces = append(h.pieces, p)
	}
	return h
}

// c18BindingDirected: `zg0 := 0` then `zf0(p) { zg0 = zg0 + p }`, `zf1(p) { return zg0 }`, `zf2(p) { zg0 = p }` declared
// together — in the first piece or in a later one — and every sequence of three one-statement pieces drawn from
// calls of the three functions, a top-level re-assignment and a top-level read.
func c18BindingDirected() []*c18BHist {
	g0 := &c18BExpr{k: 'G', v: 0}
	arg := &c18BExpr{k: 'A'}
	l := func(v int) *c18BExpr { return &c18BExpr{k: 'L', v: v} }
	decl := func() []*c18BStmt {
		return []*c18BStmt{
			{k: 'd', n: 0, body: [][2]any{{0, &c18BExpr{k: '+', a: g0, b: arg}}}, e: g0},
			{k: 'd', n: 1, e: g0},
			{k: 'd', n: 2, body: [][2]any{{0, arg}}, e: l(0)}}
	}
	acts := func() [][]*c18BStmt {
		return [][]*c18BStmt{
			{{k: 'x', e: &c18BExpr{k: 'C', v: 0, a: l(5)}}},
			{{k: 'x', e: &c18BExpr{k: 'C', v: 0, a: l(7)}}, {k: 'x', e: &c18BExpr{k: 'C', v: 1, a: l(0)}}},
			{{k: 'x', e: &c18BExpr{k: 'C', v: 1, a: l(0)}}},
			{{k: 'x', e: &c18BExpr{k: 'C', v: 2, a: l(3)}}, {k: 'x', e: &c18BExpr{k: 'C', v: 1, a: l(0)}}},
			{{k: 's', n: 0, e: l(9)}},
			{{k: 'x', e: g0}},
		}
	}
	var out []*c18BHist
	n := len(acts())
	for together := 0; together < 3; together++ {
		for a := 0; a < n; a++ {
			for b := 0; b < n; b++ {
				for c := 0; c < n; c++ {
					h := &c18BHist{ng: 1}
					init := &c18BStmt{k: 's', n: 0, e: l(0)}
					switch together {
					case 0: // globals and functions in the first piece
						h.pieces = append(h.pieces, append([]*c18BStmt{init}, decl()...))
					case 1: // functions declared together in the second piece
						h.pieces = append(h.pieces, []*c18BStmt{init}, decl())
					default: // the functions declared in two different later pieces
						d := decl()
						h.pieces = append(h.pieces, []*c18BStmt{init}, d[:1], d[1:])
					}
					h.pieces = append(h.pieces, acts()[a], acts()[b], acts()[c])
					out = append(out, h)
				}
			}
		}
	}
	return out
}

func c18Binding(e *Env, env *c18Env) {
	check := func(h *c18BHist, tag string) {
		srcs := h.sources()
		text := "binding\n" + strings.Join(srcs, "\n----\n")
		// non-trivial: a function is called in a later piece than the one declaring it
		declAt, late := map[int]int{}, false
		for i, p := range h.pieces {
			for _, s := range p {
				if s.k == 'd' {
					declAt[s.n] = i
				}
				var walk func(x *c18BExpr)
				walk = func(x *c18BExpr) {
					if x == nil {
						return
					}
					if d, ok := declAt[x.v]; x.k == 'C' && ok && d < i {
						late = true
					}
					walk(x.a)
					walk(x.b)
				}
				walk(s.e)
			}
		}
		e.R.Case(text, late)
		e.R.H("history_kind", "binding: "+tag)
		rep := strings.Split(e.O.Ask("C18", "bind", strconv.Itoa(h.ng), h.request()), "\t")
		if len(rep) != 7 || rep[0] != "ok" {
			e.R.Mismatch(text, h.request(), strings.Join(rep, " "), "oracle did not answer the bind request")
			return
		}
		iv, ig, sv, sg, valid := strings.Split(rep[1], "|"), strings.Split(rep[2], "|"), strings.Split(rep[3], "|"), strings.Split(rep[4], "|"), strings.Split(rep[5], "|")
		firstBad := len(h.pieces)
		if rep[6] != "-" {
			firstBad, _ = strconv.Atoi(rep[6])
			e.R.H("binding_guard", "outside binding_partial (a read hits a stale generation) — impossible since bindGuard_always")
			e.R.Mismatch(text, "-", rep[6], "the model's binding guard fails although bindGuard_always proves it for every history")
		} else {
			e.R.H("binding_guard", "inside binding_partial")
		}
		var names []string
		for g := 0; g < h.ng; g++ {
			names = append(names, "zg"+strconv.Itoa(g))
		}
		env.names = names
		real := env.incremental(srcs, names, true)
		mismatch := ""
		specDiff := ""
		specInside := false
		nDefs := 0
		for i, r := range real {
			for _, s := range h.pieces[i] {
				if s.k == 'd' {
					nDefs++
				}
			}
			if r.Class != "ok" {
				mismatch = fmt.Sprintf("piece %d: %s %s", i, r.Class, c18_firstLine(r.Err))
				break
			}
			if iv[i] != "n" && r.Value != iv[i] && mismatch == "" {
				mismatch = fmt.Sprintf("piece %d: value %s, model %s", i, r.Value, iv[i])
			}
			if sv[i] != "n" && r.Value != sv[i] && specDiff == "" {
				specDiff = fmt.Sprintf("piece %d: value %s, the concatenated program yields %s", i, r.Value, sv[i])
				specInside = i < firstBad
			}
			igs, sgs := strings.Split(ig[i], "."), strings.Split(sg[i], ".")
			for g, n := range names {
				got, ok := r.Globals[n]
				if !ok {
					continue // not declared yet
				}
				if got != igs[g] && mismatch == "" {
					mismatch = fmt.Sprintf("piece %d: global %s = %s, model %s", i, n, got, igs[g])
				}
				if got != sgs[g] && specDiff == "" {
					specDiff = fmt.Sprintf("piece %d: global %s = %s, the concatenated program has %s", i, n, got, sgs[g])
					specInside = i < firstBad && g < len(valid[i]) && strings.Split(valid[i], ".")[g] == "1"
				}
			}
			// binding time: every function constant is loaded by the run of the piece that declares it
			if r.Loaded != 1+nDefs && mismatch == "" {
				mismatch = fmt.Sprintf("piece %d: %d code objects loaded, model %d (main code + every function declared so far)", i, r.Loaded, 1+nDefs)
			}
		}
		if mismatch != "" {
			e.R.Mismatch(text, mismatch, strings.Join(rep[1:3], " "), "real session vs Lean generations model (function binding time, bound_at_every_run)")
		}
		// the model's Spec against the real whole-program evaluation
		if len(real) == len(h.pieces) {
			w := env.wholeEval(strings.Join(srcs, "\n"))
			last := len(h.pieces) - 1
			if w.Class != "ok" {
				e.R.Mismatch(text, "whole program: "+w.Class+" "+c18_firstLine(w.Err), sv[last], "real whole-program evaluation vs the model's Spec")
			} else {
				if sv[last] != "n" && w.Value != sv[last] {
					e.R.Mismatch(text, "whole program value "+w.Value, sv[last], "real whole-program evaluation vs the model's Spec")
				}
				sgs := strings.Split(sg[last], ".")
				for g, n := range names {
					if got, ok := w.Globals[n]; ok && got != sgs[g] {
						e.R.Mismatch(text, "whole program "+n+" = "+got, sgs[g], "real whole-program evaluation vs the model's Spec")
					}
				}
			}
		}
		if specDiff != "" {
			// C18-function-globals-snapshot was repaired (reloadCode forgets the loaded functions of the main code): a
			// function of an earlier piece that misses the globals of a later piece is an unlisted violation again
			if !specInside {
				specDiff += " [a read or the compared slot is in a stale generation]"
			}
			e.R.Spec(text, specDiff, "")
			e.R.H("binding_spec", "violated")
		} else {
			e.R.H("binding_spec", "holds")
		}
	}
	for _, h := range c18BindingDirected() {
		check(h, "enumerated: three functions over one global, declared together or apart, three later pieces")
	}
	r := e.Rng.Fork()
	n := 1500
	if !e.Quick {
		n = 12000
	}
	for i := 0; i < n; i++ {
		check(c18GenBinding(r), "random session")
	}
}
