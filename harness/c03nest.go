package main

// C03 — two scenario classes in which the process dies by a runtime THROW that no recover()
// sees, although nothing in the script looks dangerous:
//
//  1. recursion that re-enters vm.eval natively by EVERY route compiled code can be entered by
//     while compiled code runs — the Call opcode, callbacks of builtins (list.each/map/filter,
//     sorted, call, try: vm.callFunction straight from the context's CallFunc, not through
//     callObject), deferred calls, closures around them — in cycles of one to three functions,
//     bounded (depths around the end of the frame array) and unbounded, on the main goroutine,
//     under risor.Call, on spawned threads.  Model: Lean `nestRun` (Model.lean 4c) under `enter`;
//     the fixed frame array must end every such recursion with the recoverable index panic, or
//     callFunction's nesting counter (vm.callDepth) with the returned error `max call depth of
//     1024 exceeded` — whichever the model says comes first; recursion through `defer` alone
//     never grows the frame index and is ended by the counter (the repaired finding
//     C03-defer-recursion-stack-overflow: a process death here is an unlisted violation again).
//
//  2. importers: sequences of Import calls on the real LocalImporter / FSImporter with module
//     files that are missing, do not parse, do not compile, compile — rewritten between calls,
//     then hammered from several goroutines — and scripts evaluated with
//     risor.WithLocalImporter over such directories (import / from-import, inside try, inside
//     functions, on spawned threads, nested imports).  Model: Lean `importSeq implPaths`
//     (Model.lean 4d): the mutex is free after every call and no call ends the process.

import (
	"context"
	"encoding/hex"
	"encoding/json"
	"fmt"
	"os"
	"path/filepath"
	"runtime"
	"sort"
	"strconv"
	"strings"
	"sync"
	"time"

	"github.com/risor-io/risor"
	"github.com/risor-io/risor/importer"
	"github.com/risor-io/risor/object"
)

// ---------------------------------------------------------------- 1. recursion by every route

// c03Link: how a function of the cycle hands control to the next one.
//   stmt: %G = callee, %A = argument list for a direct call, %N = the next counter value
//   ops:  the model's steps (Lean NOp) for one such hand-over
//   two:  the callee is called with two arguments (a comparator)
type c03Link struct {
	name, stmt, ops string
	two             bool
}

var c03Links = []c03Link{
	{"call", "return %G(%A)", "callOp", false},
	{"each", "[%N].each(%G)", "callback", false},
	{"map", "[%N].map(%G)", "callback", false},
	{"filter", "[%N].filter(%G)", "callback", false},
	{"call-builtin", "call(%G, %A)", "callback", false},
	{"sorted", "sorted([%N, %N], %G)", "callback", true},
	{"defer", "defer %G(%A)", "exitDefers,deferred", false},
	{"each-closure", "[%N].each(func(y) { %G(y%Z) })", "callback,callOp", false},
	{"try-closure", "try(func() { return %G(%A) })", "callback,callOp", false},
	{"defer-closure", "defer func() { %G(%A) }()", "exitDefers,deferred,callOp", false},
}

// the stack limit handed to the model.  Every theorem holds for every limit; this one only has
// to lie above what the bounded cases need (at most 3000 levels, ~600 bytes of native stack
// each with the 64 MB stack of the `small` pool) and is passed by every unbounded case.
const c03NestLimit = 5000

type c03Rec struct {
	links     []int // per function of the cycle: index into c03Links
	depth     int   // -1 = unbounded
	entry     string
	src, text string
	ops       string // model request (segments)
	pureDefer bool   // every link is `defer` on the callee itself: the recursion never claims a second frame (only vm.callDepth ends it)
}

var c03RecEntries = []string{"run", "run", "run", "spawn-wait", "go", "call-entry", "each-at-top"}

func c03GenRec(r *RNG) c03Rec {
	var rc c03Rec
	n := 1 + r.Intn(3)
	if r.Chance(45) {
		n = 1
	}
	mode := r.Intn(10)
	for i := 0; i < n; i++ {
		k := r.Intn(len(c03Links))
		switch {
		case mode == 0: // every link deferred: the class of the finding (kept a minority)
			k = 6
		case mode <= 2 && i == 0: // at least one deferred link among others
			k = Pick(r, []int{6, 9})
		case mode >= 7: // builtin callbacks only: no call expression on the callee anywhere
			k = Pick(r, []int{1, 2, 3, 4, 5})
		}
		rc.links = append(rc.links, k)
	}
	rc.pureDefer = true
	for _, k := range rc.links {
		if c03Links[k].name != "defer" {
			rc.pureDefer = false
		}
	}
	// frames claimed per round of the cycle (an upper bound is enough to place the thresholds)
	perRound := 0
	for _, k := range rc.links {
		// callOp and callback claim a frame each; exitDefers + deferred release one and claim it again
		perRound += strings.Count(c03Links[k].ops, "call")
	}
	// callFunction activations opened per round: every link's enters except none (each of them
	// goes through callFunction); with a deferred link in the cycle this count grows faster than
	// the frame index and vm.callDepth (1024) ends the recursion before the frame array does
	callsPerRound := perRound
	for _, k := range rc.links {
		callsPerRound += strings.Count(c03Links[k].ops, "deferred")
	}
	switch r.Intn(10) {
	case 0, 1, 2, 3:
		rc.depth = -1
	case 4:
		rc.depth = 1 + r.Intn(40)
	case 5, 6, 7:
		// around the depth at which the frame array ends (1023 activations above the main code)
		// or, when the cycle has a deferred link, around the depth at which the 1024th
		// callFunction activation would be opened
		per := max(perRound, 1)
		rc.depth = max(1, 1023*n/per+r.Intn(9)-4)
		if callsPerRound > perRound && r.Chance(70) {
			rc.depth = max(1, 1024*n/callsPerRound+r.Intn(9)-4)
		}
	default:
		rc.depth = 1200 + r.Intn(1800)
	}
	if rc.pureDefer && rc.depth > 3000 {
		rc.depth = 3000
	}
	rc.entry = Pick(r, c03RecEntries)
	// parameters of each function: two when the link INTO it is `sorted`
	two := make([]bool, n)
	for i := 0; i < n; i++ {
		two[(i+1)%n] = c03Links[rc.links[i]].two
	}
	if rc.entry == "each-at-top" && two[0] {
		rc.entry = "run"
	}
	var sb strings.Builder
	for i := 0; i < n; i++ {
		l := c03Links[rc.links[i]]
		callee := fmt.Sprintf("f%d", (i+1)%n)
		next := "n - 1"
		if rc.depth < 0 {
			next = "n + 1"
		}
		args, z := next, ""
		if two[(i+1)%n] {
			args, z = next+", 0", ", 0"
		}
		st := l.stmt
		st = strings.ReplaceAll(st, "%G", callee)
		st = strings.ReplaceAll(st, "%A", args)
		st = strings.ReplaceAll(st, "%N", next)
		st = strings.ReplaceAll(st, "%Z", z)
		params := "n"
		if two[i] {
			params = "n, m"
		}
		guard := ""
		if rc.depth >= 0 {
			guard = "if n <= 0 { return 0 }\n "
		}
		fmt.Fprintf(&sb, "func f%d(%s) { %s%s }\n", i, params, guard, st)
	}
	start := "0"
	if rc.depth >= 0 {
		start = strconv.Itoa(rc.depth)
	}
	a0 := start
	if two[0] {
		a0 += ", 0"
	}
	first := ""
	switch rc.entry {
	case "run":
		sb.WriteString("f0(" + a0 + ")")
		first = "callOp*1"
	case "spawn-wait":
		sb.WriteString("t := spawn(f0, " + a0 + ")\nt.wait()")
		first = "hostCall*1"
	case "go":
		sb.WriteString("go f0(" + a0 + ")\n0")
		first = "hostCall*1"
	case "call-entry":
		sb.WriteString("func f() { return f0(" + a0 + ") }\n0")
		first = "hostCall*1;callOp*1"
	case "each-at-top":
		sb.WriteString("[" + start + "].each(f0)")
		first = "callback*1"
	}
	rc.src = sb.String()
	rc.text = rc.src
	// model steps of the descent (the unwinding — leave / defersDone — cannot fail)
	var cyc []string
	for _, k := range rc.links {
		cyc = append(cyc, c03Links[k].ops)
	}
	segs := []string{first}
	if rc.depth < 0 {
		segs = append(segs, fmt.Sprintf("%s*%d", strings.Join(cyc, ","), c03NestLimit+1))
	} else {
		// f0(depth) … the activation with n = 0 returns at once: `depth` hand-overs
		if full := rc.depth / n; full > 0 {
			segs = append(segs, fmt.Sprintf("%s*%d", strings.Join(cyc, ","), full))
		}
		if rem := rc.depth % n; rem > 0 {
			segs = append(segs, fmt.Sprintf("%s*1", strings.Join(cyc[:rem], ",")))
		}
	}
	rc.ops = strings.Join(segs, ";")
	return rc
}

func (rc c03Rec) shape() string {
	var ns []string
	for _, k := range rc.links {
		ns = append(ns, c03Links[k].name)
	}
	return strings.Join(ns, "→")
}

var c03RecDirected = []struct{ name, src, entry, observe, ops string }{
	{"each-self", "func walk(x) { [x+1].each(walk) }\nwalk(0)", "run", "raise", "callOp*1;callback*5001"},
	{"try-self", "k := 0\nfunc w() { k++\n try(w) }\nw()", "run", "raise", "callOp*1;callback*5001"},
	{"map-filter-pair", "func a(x) { [x].map(b) }\nfunc b(x) { [x+1].filter(a) }\na(0)", "run", "raise", "callOp*1;callback*5001"},
	{"sorted-self", "func cmp(a, b) { sorted([a+1, b], cmp)\n return true }\ncmp(0, 0)", "run", "raise", "callOp*1;callback*5001"},
	{"each-self-on-thread", "func walk(x) { [x+1].each(walk) }\nspawn(walk, 0).wait()", "thread", "raise", "hostCall*1;callback*5001"},
	{"defer-self", "func w(x) { defer w(x+1)\n return 1 }\nw(0)", "run", "raise", "callOp*1;exitDefers,deferred*5001"},
	{"defer-pair", "func a(x) { defer b(x) }\nfunc b(x) { defer a(x+1) }\na(0)", "run", "raise", "callOp*1;exitDefers,deferred*5001"},
	{"defer-self-on-thread", "func w(x) { defer w(x+1) }\nspawn(w, 0).wait()", "thread", "raise", "hostCall*1;exitDefers,deferred*5001"},
	{"defer-then-call", "func a(x) { defer b(x) }\nfunc b(x) { a(x+1) }\na(0)", "run", "raise", "callOp*1;exitDefers,deferred,callOp*5001"},
	{"defer-in-loop", "func a(x) { defer len([x]) \n return x }\nfor i := range 3000 { a(i) }\n7", "run", "raise", "callOp,exitDefers,defersDone*3000"},
	// recursion through defer alone to a depth just below / at the call-depth limit: w(1023) opens
	// 1024 callFunction activations (allowed), w(1024) would open a 1025th
	{"defer-depth-1023", "func w(n) { if n <= 0 { return 0 }\n defer w(n-1) }\nw(1023)", "run", "raise", "callOp*1;exitDefers,deferred*1023"},
	{"defer-depth-1024", "func w(n) { if n <= 0 { return 0 }\n defer w(n-1) }\nw(1024)", "run", "raise", "callOp*1;exitDefers,deferred*1024"},
	{"defer-depth-1023-on-thread", "func w(n) { if n <= 0 { return 0 }\n defer w(n-1) }\nspawn(w, 1023).wait()", "thread", "raise", "hostCall*1;exitDefers,deferred*1023"},
	{"defer-depth-1024-on-thread", "func w(n) { if n <= 0 { return 0 }\n defer w(n-1) }\nspawn(w, 1024).wait()", "thread", "raise", "hostCall*1;exitDefers,deferred*1024"},
	// the counter is lowered on the error path as well: a recursion through defer to depth 1000 ends
	// with a raised error that try swallows, then the same VM runs one to the allowed depth 1023
	{"defer-error-then-allowed", "func e(n) { if n <= 0 { error(\"boom\") }\n defer e(n-1) }\nfunc w(n) { if n <= 0 { return 0 }\n defer w(n-1) }\ntry(func() { e(1000) })\nw(1023)", "run", "raise",
		"callback*1;callOp*1;exitDefers,deferred*1000;leave*1;defersDone*1000;leave*1;callOp*1;exitDefers,deferred*1023"},
	// deep but legitimate programs the call-depth limit must leave alone
	{"legit-chain-1000", "func f(n) { if n <= 0 { return 0 }\n return 1 + f(n-1) }\nf(1000)", "run", "raise", "callOp*1001;leave*1001"},
	{"legit-2000-defers-in-one-frame", "func g(x) { return x }\nfunc f() { for i := range 2000 { defer g(i) }\n return 1 }\nf()", "run", "raise", "callOp*1;exitDefers*1;deferred,leave*2000;defersDone*1"},
	{"legit-defer-inside-recursion-900", "func g(x) { return x }\nfunc f(n) { defer g(n)\n if n <= 0 { return 0 }\n return f(n-1) }\nf(900)", "run", "raise", "callOp*901;exitDefers,deferred,leave,defersDone*901"},
	{"legit-defer-inside-recursion-900-on-thread", "func g(x) { return x }\nfunc f(n) { defer g(n)\n if n <= 0 { return 0 }\n return f(n-1) }\nspawn(f, 900).wait()", "thread", "raise", "hostCall*1;callOp*900;exitDefers,deferred,leave,defersDone*901"},
}

func (c *c03Run) recursionCases(n int) {
	e := c.e
	rng := e.Rng.Fork()
	submit := func(kind, shape, entry, observe, src, ops string, rank int) {
		mode, how, mEntry := "script", "risor.Eval with risor.WithConcurrency()", "run"
		switch entry {
		case "call-entry":
			mode, how, mEntry = "call", "risor.Call(code, \"f\") with risor.WithConcurrency()", "call"
		case "spawn-wait", "go", "thread":
			mEntry = "thread"
		}
		key := fmt.Sprintf("recursion|%s|links=%s|entry=%s|%s|%s", kind, shape, entry, how, strconv.Quote(src))
		c.setRank(key, rank)
		rep := strings.Split(e.O.Ask("C03", "nest", mEntry, strconv.Itoa(c03NestLimit), ops), "\t")
		c.small.submit(c03Req{Mode: mode, Opt: "conc", Src: hex.EncodeToString([]byte(src)), N: 20000}, 90*time.Second, func(res c03Result) {
			e.R.H("recursion_links", shape)
			e.R.H("recursion_entry", entry)
			// no finding is attributed to a death in this stream since the repair of
			// C03-defer-recursion-stack-overflow: the model never says killed (C03_partial_native)
			c.judgeEntered(key, mEntry, "nest "+ops, observe, rep, "", res)
		})
	}
	for i, d := range c03RecDirected {
		entry := d.entry
		submit("directed:"+d.name, d.name, entry, d.observe, d.src, d.ops, 200000+i)
	}
	// the same inside module bodies: every import claims a frame and re-enters vm.eval as well
	chain := func(inner string) map[string]string {
		return map[string]string{"m0": "import m1\nv := 1\n", "m1": "import m2\nv := 2\n", "m2": inner}
	}
	for i, d := range []struct{ name, inner, ops string }{
		{"each-self-in-third-module", "func walk(x) { [x+1].each(walk) }\nwalk(0)\n", "importMod*3;callOp*1;callback*5001"},
		{"each-depth-1019-in-third-module", "func walk(x) { if x <= 0 { return 0 }\n [x-1].each(walk) }\nwalk(1019)\n", "importMod*3;callOp*1;callback*1019"},
		{"each-depth-1020-in-third-module", "func walk(x) { if x <= 0 { return 0 }\n [x-1].each(walk) }\nwalk(1020)\n", "importMod*3;callOp*1;callback*1020"},
		{"defer-self-in-third-module", "func w(x) { defer w(x+1) }\nw(0)\n", "importMod*3;callOp*1;exitDefers,deferred*5001"},
	} {
		d := d
		files := chain(d.inner)
		src := "import m0\nm0.v"
		key := fmt.Sprintf("recursion|directed:%s|entry=import chain m0 → m1 → m2|risor.Eval with risor.WithLocalImporter(dir), risor.WithConcurrency()|m2.risor=%s|%s", d.name, strconv.Quote(d.inner), strconv.Quote(src))
		c.setRank(key, 205000+i)
		rep := strings.Split(e.O.Ask("C03", "nest", "run", strconv.Itoa(c03NestLimit), d.ops), "\t")
		b, _ := json.Marshal(c03ImpReq{Files: files})
		c.small.submit(c03Req{Mode: "importscript", Opt: string(b), Src: hex.EncodeToString([]byte(src)), N: 20000}, 90*time.Second, func(res c03Result) {
			e.R.H("recursion_links", d.name)
			e.R.H("recursion_entry", "import-chain")
			c.judgeEntered(key, "run", "nest "+d.ops, "raise", rep, "", res)
		})
	}
	for i := 0; i < n; i++ {
		rc := c03GenRec(rng.Fork())
		observe := "raise"
		if rc.entry == "go" {
			observe = "none"
		}
		dk := "unbounded"
		if rc.depth >= 0 {
			dk = fmt.Sprintf("depth=%d", rc.depth)
		}
		e.R.H("recursion_depth", strings.SplitN(dk, "=", 2)[0])
		if rc.pureDefer {
			e.R.H("recursion_depth", "through defer alone: "+strings.SplitN(dk, "=", 2)[0])
		}
		submit(dk, rc.shape(), rc.entry, observe, rc.src, rc.ops, 210000+i)
	}
}

// ---------------------------------------------------------------- 2. importers

type c03ImpStep struct {
	Name string `json:"name"`
	Src  string `json:"src"`  // the module file's text before this call ("" with St "m": no file)
	St   string `json:"st"`   // m | b | g  (what the generator intends; the model's input)
	Ext  string `json:"ext"`  // .risor | .rsr
}

type c03ImpReq struct {
	Kind  string            `json:"kind"` // local | fs
	Steps []c03ImpStep      `json:"steps"`
	Conc  int               `json:"conc"`  // goroutines that re-import every name afterwards
	Files map[string]string `json:"files"` // importscript: name → text
}

var c03GoodModules = []string{
	"v := 1\n", "v := 2\nfunc f() { return v + 5 }\n", "const K = 3\nv := K * 2\nfunc g(x) { return [x].map(func(y) { return y + 1 }) }\n",
	"v := {\"a\": [1, 2]}\n", "func v() { return 0 }\n", "# only a comment\nv := nil\n", "v := [1, 2, 3].filter(func(x) { return x > 1 })\n",
}

var c03BadModules = []string{
	"v := (\n", "v := \"unterminated\n", "func f( {\n", "v := 1 +\n", "switch 1 {\ncase case:\n}", "v := `two\nlines` 1", "'{1 +}'", "v := 1 }",
	"v := undefined_thing\n", "const K = 1\nK = 2\n", "v := 1\nv := 2\nfunc f() { return w }\n", "break\n", "func f() { continue }\n", "x, y := \n", "import \"a//b\"\n", "v = 1\n",
	"99999999999999999999999\n",
}

var c03ImpNames = []string{"m0", "m1", "m2", "m3", "pkg/inner", "m_4"}

func c03GenImpSteps(r *RNG) []c03ImpStep {
	n := 1 + r.Intn(10)
	names := c03ImpNames[:2+r.Intn(len(c03ImpNames)-1)]
	var steps []c03ImpStep
	for i := 0; i < n; i++ {
		st := c03ImpStep{Name: Pick(r, names), Ext: ".risor"}
		if r.Chance(20) {
			st.Ext = ".rsr"
		}
		switch k := r.Intn(10); {
		case k < 4:
			st.St, st.Src = "g", Pick(r, c03GoodModules)
		case k < 8:
			st.St, st.Src = "b", Pick(r, c03BadModules)
		default:
			st.St = "m"
		}
		steps = append(steps, st)
	}
	return steps
}

func c03ImpModelSteps(steps []c03ImpStep) string {
	var ps []string
	for _, s := range steps {
		ps = append(ps, s.Name+":"+s.St)
	}
	if len(ps) == 0 {
		return "-"
	}
	return strings.Join(ps, ",")
}

// the simplest members of the class, so that a replay names one of them when they fail
var c03ImpDirected = [][]c03ImpStep{
	{{Name: "m0", St: "b", Src: "v := (\n", Ext: ".risor"}},
	{{Name: "m0", St: "b", Src: "v := undefined_thing\n", Ext: ".risor"}},
	{{Name: "m0", St: "m", Ext: ".risor"}},
	{{Name: "m0", St: "g", Src: "v := 1\n", Ext: ".risor"}},
	{{Name: "m0", St: "g", Src: "v := 1\n", Ext: ".risor"}, {Name: "m1", St: "b", Src: "const K = 1\nK = 2\n", Ext: ".risor"},
		{Name: "m0", St: "m", Ext: ".risor"}, {Name: "m1", St: "g", Src: "v := 2\n", Ext: ".risor"}, {Name: "m1", St: "b", Src: "v := (\n", Ext: ".risor"}},
}

func (c *c03Run) importerCases(n int) {
	e := c.e
	rng := e.Rng.Fork()
	nd := 2 * len(c03ImpDirected)
	for i := 0; i < nd+n; i++ {
		r := rng.Fork()
		var steps []c03ImpStep
		req := c03ImpReq{Kind: "local"}
		if i < nd {
			steps = c03ImpDirected[i/2]
			if i%2 == 1 {
				req.Kind = "fs"
			}
		} else {
			steps = c03GenImpSteps(r)
			if r.Chance(35) {
				req.Kind = "fs"
			}
			if r.Chance(40) {
				req.Conc = 2 + r.Intn(4)
			}
		}
		req.Steps = steps
		// the concurrent phase re-imports every name with the file as the sequence left it
		last := map[string]c03ImpStep{}
		var order []string
		for _, s := range steps {
			if _, ok := last[s.Name]; !ok {
				order = append(order, s.Name)
			}
			last[s.Name] = s
		}
		all := append([]c03ImpStep{}, steps...)
		if req.Conc > 0 {
			for _, nm := range order {
				all = append(all, last[nm])
			}
		}
		var shown []string
		for _, s := range steps {
			shown = append(shown, fmt.Sprintf("%s%s=%s", s.Name, s.Ext, strconv.Quote(s.Src)))
		}
		key := fmt.Sprintf("importer|%s|Import calls, the file rewritten before each: %s|then %d goroutines import every name", req.Kind, strings.Join(shown, " ; "), req.Conc)
		if i < nd {
			c.setRank(key, 300000+i)
		} else {
			c.setRank(key, 300100+1000*len(steps)+i%1000)
		}
		rep := strings.Split(e.O.Ask("C03", "importseq", c03ImpModelSteps(all)), "\t")
		b, _ := json.Marshal(req)
		c.pool.submit(c03Req{Mode: "importer", Opt: string(b)}, 60*time.Second, func(res c03Result) {
			e.R.Case(key, true)
			e.R.H("importer_kind", req.Kind)
			for _, s := range steps {
				e.R.H("importer_file_state", s.St)
			}
			if rep[0] != "ok" || len(rep) < 2 {
				// the model of the code as it is never ends in fatal / blocked (import_never_fatal)
				e.R.Mismatch(key, "n/a", strings.Join(rep, " "), "the importer model did not return results for this sequence")
				return
			}
			want := strings.Split(rep[1], ",")
			if res.Death != nil {
				e.R.H("importer_outcome", "died:"+res.Death.Kind)
				if res.Death.Kind == "timeout" {
					// an importer left locked blocks the next call for ever: not a timing matter when the
					// model says every call returns — but timing is never a verdict, so only a mismatch
					e.R.Mismatch(key, "no answer within 60 s", "ok "+rep[1], "every Import call returns (the mutex is free after each call: import_never_fatal)")
					return
				}
				e.R.Mismatch(key, "process terminated ("+res.Death.Kind+")", "ok "+rep[1], "outcome of a sequence of Import calls")
				c.threadDeathF(key, res.Death, "")
				return
			}
			got := strings.Split(res.Resp.Value, ",")
			seq, conc := got, []string{}
			if len(got) > len(steps) {
				seq, conc = got[:len(steps)], got[len(steps):]
			}
			e.R.H("importer_outcome", "returned")
			if res.Resp.Eval == "panic" {
				e.R.Spec(key, "a Go panic escaped Import: "+res.Resp.EvalMsg, "")
			}
			if strings.Join(seq, ",") != strings.Join(want[:min(len(steps), len(want))], ",") {
				e.R.Mismatch(key, strings.Join(seq, ","), strings.Join(want[:min(len(steps), len(want))], ","), "results of the Import calls (M = module, Enf = not found, Ebad = parse or compile error)")
			}
			for _, r := range seq {
				e.R.H("importer_result", r)
			}
			// concurrent phase: "<name>=<result>" per goroutine and name; caching is invisible, so
			// every goroutine must see what the sequential model sees for that name
			if req.Conc > 0 {
				exp := map[string]string{}
				for j, nm := range order {
					if len(steps)+j < len(want) {
						exp[nm] = want[len(steps)+j]
					}
				}
				for _, cr := range conc {
					kv := strings.SplitN(cr, "=", 2)
					if len(kv) != 2 {
						continue
					}
					e.R.H("importer_concurrent_result", kv[1])
					if exp[kv[0]] != kv[1] {
						e.R.Mismatch(key, "concurrent import of "+kv[0]+": "+kv[1], exp[kv[0]], "result of Import from several goroutines sharing the importer")
					}
				}
			}
		})
	}
}

// ---- scripts evaluated with risor.WithLocalImporter

type c03ModFile struct {
	name, src, st string // st: g | b | m
	imports        []int  // good modules only: indices of modules the body imports (larger indices: acyclic)
	raises         bool   // good module whose body raises an error when it runs
}

func (c *c03Run) importScriptCases(n int) {
	e := c.e
	rng := e.Rng.Fork()
	c.importScriptDirected()
	for i := 0; i < n; i++ {
		r := rng.Fork()
		nm := 2 + r.Intn(4)
		mods := make([]c03ModFile, nm)
		for j := range mods {
			mods[j].name = fmt.Sprintf("m%d", j)
			switch k := r.Intn(10); {
			case k < 4:
				mods[j].st, mods[j].src = "g", Pick(r, c03GoodModules)
				if j+1 < nm && r.Chance(40) {
					t := j + 1 + r.Intn(nm-j-1)
					mods[j].imports = []int{t}
					mods[j].src = fmt.Sprintf("import m%d\n", t) + mods[j].src
				}
				if r.Chance(10) {
					mods[j].raises = true
					mods[j].src += "error(\"raised while the module runs\")\n"
				}
			case k < 8:
				mods[j].st, mods[j].src = "b", Pick(r, c03BadModules)
			default:
				mods[j].st = "m"
			}
		}
		files := map[string]string{}
		for _, m := range mods {
			if m.st != "m" {
				files[m.name] = m.src
			}
		}
		// the Import calls the VM makes, given its own module cache (vm.modules), and whether
		// each step succeeds
		var calls []string
		cached := map[string]bool{} // importer's code cache, to predict results
		var imp func(vmMods map[int]bool, j int) bool
		imp = func(vmMods map[int]bool, j int) bool {
			if vmMods[j] {
				return true
			}
			m := mods[j]
			calls = append(calls, m.name+":"+m.st)
			if !(cached[m.name] || m.st == "g") {
				return false
			}
			cached[m.name] = true
			for _, t := range m.imports {
				if !imp(vmMods, t) {
					return false
				}
			}
			if m.raises {
				return false
			}
			vmMods[j] = true
			return true
		}
		vmMods := map[int]bool{}
		var sb strings.Builder
		var want []string
		sb.WriteString("r := []\n")
		ns := 1 + r.Intn(6)
		for s := 0; s < ns; s++ {
			j := r.Intn(nm)
			ok := false
			switch r.Intn(5) {
			case 0: // from-import: first tries the module m<j>/v (never there), then m<j> and its attribute v
				calls = append(calls, fmt.Sprintf("m%d/v:m", j))
				ok = imp(vmMods, j)
				fmt.Fprintf(&sb, "r.append(try(func() { from m%d import v\n return \"ok\" }, func(e) { return \"err\" }))\n", j)
			case 1: // on a spawned thread: the clone works on a copy of the VM's module table
				cp := map[int]bool{}
				for k, v := range vmMods {
					cp[k] = v
				}
				ok = imp(cp, j)
				fmt.Fprintf(&sb, "r.append(try(func() { return spawn(func() { import m%d\n return \"ok\" }).wait() }, func(e) { return \"err\" }))\n", j)
			case 2: // inside a function called through a builtin's callback
				ok = imp(vmMods, j)
				fmt.Fprintf(&sb, "[0].each(func(x) { r.append(try(func() { import m%d\n return \"ok\" }, func(e) { return \"err\" })) })\n", j)
			default:
				ok = imp(vmMods, j)
				fmt.Fprintf(&sb, "r.append(try(func() { import m%d\n return \"ok\" }, func(e) { return \"err\" }))\n", j)
			}
			if ok {
				want = append(want, "\"ok\"")
			} else {
				want = append(want, "\"err\"")
			}
		}
		unguarded := r.Chance(25)
		last := r.Intn(nm)
		lastOK := true
		if unguarded { // and one import nobody guards: its error must be Eval's error
			lastOK = imp(vmMods, last)
			fmt.Fprintf(&sb, "import m%d\n", last)
		}
		sb.WriteString("r")
		c.submitImportScript(400100+1000*len(calls)+i%1000, files, sb.String(), calls, "["+strings.Join(want, ", ")+"]", unguarded && !lastOK)
	}
}

// directed import scripts: files, script, the Import calls the VM makes, the expected value
// (""= the evaluation must end with an ordinary error)
var c03ImportDirected = []struct {
	files map[string]string
	src   string
	calls []string
	want  string
}{
	{map[string]string{"m0": "v := (\n"}, "import m0", []string{"m0:b"}, ""},
	{map[string]string{"m0": "v := undefined_thing\n"}, "import m0", []string{"m0:b"}, ""},
	{map[string]string{"m0": "v := (\n"}, "try(func() { import m0 }, func(e) { return \"err\" })", []string{"m0:b"}, "\"err\""},
	{map[string]string{"m0": "v := (\n"}, "from m0 import v", []string{"m0/v:m", "m0:b"}, ""},
	{map[string]string{"m0": "v := (\n"}, "t := spawn(func() { import m0 })\nt.wait()", []string{"m0:b"}, ""},
	{map[string]string{"m0": "import m1\nv := 1\n", "m1": "const K = 1\nK = 2\n"}, "import m0", []string{"m0:g", "m1:b"}, ""},
	{map[string]string{"m0": "v := 1\n", "m1": "v := (\n"}, "import m0\nx := try(func() { import m1 }, \"caught\")\nimport m0\n[x, m0.v]", []string{"m0:g", "m1:b"}, "[\"caught\", 1]"},
	{map[string]string{}, "import m0", []string{"m0:m"}, ""},
}

func (c *c03Run) importScriptDirected() {
	for i, d := range c03ImportDirected {
		c.submitImportScript(400000+i, d.files, d.src, d.calls, d.want, d.want == "")
	}
}

// submitImportScript: one script under risor.WithLocalImporter over `files`.  calls = the Import
// calls the VM makes (name:state); want = the value of the script; mustFail = the evaluation
// ends with an ordinary (not a Go panic) error instead.
func (c *c03Run) submitImportScript(rank int, files map[string]string, src string, calls []string, want string, mustFail bool) {
	e := c.e
	var fl []string
	for name, text := range files {
		fl = append(fl, name+".risor="+strconv.Quote(text))
	}
	sort.Strings(fl)
	key := fmt.Sprintf("import|risor.Eval with risor.WithLocalImporter(dir), risor.WithConcurrency()|files: %s|%s", strings.Join(fl, " ; "), strconv.Quote(src))
	c.setRank(key, rank)
	// the model's answer for that sequence of Import calls
	rep := strings.Split(e.O.Ask("C03", "importseq", strings.Join(calls, ",")), "\t")
	b, _ := json.Marshal(c03ImpReq{Files: files})
	c.pool.submit(c03Req{Mode: "importscript", Opt: string(b), Src: hex.EncodeToString([]byte(src)), N: 10000}, 60*time.Second, func(res c03Result) {
		e.R.Case(key, true)
		if rep[0] != "ok" || len(rep) < 2 {
			e.R.Mismatch(key, "n/a", strings.Join(rep, " "), "the importer model did not return results for the Import calls of this script")
			return
		}
		// the generator predicted each call's result from the file states; the model must agree
		mres := strings.Split(rep[1], ",")
		cachedG := map[string]bool{}
		for k, cl := range calls {
			nm, st := cl[:strings.LastIndexByte(cl, ':')], cl[strings.LastIndexByte(cl, ':')+1:]
			pred := map[string]string{"g": "M", "b": "Ebad", "m": "Enf"}[st]
			if cachedG[nm] {
				pred = "M"
			}
			if st == "g" {
				cachedG[nm] = true
			}
			if k < len(mres) && mres[k] != pred {
				e.R.Mismatch(key, "generator predicts "+pred+" for call "+cl, mres[k], "the harness's simulation of the VM's Import calls against the importer model")
			}
		}
		e.R.H("import_script_calls", fmt.Sprintf("%02d", min(len(calls), 20)))
		if res.Death != nil {
			e.R.H("import_script", "died:"+res.Death.Kind)
			if res.Death.Kind != "timeout" && res.Death.Kind != "memlimit" {
				e.R.Mismatch(key, "process terminated ("+res.Death.Kind+")", "ok "+rep[1], "outcome of a script that imports local modules")
			}
			c.threadDeathF(key, res.Death, "")
			return
		}
		rr := res.Resp
		e.R.H("import_script", rr.Eval)
		switch {
		case rr.Eval == "panic":
			e.R.Spec(key, "a Go panic escaped risor.Eval: "+rr.EvalMsg, "")
		case rr.Eval == "timeout":
			e.R.H("excluded", "no answer within the time limit (timing is never a verdict)")
		case mustFail:
			if rr.Eval != "err" || c03IsGoPanicMsg(rr.EvalMsg) {
				e.R.Mismatch(key, rr.Eval+" "+c03_short(rr.EvalMsg+rr.Value, 160), "err (an import nobody guards fails)", "outcome of the evaluation")
			}
		default:
			if rr.Eval != "ok" || rr.Value != want {
				e.R.Mismatch(key, rr.Eval+" "+c03_short(rr.EvalMsg+rr.Value, 160), "ok "+want, "value of the script (per-step ok / err as caught by try)")
			}
		}
	})
}

// ---------------------------------------------------------------- judging under an entry point

// threadDeathF is threadDeath with a finding the death is attributed to ("" = none).
func (c *c03Run) threadDeathF(key string, d *c03Death, finding string) {
	e := c.e
	e.R.H("child_deaths", d.Kind)
	switch d.Kind {
	case "timeout":
		e.R.H("excluded", "no answer within the time limit (timing is never a verdict)")
		e.R.Note("no verdict (timeout): %s", c03_short(key, 200))
		return
	case "memlimit":
		e.R.H("excluded", "memory exhausted by data size (child watchdog)")
		return
	}
	tail := d.Stderr
	if i := strings.Index(tail, "\n\n"); i > 0 {
		tail = tail[:i]
	}
	gor := ""
	if i := strings.Index(d.Stderr, "\ngoroutine "); i >= 0 {
		gor = d.Stderr[i+1:]
		if j := strings.IndexByte(gor, '\n'); j > 0 {
			gor = gor[:j]
		}
	}
	e.R.Spec(key, fmt.Sprintf("the embedding process was terminated by the Go runtime (%s, exit %d), which no recover() can prevent — %s | %s",
		d.Kind, d.Exit, c03_short(strings.TrimSpace(tail), 300), gor), finding)
}

// judgeEntered compares one case with a model reply `value | error <why> | raised <why> |
// killed <why>` already obtained (what the body does under that entry point; error = a Go panic
// that came back as `panic: …`, raised = the ordinary evaluation error `… max call depth of 1024
// exceeded` of vm.callFunction).  finding: the known finding a death is attributed to when the
// MODEL says killed too and the child died of stack exhaustion.
func (c *c03Run) judgeEntered(key, entry, body, observe string, rep []string, finding string, res c03Result) {
	e := c.e
	e.R.Case(key, true)
	model := rep[0]
	if model != "value" && model != "error" && model != "raised" && model != "killed" {
		e.R.Mismatch(key, body, strings.Join(rep, " "), "oracle refused the request")
		return
	}
	goOut, msg := "", ""
	switch {
	case res.Death != nil && (res.Death.Kind == "timeout" || res.Death.Kind == "memlimit"):
		c.threadDeathF(key, res.Death, "")
		return
	case res.Death != nil:
		goOut, msg = "killed", res.Death.Kind
	default:
		r := res.Resp
		msg = r.EvalMsg
		switch {
		case r.Eval == "timeout":
			e.R.H("excluded", "no answer within the time limit (timing is never a verdict)")
			return
		case r.Eval == "panic":
			goOut = "escaped"
		case strings.Contains(r.EvalMsg, "did not contain a spawn function") || r.Compile == "err":
			goOut = "not-run"
			msg = r.EvalMsg + r.CompMsg
		case observe == "raise" && r.Eval == "err" && c03IsGoPanicMsg(r.EvalMsg):
			goOut = "error"
		case observe == "raise" && r.Eval == "err" && strings.Contains(r.EvalMsg, "max call depth of 1024 exceeded"):
			goOut = "raised"
		case observe == "raise" && r.Eval == "err":
			goOut = "other-error"
		case observe == "none":
			goOut = "alive"
		default:
			goOut = "value"
		}
	}
	want := model
	if observe == "none" && model != "killed" {
		want = "alive"
	}
	// `raised`: vm.callFunction RETURNED the max-call-depth error.  It is an errz.EvalError, which
	// `try` hands on — unless a builtin in between (call, …) has re-created it as a plain error
	// from its text.  What a script's own `try` does with an ordinary error is the script's
	// semantics, not modelled here: the evaluation may then end with a value.
	if model == "raised" && goOut == "value" && strings.Contains(key, "try(") {
		e.R.H("entered_outcome", entry+" nest: the max-call-depth error was handled by the script's own try (accepted)")
		want = "value"
	}
	e.R.H("entered_outcome", entry+" "+strings.SplitN(body, " ", 2)[0]+" observe="+observe+": "+goOut)
	if goOut == "killed" {
		f := ""
		if model == "killed" && res.Death.Kind == "stack-overflow" {
			f = finding
		}
		c.threadDeathF(key, res.Death, f)
	}
	if goOut == "escaped" {
		e.R.Spec(key, "a Go panic escaped the embedding API into the host's goroutine: "+msg, "")
	}
	if goOut != want {
		e.R.Mismatch(key, goOut+" "+c03_short(msg, 160), strings.Join(rep, " "),
			"outcome under an entry point (value = returned, error = the Go panic came back as an error `panic: …`, raised = the evaluation error `max call depth of 1024 exceeded`, killed = process terminated)")
	}
}

// ================================================================ child side

// c03RunImporter: Import calls on a real importer over a scratch directory.
func c03RunImporter(opt string) (resp c03Resp) {
	var req c03ImpReq
	if err := json.Unmarshal([]byte(opt), &req); err != nil {
		resp.Eval, resp.EvalMsg = "err", "bad request: "+err.Error()
		return
	}
	dir, err := os.MkdirTemp("", "c03imp")
	if err != nil {
		resp.Eval, resp.EvalMsg = "err", "no scratch directory: "+err.Error()
		return
	}
	defer os.RemoveAll(dir)
	var imp importer.Importer
	if req.Kind == "fs" {
		imp = importer.NewFSImporter(importer.FSImporterOptions{SourceFS: os.DirFS(dir)})
	} else {
		imp = importer.NewLocalImporter(importer.LocalImporterOptions{SourceDir: dir})
	}
	ctx, cancel := context.WithTimeout(context.Background(), 30*time.Second)
	defer cancel()
	one := func(name string) (out string) {
		defer func() {
			if r := recover(); r != nil {
				out = "P"
				resp.Eval, resp.EvalMsg = "panic", c03_short(fmt.Sprint(r), 300)
			}
		}()
		m, err := imp.Import(ctx, name)
		switch {
		case err == nil && m != nil:
			return "M"
		case err == nil:
			return "nil"
		case strings.HasPrefix(err.Error(), "import error: module"):
			return "Enf"
		default:
			_ = err.Error()
			return "Ebad"
		}
	}
	set := func(s c03ImpStep) {
		for _, ext := range []string{".risor", ".rsr"} {
			os.Remove(filepath.Join(dir, s.Name+ext))
		}
		if s.St == "m" {
			return
		}
		p := filepath.Join(dir, s.Name+s.Ext)
		os.MkdirAll(filepath.Dir(p), 0o755)
		os.WriteFile(p, []byte(s.Src), 0o644)
	}
	resp.Eval = "ok"
	var out []string
	var names []string
	seen := map[string]bool{}
	for _, s := range req.Steps {
		set(s)
		out = append(out, one(s.Name))
		if !seen[s.Name] {
			seen[s.Name] = true
			names = append(names, s.Name)
		}
	}
	if req.Conc > 0 {
		var mu sync.Mutex
		var wg sync.WaitGroup
		for g := 0; g < req.Conc; g++ {
			wg.Add(1)
			go func(g int) {
				defer wg.Done()
				for k := range names {
					nm := names[(k+g)%len(names)]
					r := one(nm)
					mu.Lock()
					out = append(out, nm+"="+r)
					mu.Unlock()
				}
			}(g)
		}
		wg.Wait()
	}
	resp.Value = strings.Join(out, ",")
	return
}

// c03RunImportScript: risor.Eval with a local importer over a scratch directory of module files.
func c03RunImportScript(opt, src string, ms int) (resp c03Resp) {
	var req c03ImpReq
	if err := json.Unmarshal([]byte(opt), &req); err != nil {
		resp.Eval, resp.EvalMsg = "err", "bad request: "+err.Error()
		return
	}
	dir, err := os.MkdirTemp("", "c03mods")
	if err != nil {
		resp.Eval, resp.EvalMsg = "err", "no scratch directory: "+err.Error()
		return
	}
	defer os.RemoveAll(dir)
	for name, text := range req.Files {
		p := filepath.Join(dir, name+".risor")
		os.MkdirAll(filepath.Dir(p), 0o755)
		os.WriteFile(p, []byte(text), 0o644)
	}
	if ms <= 0 {
		ms = 5000
	}
	resp.Parse = "n/a"
	base := runtime.NumGoroutine()
	c03EvalOut(&resp, EvalSrc(src, time.Duration(ms)*time.Millisecond, risor.WithLocalImporter(dir), risor.WithConcurrency()))
	resp.Left = c03Drain(base)
	return
}

var _ = object.Nil
