package main

// C10, part G — spawned BUILTINS and bound methods that call back into script code.
//
// `items.map.spawn(f)`, `spawn(items.each, f)`, `go items.filter(f)`, sorted with a comparison
// function, call(), try(): the spawned callable is Go code, but it runs script code (its
// callbacks) through the context's call function.  The model (RisorModel/C10, `VMs`:
// `threads_have_distinct_vms`, `vm_moved_by_own_thread_only`; contrast
// `shared_vm_variant_derails_spawner`) says that a spawned callable of ANY kind gets a VM of
// its own, so those callbacks never touch the spawner's frames.  Each generated scenario
//   * spawns 1..3 such callables (all three spawn forms) whose callbacks feed one channel,
//     while the SPAWNER (the main program, or a spawned coordinator function) is executing
//     script code: it consumes that channel, keeps sums of its own, then waits;
//   * is run for real in a CHILD process (a VM entered by two goroutines can die with an
//     unrecoverable Go fault; the parent then reports the scenario that was running);
//   * is judged: every value exactly once and in order per sender (`C10 hist`), the
//     spawner's own computation (recomputed from its log), wait() == the callable's result
//     (the same call made synchronously), the script reaches its end; the VM each thread's
//     script code ran on (read from the context the host builtins are handed) is compared
//     with the model's assignment (`C10 vms`): no two threads share a VM.

import (
	"bufio"
	"bytes"
	"context"
	"encoding/json"
	"fmt"
	"os"
	"os/exec"
	"path/filepath"
	"runtime"
	"strconv"
	"strings"
	"sync"
	"time"
	"unsafe"

	"github.com/risor-io/risor"
	"github.com/risor-io/risor/object"
)

func init() { childCommands["C10-child"] = c10BChild }

type c10BThread struct {
	Kind string `json:"kind"` // map | map2 | each | filter | sorted | call | try
	Form string `json:"form"` // spawn | bspawn | go
	N    int    `json:"n"`    // items (map/each/filter/sorted) or loop count (call/try)
	M    int    `json:"m"`    // values its callbacks send
}

type c10BScn struct {
	ID       int          `json:"id"`
	Cap      int          `json:"cap"`
	Procs    int          `json:"procs"`
	Nested   bool         `json:"nested"`   // the spawner is itself a spawned function
	Method   bool         `json:"method"`   // the spawner receives with out.receive() instead of <-out
	Consumer int          `json:"consumer"` // values taken by an extra consumer thread (0 = none)
	Threads  []c10BThread `json:"threads"`
	Salt     int          `json:"salt"`
}

func (s *c10BScn) total() int {
	t := 0
	for _, th := range s.Threads {
		t += th.M
	}
	return t
}

func (s *c10BScn) key() string {
	var ts []string
	for _, t := range s.Threads {
		ts = append(ts, fmt.Sprintf("%s/%s n=%d sends=%d", t.Kind, t.Form, t.N, t.M))
	}
	return fmt.Sprintf("spawned-builtin cap=%d procs=%d spawner=%s receive=%s extra-consumer=%d salt=%d callables=[%s]",
		s.Cap, s.Procs, map[bool]string{false: "main", true: "spawned coordinator"}[s.Nested], map[bool]string{false: "<-out", true: "out.receive()"}[s.Method], s.Consumer, s.Salt, strings.Join(ts, "; "))
}

func c10BIsMethod(kind string) bool {
	return kind == "map" || kind == "map2" || kind == "each" || kind == "filter"
}

// items of thread i: 0..n-1 (map/each/filter: the value is the sequence number); sorted gets a permutation
func c10BItems(s *c10BScn, i int) string {
	t := s.Threads[i]
	xs := make([]string, t.N)
	for k := 0; k < t.N; k++ {
		v := k
		if t.Kind == "sorted" {
			v = (k*7 + s.Salt + i) % t.N // a permutation when gcd(7, n) = 1; otherwise repeats, still fine for sorting
			if t.N%7 == 0 {
				v = (k*3 + s.Salt) % t.N
			}
		}
		xs[k] = strconv.Itoa(v)
	}
	return "[" + strings.Join(xs, ", ") + "]"
}

func (s *c10BScn) script() string {
	var b strings.Builder
	ind := ""
	if s.Nested {
		ind = "  "
	}
	w := func(format string, a ...any) { fmt.Fprintf(&b, ind+format+"\n", a...) }
	fmt.Fprintf(&b, "func dbl(x) { return 2 * x }\n")
	if s.Nested {
		fmt.Fprintf(&b, "func coord() {\n")
	}
	w("out := chan(%d)", s.Cap)
	spawner := 99
	w("vmtag(%d)", spawner)
	var wants []string
	for i, t := range s.Threads {
		base := i * 100000
		var target, args, want string
		switch t.Kind {
		case "map":
			w("items%d := %s", i, c10BItems(s, i))
			w("cb%d := func(x) {\n%s  vmtag(%d)\n%s  m := %d + x\n%s  out <- m\n%s  return dbl(x) + %d\n%s}", i, ind, i, ind, base, ind, ind, i, ind)
			target, args = fmt.Sprintf("items%d.map", i), fmt.Sprintf("cb%d", i)
			want = fmt.Sprintf("items%d.map(func(x) { return dbl(x) + %d })", i, i)
		case "map2":
			w("items%d := %s", i, c10BItems(s, i))
			w("cb%d := func(i, x) {\n%s  vmtag(%d)\n%s  out.send(%d + i)\n%s  return x * 3 + i\n%s}", i, ind, i, ind, base, ind, ind)
			target, args = fmt.Sprintf("items%d.map", i), fmt.Sprintf("cb%d", i)
			want = fmt.Sprintf("items%d.map(func(i, x) { return x * 3 + i })", i)
		case "each":
			w("items%d := %s", i, c10BItems(s, i))
			w("cb%d := func(x) {\n%s  vmtag(%d)\n%s  m := %d + x\n%s  out <- m\n%s}", i, ind, i, ind, base, ind, ind)
			target, args = fmt.Sprintf("items%d.each", i), fmt.Sprintf("cb%d", i)
			want = "nil"
		case "filter":
			w("items%d := %s", i, c10BItems(s, i))
			w("cb%d := func(x) {\n%s  vmtag(%d)\n%s  out.send(%d + x)\n%s  return x %% 3 != 1\n%s}", i, ind, i, ind, base, ind, ind)
			target, args = fmt.Sprintf("items%d.filter", i), fmt.Sprintf("cb%d", i)
			want = fmt.Sprintf("items%d.filter(func(x) { return x %% 3 != 1 })", i)
		case "sorted":
			w("items%d := %s", i, c10BItems(s, i))
			w("cnt%d := 0", i)
			w("cb%d := func(a, b) {\n%s  vmtag(%d)\n%s  if cnt%d < %d {\n%s    m := %d + cnt%d\n%s    cnt%d = cnt%d + 1\n%s    out <- m\n%s  }\n%s  return a < b\n%s}",
				i, ind, i, ind, i, t.M, ind, base, i, ind, i, i, ind, ind, ind, ind)
			target, args = "sorted", fmt.Sprintf("items%d, cb%d", i, i)
			want = fmt.Sprintf("sorted(items%d)", i)
		case "call":
			w("cb%d := func(n) {\n%s  vmtag(%d)\n%s  for k := 0; k < n; k++ {\n%s    m := %d + k\n%s    out <- m\n%s  }\n%s  return n * 7 + %d\n%s}", i, ind, i, ind, ind, base, ind, ind, ind, i, ind)
			target, args = "call", fmt.Sprintf("cb%d, %d", i, t.N)
			want = strconv.Itoa(t.N*7 + i)
		default: // try: the first function raises half-way, the handler sends the rest
			half := t.N / 2
			w("cb%d := func() {\n%s  vmtag(%d)\n%s  for k := 0; k < %d; k++ { out.send(%d + k) }\n%s  error(\"E%d\")\n%s}", i, ind, i, ind, half, base, ind, i, ind)
			w("hd%d := func(e) {\n%s  vmtag(%d)\n%s  for k := %d; k < %d; k++ {\n%s    m := %d + k\n%s    out <- m\n%s  }\n%s  return string(e) + \"/%d\"\n%s}", i, ind, i, ind, half, t.N, ind, base, ind, ind, ind, i, ind)
			target, args = "try", fmt.Sprintf("cb%d, hd%d", i, i)
			want = fmt.Sprintf("%q", fmt.Sprintf("E%d/%d", i, i))
		}
		wants = append(wants, want)
		switch t.Form {
		case "spawn":
			w("t%d := spawn(%s, %s)", i, target, args)
		case "bspawn":
			w("t%d := %s.spawn(%s)", i, target, args)
		default:
			w("go %s(%s)", target, args)
		}
	}
	if s.Consumer > 0 {
		w("consumer := func(q) {\n%s  vmtag(90)\n%s  s := 0\n%s  for i := 0; i < q; i++ {\n%s    v := out.receive()\n%s    rec(1, v)\n%s    s += v %% 100000\n%s  }\n%s  return s\n%s}", ind, ind, ind, ind, ind, ind, ind, ind, ind)
		w("tc := spawn(consumer, %d)", s.Consumer)
	}
	// the spawner's own program: consume, compute
	recv := "<-out"
	if s.Method {
		recv = "out.receive()"
	}
	w("sum := 0")
	w("acc := 0")
	w("for i := 0; i < %d; i++ {", s.total()-s.Consumer)
	w("  v := %s", recv)
	w("  vmtag(%d)", spawner)
	w("  rec(0, v)")
	w("  sum += dbl(v %% 100000)")
	w("  acc = (acc * 31 + v %% 7) %% 1000003")
	w("  for j := 0; j < 3; j++ { acc = (acc + j * sum) %% 1000003 }")
	w("}")
	w("own(sum, acc)")
	for i, t := range s.Threads {
		if t.Form != "go" {
			w("res%d := t%d.wait()", i, i)
		}
	}
	if s.Consumer > 0 {
		w("csum(tc.wait())")
	}
	// the same calls made synchronously (pure callbacks) say what wait() must have returned
	for i, t := range s.Threads {
		if t.Form != "go" {
			w("result(%d, res%d, %s)", i, i, wants[i])
		}
	}
	w("vmtag(%d)", spawner)
	if s.Nested {
		w("return \"coord-end\"")
		fmt.Fprintf(&b, "}\nvmtag(98)\ntk := spawn(coord)\ncoordres(tk.wait())\nvmtag(98)\n")
	}
	fmt.Fprintf(&b, "\"end\"\n")
	return b.String()
}

// model schedule of the VM machine: thread numbers in spawn order
func (s *c10BScn) vmOps() (ops []string, tags []int) {
	p := 0
	tags = []int{99}
	if s.Nested {
		ops = append(ops, "sp:0:f")
		p = 1
		tags = []int{98, 99}
	}
	first := len(tags)
	for i, t := range s.Threads {
		k := "b"
		if c10BIsMethod(t.Kind) {
			k = "m"
		}
		ops = append(ops, fmt.Sprintf("sp:%d:%s", p, k))
		tags = append(tags, i)
	}
	if s.Consumer > 0 {
		ops = append(ops, fmt.Sprintf("sp:%d:f", p))
		tags = append(tags, 90)
	}
	// script steps, round robin: every callback, every receive of the spawner
	left := make([]int, len(tags))
	left[p] = s.total() - s.Consumer
	for i, t := range s.Threads {
		left[first+i] = t.M
	}
	if s.Consumer > 0 {
		left[len(left)-1] = s.Consumer
	}
	for more := true; more; {
		more = false
		for t := range left {
			if left[t] > 0 {
				left[t]--
				ops = append(ops, fmt.Sprintf("x:%d", t))
				more = true
			}
		}
	}
	return ops, tags
}

func c10GenBScn(rng *RNG, id int) *c10BScn {
	s := &c10BScn{ID: id, Cap: rng.Intn(5), Procs: Pick(rng, []int{1, 2, 4, 16}), Nested: rng.Chance(25), Method: rng.Chance(30), Salt: rng.Intn(1000)}
	if rng.Chance(40) {
		s.Cap = 0
	}
	nt := 1 + rng.Intn(3)
	if rng.Chance(40) {
		nt = 1
	}
	oneForm := ""
	if rng.Chance(40) {
		oneForm = Pick(rng, []string{"spawn", "bspawn", "go"})
	}
	for i := 0; i < nt; i++ {
		t := c10BThread{Kind: Pick(rng, []string{"map", "map", "map2", "each", "each", "filter", "sorted", "call", "try"}), Form: oneForm}
		if t.Form == "" {
			t.Form = Pick(rng, []string{"spawn", "bspawn", "go"})
		}
		t.N = 3 + rng.Intn(38)
		if rng.Chance(15) {
			t.N = 100 + rng.Intn(200)
		}
		t.M = t.N
		if t.Kind == "sorted" {
			t.M = 1 + rng.Intn(t.N-1) // a stable sort of n items compares at least n-1 times
		}
		s.Threads = append(s.Threads, t)
	}
	if rng.Chance(30) && s.total() >= 4 {
		s.Consumer = 1 + rng.Intn(s.total()/2)
	}
	return s
}

// ---------------------------------------------------------------------------------------
// child: runs the scenarios of a job file, one result line per scenario

type c10BRes struct {
	ID       int                 `json:"id"`
	Finished bool                `json:"finished"`
	Err      string              `json:"err"`
	Result   string              `json:"result"`
	Logs     [][]int64           `json:"logs"`
	VMs      map[string][]int    `json:"vms"`   // tag -> indices (first-seen order, per scenario) of the VMs its script code ran on
	Waits    map[string][]string `json:"waits"` // thread -> [wait() result, synchronous result]
	Own      []string            `json:"own"`
	CSum     string              `json:"csum"`
	CoordRes string              `json:"coordres"`
}

// c10VMOf reads which VM the call function of a context belongs to: the context carries the
// method value vm.callFunction, a closure {code pointer, receiver}.
func c10VMOf(ctx context.Context) uintptr {
	cf, ok := object.GetCallFunc(ctx)
	if !ok || cf == nil {
		return 0
	}
	p := *(*unsafe.Pointer)(unsafe.Pointer(&cf))
	if p == nil {
		return 0
	}
	return *(*uintptr)(unsafe.Add(p, unsafe.Sizeof(uintptr(0))))
}

func c10BRunOne(s *c10BScn, src string) c10BRes {
	res := c10BRes{ID: s.ID, Logs: [][]int64{{}, {}}, VMs: map[string][]int{}, Waits: map[string][]string{}}
	var mu sync.Mutex
	vmIndex := map[uintptr]int{}
	var keep []context.Context // keeps every VM seen alive: an address is never reused within a scenario
	globals := map[string]any{
		"vmtag": object.NewBuiltin("vmtag", func(ctx context.Context, args ...object.Object) object.Object {
			tag := strconv.FormatInt(args[0].(*object.Int).Value(), 10)
			vm := c10VMOf(ctx)
			mu.Lock()
			defer mu.Unlock()
			idx, ok := vmIndex[vm]
			if !ok {
				idx = len(vmIndex)
				vmIndex[vm] = idx
				keep = append(keep, ctx)
			}
			for _, x := range res.VMs[tag] {
				if x == idx {
					return object.Nil
				}
			}
			res.VMs[tag] = append(res.VMs[tag], idx)
			return object.Nil
		}),
		// each receiver appends to its own log only
		"rec": object.NewBuiltin("rec", func(ctx context.Context, args ...object.Object) object.Object {
			id := int(args[0].(*object.Int).Value())
			v := int64(-1)
			if x, ok := args[1].(*object.Int); ok {
				v = x.Value()
			}
			res.Logs[id] = append(res.Logs[id], v)
			return object.Nil
		}),
		"own": object.NewBuiltin("own", func(ctx context.Context, args ...object.Object) object.Object {
			mu.Lock()
			defer mu.Unlock()
			for _, a := range args {
				res.Own = append(res.Own, a.Inspect())
			}
			return object.Nil
		}),
		"result": object.NewBuiltin("result", func(ctx context.Context, args ...object.Object) object.Object {
			mu.Lock()
			defer mu.Unlock()
			res.Waits[args[0].Inspect()] = []string{args[1].Inspect(), args[2].Inspect()}
			return object.Nil
		}),
		"csum": object.NewBuiltin("csum", func(ctx context.Context, args ...object.Object) object.Object {
			mu.Lock()
			defer mu.Unlock()
			res.CSum = args[0].Inspect()
			return object.Nil
		}),
		"coordres": object.NewBuiltin("coordres", func(ctx context.Context, args ...object.Object) object.Object {
			mu.Lock()
			defer mu.Unlock()
			res.CoordRes = args[0].Inspect()
			return object.Nil
		}),
	}
	runtime.GOMAXPROCS(s.Procs)
	ctx, cancel := context.WithTimeout(context.Background(), c10Wait)
	var err error
	var out object.Object
	res.Finished = c10_withWatch(func() {
		defer func() {
			if r := recover(); r != nil {
				err = fmt.Errorf("panic: %v", r)
			}
		}()
		out, err = risor.Eval(ctx, src, risor.WithConcurrency(), risor.WithGlobals(globals))
	})
	cancel()
	mu.Lock()
	defer mu.Unlock()
	if err != nil {
		res.Err = err.Error()
	}
	if res.Finished && out != nil {
		res.Result = out.Inspect()
	}
	// a copy: threads that are still running (a run that did not complete) keep appending
	cp := c10BRes{ID: res.ID, Finished: res.Finished, Err: res.Err, Result: res.Result, VMs: map[string][]int{}, Waits: map[string][]string{},
		Own: append([]string{}, res.Own...), CSum: res.CSum, CoordRes: res.CoordRes}
	for _, l := range res.Logs {
		cp.Logs = append(cp.Logs, append([]int64{}, l...))
	}
	for k, v := range res.VMs {
		cp.VMs[k] = append([]int{}, v...)
	}
	for k, v := range res.Waits {
		cp.Waits[k] = v
	}
	_ = keep
	return cp
}

// calibration of c10VMOf on spawned compiled FUNCTIONS: the main program reads the same VM
// twice, a spawned function reads another one
func c10BCalibrate() bool {
	s := &c10BScn{ID: -1, Procs: 2}
	r := c10BRunOne(s, "vmtag(98)\nvmtag(98)\nf := func() { vmtag(1); vmtag(1) }\nt := spawn(f)\nt.wait()\nvmtag(98)\ng := func() { vmtag(2) }\nu := g.spawn()\nu.wait()\n\"end\"\n")
	a, b, c := r.VMs["98"], r.VMs["1"], r.VMs["2"]
	return r.Finished && r.Err == "" && len(a) == 1 && len(b) == 1 && len(c) == 1 && a[0] != b[0] && a[0] != c[0] && b[0] != c[0]
}

type c10BJob struct {
	Scns    []*c10BScn `json:"scns"`
	BudgetS int        `json:"budget_s"` // the child stops starting scenarios after this many seconds
}

// child: harness C10-child <job.json>
//
//	stdout: CAL <true|false> ; then per scenario BEGIN <id> / RES <json>
func c10BChild(args []string) {
	if len(args) < 1 {
		os.Exit(2)
	}
	raw, err := os.ReadFile(args[0])
	if err != nil {
		fmt.Fprintln(os.Stderr, err)
		os.Exit(2)
	}
	var job c10BJob
	if err := json.Unmarshal(raw, &job); err != nil {
		fmt.Fprintln(os.Stderr, err)
		os.Exit(2)
	}
	w := bufio.NewWriter(os.Stdout)
	fmt.Fprintf(w, "CAL %v\n", c10BCalibrate())
	w.Flush()
	incomplete, derailed := 0, 0
	start := time.Now()
	for _, s := range job.Scns {
		fmt.Fprintf(w, "BEGIN %d\n", s.ID)
		w.Flush()
		r := c10BRunOne(s, s.script())
		js, _ := json.Marshal(r)
		fmt.Fprintf(w, "RES %s\n", js)
		w.Flush()
		// a run that went wrong may leave goroutines behind that spin or sit on a VM somebody else
		// uses: stop early rather than run the remaining scenarios in a damaged process
		if !r.Finished {
			incomplete++
		} else if r.Err != "" || r.Result != `"end"` {
			derailed++
		}
		if incomplete >= 2 || derailed >= 5 || (job.BudgetS > 0 && time.Since(start) > time.Duration(job.BudgetS)*time.Second) {
			fmt.Fprintf(w, "STOP incomplete=%d did-not-reach-the-end=%d after %.0fs\n", incomplete, derailed, time.Since(start).Seconds())
			w.Flush()
			break
		}
	}
}

// ---------------------------------------------------------------------------------------
// parent

func c10BRunChild(e *Env, scns []*c10BScn, budget time.Duration) (cal bool, results map[int]c10BRes, died int, diedMsg string, stopped string) {
	results = map[int]c10BRes{}
	died = -1
	self, err := os.Executable()
	if err != nil {
		return false, results, -1, "os.Executable: " + err.Error(), "no child"
	}
	jf := filepath.Join(os.TempDir(), fmt.Sprintf("c10-job-%d-%d.json", os.Getpid(), scns[0].ID))
	js, _ := json.Marshal(c10BJob{Scns: scns, BudgetS: int(budget.Seconds())})
	if err := os.WriteFile(jf, js, 0o644); err != nil {
		return false, results, -1, "job file: " + err.Error(), "no child"
	}
	defer os.Remove(jf)
	// the child stops by itself at the budget; the kill is a backstop (one hung scenario more)
	ctx, cancel := context.WithTimeout(context.Background(), budget+2*c10Wait+10*time.Second)
	defer cancel()
	cmd := exec.CommandContext(ctx, self, "C10-child", jf)
	var so, se bytes.Buffer
	cmd.Stdout, cmd.Stderr = &so, &se
	runErr := cmd.Run()
	begun := -1
	for _, line := range strings.Split(so.String(), "\n") {
		switch {
		case strings.HasPrefix(line, "CAL "):
			cal = strings.TrimSpace(line[4:]) == "true"
		case strings.HasPrefix(line, "BEGIN "):
			begun, _ = strconv.Atoi(strings.TrimSpace(line[6:]))
		case strings.HasPrefix(line, "RES "):
			var r c10BRes
			if json.Unmarshal([]byte(line[4:]), &r) == nil {
				results[r.ID] = r
				if r.ID == begun {
					begun = -1
				}
			}
		case strings.HasPrefix(line, "STOP"):
			stopped = line
		}
	}
	if runErr != nil && ctx.Err() != nil {
		return cal, results, -1, "", "STOP the child process was still running at the end of its time budget and was killed"
	}
	if runErr != nil {
		died = begun
		msg := se.String()
		// the first lines of a Go fault say what happened
		var head []string
		for _, l := range strings.Split(msg, "\n") {
			if strings.TrimSpace(l) != "" {
				head = append(head, strings.TrimSpace(l))
			}
			if len(head) >= 6 {
				break
			}
		}
		diedMsg = fmt.Sprintf("%v: %s", runErr, strings.Join(head, " | "))
	}
	return cal, results, died, diedMsg, stopped
}

func c10SpawnBuiltins(e *Env) {
	rng := e.Rng.Fork()
	n := 300
	if !e.Quick {
		n = 6000
	}
	var scns []*c10BScn
	// directed: one callable per kind and spawn form, unbuffered channel (spawner and callback
	// are both executing script code at every hand-off), the main program as the spawner
	for _, kind := range []string{"map", "each", "filter", "map2", "sorted", "call", "try"} {
		for _, form := range []string{"bspawn", "spawn", "go"} {
			t := c10BThread{Kind: kind, Form: form, N: 30, M: 30}
			if kind == "sorted" {
				t.M = 20
			}
			scns = append(scns, &c10BScn{ID: len(scns), Cap: 0, Procs: 4, Threads: []c10BThread{t}, Salt: 3})
		}
	}
	for len(scns) < n {
		scns = append(scns, c10GenBScn(rng, len(scns)))
	}
	// the model's VM assignment and the judge's requests are batched after the runs
	budget := 60 * time.Second
	if !e.Quick {
		budget = 15 * time.Minute
	}
	results := map[int]c10BRes{}
	diedAt := map[int]string{}
	calibrated := true
	rest := scns
	for attempt := 0; attempt < 3 && len(rest) > 0; attempt++ {
		cal, rs, died, msg, stopped := c10BRunChild(e, rest, budget)
		if attempt == 0 {
			calibrated = cal
		}
		for id, r := range rs {
			results[id] = r
		}
		if died < 0 && msg != "" && len(rs) == 0 {
			e.R.Note("spawned-builtin scenarios: the child process could not be run (%s)", msg)
			e.R.Mismatch("spawned-builtin child process", msg, "-", "harness child process failed to start")
			return
		}
		if died >= 0 {
			diedAt[died] = msg
		}
		if stopped != "" || died < 0 {
			if stopped != "" {
				e.R.Note("spawned-builtin scenarios stopped early: %s", stopped)
			}
			break
		}
		// continue after the scenario that killed the child
		next := rest[:0:0]
		for _, s := range rest {
			if s.ID > died {
				next = append(next, s)
			}
		}
		rest = next
	}
	if !calibrated {
		e.R.Note("the VM of a context could not be read on this toolchain (calibration on spawned functions failed): VM identities are not compared, behaviour only")
	}
	// model: VM assignment per scenario; judge: histories
	var vmReqs, histReqs []string
	var order []*c10BScn
	for _, s := range scns {
		_, ran := results[s.ID]
		_, dead := diedAt[s.ID]
		if !ran && !dead {
			continue
		}
		order = append(order, s)
		ops, _ := s.vmOps()
		vmReqs = append(vmReqs, "C10\tvms\t"+strings.Join(ops, ","))
		if ran {
			r := results[s.ID]
			counts := make([]string, len(s.Threads))
			for i, t := range s.Threads {
				counts[i] = strconv.Itoa(t.M)
			}
			logs := make([]string, 2)
			for j := 0; j < 2; j++ {
				var p []string
				if j < len(r.Logs) {
					for _, v := range r.Logs[j] {
						if v < 0 {
							p = append(p, "9:0")
						} else {
							p = append(p, fmt.Sprintf("%d:%d", v/100000, v%100000))
						}
					}
				}
				logs[j] = strings.Join(p, ",")
				if len(p) == 0 {
					logs[j] = "-"
				}
			}
			histReqs = append(histReqs, fmt.Sprintf("C10\thist\t%s\t%s", strings.Join(counts, ","), strings.Join(logs, ";")))
		} else {
			histReqs = append(histReqs, "C10\thist\t1\t-")
		}
	}
	vmReps := e.O.AskBatch(vmReqs)
	histReps := e.O.AskBatch(histReqs)
	for k, s := range order {
		key := s.key()
		nontrivial := s.total()-s.Consumer >= 5
		e.R.Case(key, nontrivial)
		for _, t := range s.Threads {
			e.R.H("spawned_builtin_kind", t.Kind)
			e.R.H("spawned_builtin_form", map[string]string{"spawn": "spawn(b, …)", "bspawn": "b.spawn(…)", "go": "go b(…)"}[t.Form])
		}
		e.R.H("spawned_builtin_spawner", map[bool]string{false: "main program", true: "spawned coordinator"}[s.Nested])
		e.R.H("spawned_builtin_cap", strconv.Itoa(s.Cap))
		e.R.H("spawned_builtin_procs", strconv.Itoa(s.Procs))
		vf := strings.Split(vmReps[k], "\t")
		if len(vf) != 5 || vf[1] != "distinct" || vf[2] != "own" {
			e.R.Mismatch(key, "-", vmReps[k], "oracle reply malformed, or the model itself shares a VM")
			continue
		}
		if msg, dead := diedAt[s.ID]; dead {
			e.R.Mismatch(key, "the process died: "+msg, "every thread on its own VM ("+vf[0]+"), the run completes", "spawned builtins with callbacks: the run killed the harness's child process")
			e.R.Spec(key, "the process running this script died with an unrecoverable Go fault ("+msg+"): values sent were never received, the spawner never reached its end, wait() never returned\n"+s.script(), "")
			continue
		}
		r := results[s.ID]
		var bad []string
		// which VM ran whose script code
		if calibrated {
			_, tags := s.vmOps()
			model := strings.Split(vf[0], ",")
			var goVM []string
			first := map[int]int{}
			shared := ""
			for ti, tag := range tags {
				vms := r.VMs[strconv.Itoa(tag)]
				switch len(vms) {
				case 0:
					goVM = append(goVM, "?")
				case 1:
					if prev, seen := first[vms[0]]; seen {
						goVM = append(goVM, strconv.Itoa(prev))
						if shared == "" {
							shared = fmt.Sprintf("thread %d (%s) ran its script code on the VM of thread %d (%s)", ti, c10BTagName(s, tag), prev, c10BTagName(s, tags[prev]))
						}
					} else {
						first[vms[0]] = ti
						goVM = append(goVM, strconv.Itoa(ti))
					}
				default:
					goVM = append(goVM, fmt.Sprintf("several%v", vms))
					if shared == "" {
						shared = fmt.Sprintf("thread %d (%s) ran its script code on %d different VMs", ti, c10BTagName(s, tag), len(vms))
					}
				}
			}
			if strings.Join(goVM, ",") != strings.Join(model, ",") {
				e.R.Mismatch(key, "VM of each thread: "+strings.Join(goVM, ","), strings.Join(model, ",")+" (distinct)", "which VM each thread's script code runs on vs C10.vstep")
				if shared != "" {
					bad = append(bad, shared+": two running threads share one VM (frames, data stack, ip/fp/sp)")
				}
			}
		}
		if !r.Finished || r.Err != "" || r.Result != `"end"` {
			bad = append(bad, fmt.Sprintf("the script did not reach its end (finished=%v err=%q result=%s; the program's last expression is \"end\")", r.Finished, r.Err, r.Result))
		}
		// exactly once, in order per sender
		hf := strings.Split(histReps[k], "\t")
		if len(hf) != 3 {
			e.R.Mismatch(key, "-", histReps[k], "oracle reply malformed")
			continue
		}
		if hf[0] != "valid" {
			got := 0
			for _, l := range r.Logs {
				got += len(l)
			}
			bad = append(bad, fmt.Sprintf("the callbacks sent %d values, the receivers were handed %d (surplus:lost:alien = %s): not every value exactly once in order", s.total(), got, hf[2]))
			e.R.Mismatch(key, "history dups:lost:alien="+hf[2], "valid history (no iterating receiver: Impl = Spec)", "values fed by the callbacks of spawned builtins")
		}
		// the spawner's own computation, recomputed from what it received in the order it received it
		sum, acc := int64(0), int64(0)
		if len(r.Logs) > 0 {
			for _, v := range r.Logs[0] {
				sum += 2 * (v % 100000)
				acc = (acc*31 + v%7) % 1000003
				for j := int64(0); j < 3; j++ {
					acc = (acc + j*sum) % 1000003
				}
			}
		}
		wantOwn := fmt.Sprintf("[%d %d]", sum, acc)
		if got := fmt.Sprint(r.Own); got != wantOwn {
			bad = append(bad, fmt.Sprintf("the spawner's own sums are %s, its program computes %s from the values it received", got, wantOwn))
		}
		if s.Consumer > 0 {
			cs := int64(0)
			if len(r.Logs) > 1 {
				for _, v := range r.Logs[1] {
					cs += v % 100000
				}
			}
			if r.CSum != strconv.FormatInt(cs, 10) {
				bad = append(bad, fmt.Sprintf("wait() of the consumer thread returned %q, the consumer computed %d", r.CSum, cs))
			}
		}
		if s.Nested && r.CoordRes != `"coord-end"` {
			bad = append(bad, fmt.Sprintf("wait() of the coordinator returned %q, its call returns \"coord-end\"", r.CoordRes))
		}
		// wait() returns the callable's result
		for i, t := range s.Threads {
			if t.Form == "go" {
				continue
			}
			wv, ok := r.Waits[strconv.Itoa(i)]
			switch {
			case !ok:
				bad = append(bad, fmt.Sprintf("wait() of thread %d (%s, %s) was never reached", i, t.Kind, t.Form))
			case wv[0] != wv[1]:
				bad = append(bad, fmt.Sprintf("wait() of thread %d (%s, %s) returned %s, the same call made synchronously returns %s", i, t.Kind, t.Form, c10Short(wv[0]), c10Short(wv[1])))
			}
		}
		if len(bad) > 0 {
			if len(bad) > 6 {
				bad = append(bad[:6], fmt.Sprintf("… and %d more", len(bad)-6))
			}
			e.R.Spec(key, strings.Join(bad, "; ")+"\n"+s.script(), "")
		}
	}
	e.R.Note("spawned-builtin scenarios run in a child process: %d (VM identities compared: %v)", len(order), calibrated)
}

func c10BTagName(s *c10BScn, tag int) string {
	switch {
	case tag == 99 && !s.Nested:
		return "the main program, the spawner"
	case tag == 99:
		return "the coordinator, the spawner"
	case tag == 98:
		return "the main program"
	case tag == 90:
		return "the consumer function"
	case tag < len(s.Threads):
		return fmt.Sprintf("spawned %s via %s", s.Threads[tag].Kind, s.Threads[tag].Form)
	}
	return "?"
}

func c10Short(s string) string {
	if len(s) > 80 {
		return s[:80] + "…"
	}
	return s
}
