package main

// C10, part L — BUFFER CAPACITY, step by step (PropsCap.lean: send_blocks_iff_full,
// buffer_never_exceeds_cap, fifo_any_capacity, close_with_buffered_values_drains_in_order).
//
// One real object.Chan of capacity 0..4 — made by object.NewChan(n), by the builtin chan(n)
// or by the builtin make(chan, n) — is driven through a random history of sends, receives,
// closes, Next+Entry pairs and (capacity 0) hand-offs.  Whether a step can proceed is read
// off the REAL channel through the public API (len/cap of Chan.Value()), never off the
// model and never off a clock:
//   * a send on an open channel whose queue is full is made with a context that is already
//     cancelled, three times: every one of them must come back with context.Canceled (a
//     select whose only ready arm is ctx.Done() has no choice);
//   * a receive / Next on an open empty channel likewise;
//   * every other step is made with a live context and returns at once by Go's own rules
//     (room in the queue, a value in the queue, or a closed channel);
//   * a hand-off (capacity 0) is a receiver goroutine plus a sender: a rendezvous, both return.
// After EVERY step the queue length, "a send would block" and "a receive would block" of the
// real channel are compared with the model's (C10 capseq), and at the end the queue is
// drained value by value through the raw channel.  The Spec is evaluated on the real results
// alone: the queue never holds more than the requested capacity, cap(Value()) and Capacity()
// are the requested capacity, and received ++ queued = accepted in order.

import (
	"context"
	"fmt"
	"strconv"
	"strings"
	"sync"

	"github.com/risor-io/risor/builtins"
	"github.com/risor-io/risor/object"
)

type c10CapCase struct {
	cap  int
	form string // new | chan | make
	ops  []string
}

func c10CapGen(rng *RNG) c10CapCase {
	cs := c10CapCase{cap: rng.Intn(5), form: []string{"new", "chan", "make"}[rng.Intn(3)]}
	n := 8 + rng.Intn(33)
	pSend := []int{35, 50, 70, 85}[rng.Intn(4)]
	closedGen := false
	k := 0
	for len(cs.ops) < n {
		t := rng.Intn(4)
		switch {
		case rng.Chance(3) || (closedGen && rng.Chance(5)):
			cs.ops = append(cs.ops, fmt.Sprintf("c:%d", t))
			closedGen = true
		case rng.Chance(pSend):
			i := rng.Intn(3)
			if cs.cap == 0 && !closedGen && rng.Chance(70) {
				r := (t + 1 + rng.Intn(3)) % 4
				cs.ops = append(cs.ops, fmt.Sprintf("h:%d:%d:%d:%d:0", t, r, i, k))
			} else {
				cs.ops = append(cs.ops, fmt.Sprintf("s:%d:%d:%d", t, i, k))
			}
			k++
		case rng.Chance(20):
			cs.ops = append(cs.ops, fmt.Sprintf("n:%d", t), fmt.Sprintf("e:%d", t))
		default:
			cs.ops = append(cs.ops, fmt.Sprintf("r:%d", t))
		}
	}
	return cs
}

type c10CapReal struct {
	obs                []string
	lens, full, empty  []string
	queue, rcvd, acptd []string
	problems           []string // Spec violations seen on the real channel alone
}

func c10CapMake(cs c10CapCase) (*object.Chan, string) {
	ctx := context.Background()
	var o object.Object
	switch cs.form {
	case "new":
		return object.NewChan(cs.cap), ""
	case "chan":
		if cs.cap == 0 {
			o = builtins.Chan(ctx)
		} else {
			o = builtins.Chan(ctx, object.NewInt(int64(cs.cap)))
		}
	default:
		o = builtins.Make(ctx, builtins.Builtins()["chan"], object.NewInt(int64(cs.cap)))
	}
	ch, ok := o.(*object.Chan)
	if !ok {
		return nil, fmt.Sprintf("%s(%d) returned %s", cs.form, cs.cap, o.Inspect())
	}
	return ch, ""
}

func c10CapExec(cs c10CapCase) (res c10CapReal, fail string) {
	defer func() {
		if r := recover(); r != nil {
			fail = fmt.Sprintf("panic: %v", r)
		}
	}()
	ch, bad := c10CapMake(cs)
	if ch == nil {
		return res, bad
	}
	raw := ch.Value()
	if cap(raw) != cs.cap || ch.Capacity() != cs.cap {
		res.problems = append(res.problems, fmt.Sprintf("%s(%d): cap(Value()) = %d, Capacity() = %d", cs.form, cs.cap, cap(raw), ch.Capacity()))
	}
	vals := &c10Vals{byPtr: map[object.Object]string{}}
	live := context.Background()
	dead, cancel := context.WithCancel(context.Background())
	cancel()
	closedReal := false
	pending := map[string]bool{}
	atoi := func(s string) int { n, _ := strconv.Atoi(s); return n }
	sendObs := func(err error) string {
		switch {
		case err == nil:
			return "so"
		case err == context.Canceled:
			return "B"
		case strings.Contains(err.Error(), "send on closed channel"):
			return "se"
		}
		return "senderr(" + err.Error() + ")"
	}
	recvObs := func(v object.Object, err error) string {
		switch {
		case err == context.Canceled:
			return "B"
		case err != nil:
			return "recverr(" + err.Error() + ")"
		case v == object.Nil:
			return "nil"
		}
		res.rcvd = append(res.rcvd, vals.name(v))
		return "v:" + vals.name(v)
	}
	for _, op := range cs.ops {
		f := strings.Split(op, ":")
		o := "?"
		switch f[0] {
		case "s":
			if pending[f[1]] {
				o = "B"
				break
			}
			v := vals.mk(atoi(f[2]), atoi(f[3]))
			if !closedReal && len(raw) >= cap(raw) {
				// full (or unbuffered with nobody waiting): only ctx.Done() can be ready
				o = "B"
				for i := 0; i < 3 && o == "B"; i++ {
					o = sendObs(ch.Send(dead, v))
				}
				if o == "so" {
					res.problems = append(res.problems, fmt.Sprintf("%s: a send was accepted with len = %d = cap", op, cap(raw)))
				}
			} else {
				o = sendObs(ch.Send(live, v))
			}
			if o == "so" {
				res.acptd = append(res.acptd, vals.name(v))
			}
		case "r":
			if pending[f[1]] {
				o = "B"
				break
			}
			if !closedReal && len(raw) == 0 {
				o = "B"
				for i := 0; i < 3 && o == "B"; i++ {
					o = recvObs(ch.Receive(dead))
				}
			} else {
				o = recvObs(ch.Receive(live))
			}
		case "c":
			if pending[f[1]] {
				o = "B"
				break
			}
			if err := ch.Close(); err == nil {
				o = "co"
				closedReal = true
			} else if strings.Contains(err.Error(), "close of closed channel") {
				o = "ce"
			} else {
				o = "closeerr(" + err.Error() + ")"
			}
		case "n":
			if pending[f[1]] {
				o = "B"
				break
			}
			ctx := live
			blocked := !closedReal && len(raw) == 0
			if blocked {
				ctx = dead
			}
			v, more := ch.Iter().Next(ctx)
			switch {
			case more:
				o = "nv:" + vals.name(v)
				res.rcvd = append(res.rcvd, vals.name(v))
				pending[f[1]] = true
			case blocked:
				o = "B"
			default:
				o = "end"
			}
		case "e":
			if !pending[f[1]] {
				o = "B"
				break
			}
			delete(pending, f[1])
			if ent, has := ch.Entry(); !has {
				o = "entnone"
			} else {
				key := "?"
				if k, isInt := ent.Key().(*object.Int); isInt {
					key = strconv.FormatInt(k.Value(), 10)
				}
				o = "ent:" + key + ":" + vals.name(ent.Value())
			}
		case "h":
			if pending[f[1]] || pending[f[2]] || f[1] == f[2] || closedReal || cap(raw) != 0 || len(raw) != 0 {
				o = "B"
				break
			}
			v := vals.mk(atoi(f[3]), atoi(f[4]))
			var sres string
			var wg sync.WaitGroup
			wg.Add(1)
			go func() { defer wg.Done(); sres = sendObs(ch.Send(live, v)) }()
			// a rendezvous: both return by Go's rules.  The watch only keeps a BROKEN Send/Receive
			// (one that returns without handing the value over) from hanging the harness.
			if !c10_withWatch(func() { o = recvObs(ch.Receive(live)); wg.Wait() }) {
				return res, fmt.Sprintf("hung: hand-off %s did not complete within %v (sender and receiver were both started)", op, c10Wait)
			}
			if sres == "so" {
				res.acptd = append(res.acptd, vals.name(v))
			} else {
				o += "(sender:" + sres + ")"
			}
		}
		res.obs = append(res.obs, o)
		res.lens = append(res.lens, strconv.Itoa(len(raw)))
		b := func(x bool) string {
			if x {
				return "1"
			}
			return "0"
		}
		res.full = append(res.full, b(!closedReal && len(raw) == cap(raw)))
		res.empty = append(res.empty, b(!closedReal && len(raw) == 0))
		if len(raw) > cs.cap {
			res.problems = append(res.problems, fmt.Sprintf("after %s the queue holds %d values, capacity %d", op, len(raw), cs.cap))
		}
	}
	// drain through the raw channel, value by value, without ever waiting
	for {
		stop := false
		select {
		case v, ok := <-raw:
			if !ok {
				stop = true
			} else {
				res.queue = append(res.queue, vals.name(v))
			}
		default:
			stop = true
		}
		if stop {
			break
		}
	}
	return res, ""
}

func c10CapMin(a, b int) int {
	if a < b {
		return a
	}
	return b
}

func c10CapJoin(xs []string, sep string) string {
	if len(xs) == 0 {
		return "-"
	}
	return strings.Join(xs, sep)
}

func c10Capacity(e *Env) {
	rng := e.Rng.Fork()
	n := 6000
	if !e.Quick {
		n = 80000
	}
	var cases []c10CapCase
	// directed: fill to the brim, one more, close with everything buffered, drain, nil
	for cp := 0; cp <= 4; cp++ {
		for _, form := range []string{"new", "chan", "make"} {
			var ops []string
			for k := 0; k <= cp; k++ {
				ops = append(ops, fmt.Sprintf("s:%d:%d:%d", k%3, k%3, k))
			}
			if cp == 0 {
				ops = append(ops, "h:0:1:0:1:0", "h:2:3:2:2:0")
			}
			ops = append(ops, "c:0", fmt.Sprintf("s:1:1:%d", cp+3))
			for k := 0; k <= cp; k++ {
				ops = append(ops, fmt.Sprintf("r:%d", k%4))
			}
			ops = append(ops, "c:1", "n:2", "e:2")
			cases = append(cases, c10CapCase{cp, form, ops})
		}
	}
	for i := 0; i < n; i++ {
		cases = append(cases, c10CapGen(rng))
	}
	reqs := make([]string, len(cases))
	for i, c := range cases {
		reqs[i] = fmt.Sprintf("C10\tcapseq\t%d\t%s", c.cap, strings.Join(c.ops, ","))
	}
	reps := e.O.AskBatch(reqs)
	steps, blockedFull := 0, 0
	for i, c := range cases {
		key := fmt.Sprintf("capseq cap=%d form=%s ops=%s", c.cap, c.form, strings.Join(c.ops, ","))
		f := strings.Split(reps[i], "\t")
		if len(f) != 8 {
			e.R.Mismatch(key, "-", reps[i], "oracle reply malformed")
			continue
		}
		res, fail := c10CapExec(c)
		if fail != "" {
			e.R.Mismatch(key, fail, f[0], "the real channel could not be made / driven")
			if strings.HasPrefix(fail, "hung") {
				e.R.Note("capacity stream stopped after a hand-off that did not complete")
				break
			}
			continue
		}
		// what made the case interesting, counted on the REAL run
		full, afterClose, passed := 0, 0, len(res.rcvd)
		closedSeen := false
		for j, o := range res.obs {
			kind := strings.SplitN(c.ops[j], ":", 2)[0]
			e.R.H("capseq_obs", kind+"→"+strings.SplitN(o, ":", 2)[0])
			if kind == "s" && o == "B" && j > 0 && res.full[j-1] == "1" || kind == "s" && o == "B" && j == 0 {
				full++
			}
			if o == "co" {
				closedSeen = true
			}
			if closedSeen && (strings.HasPrefix(o, "v:") || strings.HasPrefix(o, "nv:")) {
				afterClose++
			}
		}
		steps += len(res.obs)
		blockedFull += full
		e.R.Case(key, full >= 1 && passed >= 2)
		e.R.H("capseq_cap", strconv.Itoa(c.cap))
		e.R.H("capseq_form", c.form)
		e.R.H("capseq_sends_blocked_on_full", strconv.Itoa(c10CapMin(full, 5)))
		e.R.H("capseq_values_received_after_close", strconv.Itoa(c10CapMin(afterClose, 4)))
		goAll := strings.Join([]string{c10CapJoin(res.obs, ","), c10CapJoin(res.lens, ","), c10CapJoin(res.full, ","), c10CapJoin(res.empty, ","),
			c10CapJoin(res.queue, ";"), c10CapJoin(res.rcvd, ";"), c10CapJoin(res.acptd, ";")}, " | ")
		model := strings.Join(f[:7], " | ")
		if goAll != model {
			e.R.Mismatch(key, goAll, model, "object.Chan vs C10.capTrace (obs | queue length | send would block | receive would block, after every step | final queue | received | accepted)")
		}
		if f[7] != "ok" {
			e.R.Mismatch(key, "-", f[7], "the model's own run violates buffer_never_exceeds_cap / fifo_any_capacity")
		}
		// Spec on the real results alone
		for _, p := range res.problems {
			e.R.Spec(key, "capacity: "+p, "")
		}
		if got, want := strings.Join(append(append([]string{}, res.rcvd...), res.queue...), ";"), strings.Join(res.acptd, ";"); got != want {
			e.R.Spec(key, "delivery order is not send order: received ++ queued = "+got+", accepted = "+want, "")
		}
	}
	e.R.Note("capacity stream: %d histories, %d steps, %d sends refused on a full open channel (each probed 3x with a cancelled context)", len(cases), steps, blockedFull)
}
